#!/bin/sh
# Build the framework from files on disk only (offline).  Idempotent.
set -e
cd "$(dirname "$0")"
export CARGO_NET_OFFLINE=true
( cd driver && cargo +nightly build --offline 2>&1 | tail -3 )
test -x driver/target/debug/pkv-mirdump
# facts of the library shims (generic MIR of safe stand-ins for raw-pointer based core::slice APIs)
T=$(mktemp -d)
( cd shims && LD_LIBRARY_PATH="$(rustc +nightly --print sysroot)/lib" RUSTFLAGS="-Zmir-opt-level=0 -Awarnings" \
    RUSTC_WORKSPACE_WRAPPER="$PWD/../driver/target/debug/pkv-mirdump" PKV_OUT="$PWD/facts.json" PKV_CRATE=pkv_shims \
    CARGO_TARGET_DIR="$T" cargo +nightly check --offline --lib --quiet )
rm -rf "$T"
test -s shims/facts.json
mkdir -p evidence replay
echo "setup ok: driver $(ls -la driver/target/debug/pkv-mirdump | awk '{print $5}') bytes, shims facts $(wc -c < shims/facts.json) bytes"
