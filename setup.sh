#!/bin/sh
# Build the framework from files on disk only (offline).  Idempotent.
set -e
cd "$(dirname "$0")"
export CARGO_NET_OFFLINE=true
( cd driver && cargo +nightly build --offline 2>&1 | tail -3 )
test -x driver/target/debug/pkv-mirdump
mkdir -p evidence replay
echo "setup ok: $(ls -la driver/target/debug/pkv-mirdump | awk '{print $5}') byte driver"
