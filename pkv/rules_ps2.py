"""Rules C05, C06 (frame decoder)."""
from .mirtab import Engine, Undecided, check_partition, C, T, ev, term_str
from .extract import conc, leaf_where, value_atoms, span_line

PS2 = 'Ps2Decoder'


def find_method(ctx, ty, name):
    for f in ctx.facts['fns']:
        if f['name'] == name and f.get('impl_self_str') == ty and not f.get('impl_trait'):
            return f
    raise Undecided('anchor %s::%s not found' % (ty, name))


def spec_frame(word):
    """The property's specification of 11-bit frame decoding."""
    if word & 1:
        return ('err', 'BadStartBit')
    if not (word >> 10) & 1:
        return ('err', 'BadStopBit')
    data = (word >> 1) & 0xFF
    ones = bin(data).count('1') + ((word >> 9) & 1)
    if ones % 2 == 0:
        return ('err', 'ParityError')
    return ('ok', data)


def res_of(ctx, native):
    """Result<u8, Error> native value -> ('ok', byte) | ('err', name)"""
    if native[0] != 'core::result::Result':
        raise Undecided('frame decoder returned non-Result')
    if native[1] == 0:
        return ('ok', native[2][0])
    return ('err', ctx.errors[native[2][0]])


def show(r):
    if r[0] == 'ok':
        return 'Ok(0x%02X)' % r[1]
    if r[0] == 'err':
        return 'Err(%s)' % r[1]
    return str(r)


def word_table(ctx, rep, nbits):
    """{word: (result, leaf)} of Ps2Decoder::add_word over word in 0..2^nbits."""
    f = find_method(ctx, PS2, 'add_word')
    if f['vis'] != 'pub':
        rep.finding('C05 add_word not-public', 'Ps2Decoder::add_word is not pub any more')
    eng = Engine(ctx.prog)
    leaves = eng.run(f['path'], arg_names=['self', 'word'], arg_doms={'word': range(1 << nbits)})
    check_partition(eng, leaves)
    tab = {}
    for lf in leaves:
        if lf.kind != 'return':
            for w in lf.doms['word']:
                tab[w] = (('panic', lf.panic[0]), lf)
            continue
        others = [a for a in value_atoms(lf.ret) if a != 'word']
        if others:
            raise Undecided('add_word result depends on decoder state: %s' % others)
        const = None if value_atoms(lf.ret) else res_of(ctx, conc(lf.ret))
        # a leaf may have been split on self.* atoms; the result must not depend on them
        for w in lf.doms['word']:
            r = const if const is not None else res_of(ctx, conc(lf.ret, {'word': w}))
            if w in tab and tab[w][0] != r:
                raise Undecided('add_word result depends on decoder state')
            tab[w] = (r, lf)
        # &self: no writes
        init = eng.initial_store.get(('H', 'self'))
        if lf.cells.get(('H', 'self')) != eng.deep(init, _FakeSt(lf.doms)):
            rep.finding('C05 add_word writes-decoder-state', 'whole-word decoding modifies the decoder: ' + leaf_where(lf))
    rep.analysed['add_word'] = {'fn': f['path'], 'path_classes': len(leaves), 'domain_bits': nbits, 'engine': dict(eng.stats)}
    return tab, f


class _FakeSt:
    def __init__(self, doms):
        self.doms = doms
        self.store = {}


def check_frames(ctx, rep, tier):
    """C05"""
    nbits = 11
    tab, f = word_table(ctx, rep, nbits)
    mism = {}
    for w in range(1 << nbits):
        exp = spec_frame(w)
        got, lf = tab[w]
        if exp == got:
            rep.ob('frames', 1)
            continue
        rep.ob('frames', 1, 0)
        ek = exp[1] if exp[0] == 'err' else 'Ok'
        gk = got[1] if got[0] != 'ok' else ('Ok' if exp[0] != 'ok' else 'Ok(wrong byte)')
        mism.setdefault((ek, gk), []).append((w, exp, got, lf))
    for (ek, gk), items in sorted(mism.items()):
        w, exp, got, lf = items[0]
        rep.finding('C05 frames expected=%s got=%s' % (ek, gk),
                    '%d of 2048 frames, e.g. word=0x%03X (bits 10..0 = %s) expected %s got %s; %s' % (
                        len(items), w, format(w, '011b'), show(exp), show(got), leaf_where(lf)))
    # corollaries, read off the extracted table
    def enc(b):
        par = 0 if bin(b).count('1') % 2 else 1
        return (b << 1) | (par << 9) | (1 << 10)
    for b in range(256):
        w = enc(b)
        ok = tab[w][0] == ('ok', b)
        rep.ob('round-trip', 1, 1 if ok else 0)
        if not ok:
            rep.finding('C05 round-trip', 'valid frame of byte 0x%02X (word 0x%03X) decodes as %s; %s' % (b, w, show(tab[w][0]), leaf_where(tab[w][1])))
        for i in range(11):
            w2 = w ^ (1 << i)
            rej = tab[w2][0][0] == 'err'
            rep.ob('single-bit corruption rejected', 1, 1 if rej else 0)
            if not rej:
                rep.finding('C05 single-bit-corruption bit=%d' % i,
                            'valid frame 0x%03X with bit %d flipped (0x%03X) is accepted as %s; %s' % (w, i, w2, show(tab[w2][0]), leaf_where(tab[w2][1])))
        for i in range(11):
            for j in range(i + 1, 11):
                w2 = w ^ (1 << i) ^ (1 << j)
                okk = tab[w2][0] == spec_frame(w2)
                rep.ob('double-bit corruption per spec', 1, 1 if okk else 0)
    rep.nontrivial = sum(1 for w in range(2048) if spec_frame(w)[0] == 'ok') + 3
    for w in (0x000, 0x401, 0x600, 0x400, enc(0x1C), enc(0xF0)):
        rep.sample({'word': '0x%03X' % w, 'bits10..0': format(w, '011b'), 'spec': show(spec_frame(w)), 'extracted': show(tab[w][0]),
                    'where': leaf_where(tab[w][1])})
    rep.rule = ('decision list of Ps2Decoder::add_word (private checker inlined) over all 2048 11-bit words compared with the frame '
                'specification incl. error priority; non-trivial = accepted frames + the three error classes')
    if tier == 'thorough':
        tab16, _ = word_table(ctx, rep, 16)
        hi_ignored = all(tab16[w][0] == tab16[w & 0x7FF][0] for w in range(1 << 16))
        rep.ob('u16 words explored (outside precondition, reported not judged)', 1 << 16)
        rep.note('words with bits above bit 10 set: %s' % ('high bits are ignored (result = that of the low 11 bits)' if hi_ignored
                                                       else 'high bits influence the result (unconstrained by the property)'))
        bad = [w for w in range(2048) if tab16[w][0] != tab[w][0]]
        if bad:
            rep.finding('C05 domain-dependence', 'analysis over u16 disagrees with analysis over 11 bits at 0x%03X' % bad[0])
    return tab


def check_bitserial(ctx, rep, tier):
    from .rules_event import check_clone_faithful
    check_clone_faithful(ctx, rep, ('Ps2Decoder',))
    """C06: symbolic-register induction (DESIGN 3.3 / 4 C06)."""
    prog = ctx.prog
    f_new = find_method(ctx, PS2, 'new')
    f_bit = find_method(ctx, PS2, 'add_bit')
    f_clear = find_method(ctx, PS2, 'clear')
    tab, f_word = word_table(ctx, rep, 11)
    # state_0 = what new() constructs
    eng = Engine(prog)
    lv = eng.run(f_new['path'])
    if len(lv) != 1 or lv[0].kind != 'return' or value_atoms(lv[0].ret):
        raise Undecided('Ps2Decoder::new is not a constant constructor')
    state0 = lv[0].ret
    rep.analysed['state0'] = term_str(state0)
    # any other constructor (Default::default, ...) must produce the same initial decoder
    for f in ctx.facts['fns']:
        o = f.get('output') or {}
        if f['path'] != f_new['path'] and f['body']['arg_count'] == 0 and o.get('k') == 'adt' and o.get('path') == PS2:
            e2 = Engine(prog)
            l2 = e2.run(f['path'])
            ok = len(l2) == 1 and l2[0].kind == 'return' and l2[0].ret == state0
            rep.ob('constructors agree with new()', 1, 1 if ok else 0)
            if not ok:
                rep.finding('C06 constructor %s initial-state' % f['path'].split('::')[-1],
                            '%s (at %s) builds %s, new() builds %s: the first frame is decoded from a different state' % (
                                f['path'], f['sp'], term_str(l2[0].ret) if l2 else '?', term_str(state0)))
    from .extract import observer_fields
    from .rules_event import KNOWN_API
    obs = observer_fields(ctx, PS2, KNOWN_API)
    if obs:
        rep.note('Ps2Decoder fields %s only observe the decoding (not part of its state)' % sorted(prog.adt(PS2)['variants'][0]['fields'][i]['name'] for i in obs))

    def norm(v):
        # observer-only fields (a frame counter ...) are not decoder state: compared and carried at their initial value
        if obs and v is not None and v[0] == 'adt':
            return ('adt', v[1], v[2], tuple(state0[3][i] if i in obs else x for i, x in enumerate(v[3])))
        return v
    NB = 11
    # abstract states: list of (ghost cube, decoder value); ghost atom b<i> = i-th bit shifted in
    states = [({}, state0)]
    total_classes = 0

    def run_from(fn, doms, value, extra_bit=None):
        e = Engine(prog)

        def setup(st, argvals):
            for n, d in doms.items():
                e.declare_atom(st, n, 'bool', d)
            st.store[('H', 'self')] = value
            if extra_bit:
                # full ghost domains for weights
                pass
        args = [('ref', ('H', 'self'), ())]
        if extra_bit:
            def setup2(st, argvals, _s=setup):
                _s(st, argvals)
                st.store[('L', 0, 2)] = e.declare_atom(st, extra_bit, 'bool', (0, 1))
            lvs = e.run(fn['path'], args=args + [('c', 0, 'bool')], setup=setup2)
        else:
            lvs = e.run(fn['path'], args=args, setup=setup)
        return e, lvs

    for k in range(NB):
        nxt = []
        bit = 'b%d' % k
        for doms, val in states:
            e, lvs = run_from(f_bit, doms, val, extra_bit=bit)
            total_classes += len(lvs)
            for lf in lvs:
                gh = {n: lf.doms[n] for n in lf.doms if n.startswith('b') and n[1:].isdigit()}
                if lf.kind != 'return':
                    rep.ob('bit %d' % (k + 1), 1, 0)
                    rep.finding('C06 bit=%d panics' % (k + 1), 'shifting in bit %d of a frame can panic: %s' % (k + 1, leaf_where(lf)))
                    continue
                post = norm(lf.cells[('H', 'self')])
                if k < NB - 1:
                    r = lf.ret
                    if value_atoms(r) or conc(r) != ('core::result::Result', 0, (('core::option::Option', 0, ()),)):
                        rep.ob('bit %d' % (k + 1), 1, 0)
                        rep.finding("C06 bit=%d not-incomplete" % (k + 1),
                                    "bit %d of a frame must return Ok(None) ('incomplete') but returns %s; %s" % (k + 1, term_str(r), leaf_where(lf)))
                    else:
                        rep.ob('bit %d' % (k + 1), 1)
                    nxt.append((gh, post))
                else:
                    # 11th bit: result must equal whole-word decoding of the same 11 bits; state must be state0
                    names = sorted(gh, key=lambda n: int(n[1:]))
                    import itertools
                    bad = None
                    n_asg = 0
                    for vals in itertools.product(*[sorted(gh[n]) for n in names]):
                        asg = dict(zip(names, vals))
                        n_asg += 1
                        word = sum(asg['b%d' % i] << i for i in range(NB))
                        exp = tab[word][0]
                        got = conc(lf.ret, asg)
                        if got[0] != 'core::result::Result':
                            raise Undecided('add_bit returned non-Result')
                        if got[1] == 1:
                            g = ('err', ctx.errors[got[2][0]])
                        else:
                            o = got[2][0]
                            g = ('incomplete',) if o[1] == 0 else ('ok', o[2][0])
                        if g != exp and bad is None:
                            bad = (word, exp, g)
                    if bad:
                        rep.ob('11th bit = whole-word decoding', n_asg, 0)
                        word, exp, g = bad
                        rep.finding('C06 bit=11 differs-from-add_word expected=%s got=%s' % (exp[1] if exp[0] == 'err' else 'Ok', g[1] if g[0] == 'err' else g[0]),
                                    'frame word=0x%03X: bit-serial gives %s, whole-word decoding gives %s; %s' % (word, show(g) if g[0] != 'incomplete' else 'Ok(None)', show(exp), leaf_where(lf)))
                    else:
                        rep.ob('11th bit = whole-word decoding', n_asg)
                    if post != state0:
                        rep.ob('frame independence (post-state = initial)', 1, 0)
                        kind = 'Err' if (not value_atoms(lf.ret) and conc(lf.ret)[1] == 1) else 'Ok'
                        rep.finding('C06 bit=11 state-leaks result=%s' % kind,
                                    'after the 11th bit the decoder is not back in its initial state (%s instead of %s), so this frame leaks into the next; %s' % (
                                        term_str(post), term_str(state0), leaf_where(lf)))
                    else:
                        rep.ob('frame independence (post-state = initial)', 1)
        # clear() from every abstract state with k bits shifted in (k = 0..10)
        for doms, val in states:
            e, lvs = run_from(f_clear, doms, val)
            for lf in lvs:
                if lf.kind != 'return' or norm(lf.cells[('H', 'self')]) != state0:
                    rep.ob('clear()', 1, 0)
                    rep.finding('C06 clear after=%d bits' % k,
                                'clear() with %d bits of a partial frame shifted in does not restore the initial state (%s); %s' % (
                                    k, term_str(lf.cells.get(('H', 'self'))), leaf_where(lf)))
                else:
                    rep.ob('clear()', 1)
        if k < NB - 1:
            # merge identical abstract states differing in one ghost atom only is unnecessary: keep as is
            states = nxt
            if len(states) > 4096:
                raise Undecided('abstract shift-register states explode (%d)' % len(states))
            rep.analysed.setdefault('abstract_states', []).append({'bits_in': k + 1, 'classes': len(states),
                                                                   'example': term_str(states[0][1])[:300] if states else None})
    rep.analysed['add_bit'] = {'fn': f_bit['path'], 'path_classes_total': total_classes}
    rep.analysed['clear'] = {'fn': f_clear['path']}
    rep.nontrivial = 2048
    rep.sample({'abstract_state_after_3_bits': rep.analysed['abstract_states'][2]['example'] if len(rep.analysed.get('abstract_states', [])) > 2 else None})
    rep.sample({'induction': 'state after the 11th bit is syntactically the new() state on every path (Ok and Err), so frames are independent'})
    rep.rule = ('11 abstract shift-register states (register = term over ghost bits b0..b(k-1)) computed by chaining add_bit from new(); '
                'bits 1..10 return Ok(None); 11th-bit result compared with add_word on all 2048 ghost assignments; post-state = new() state; '
                'clear() from each abstract state = new() state')
