"""Shared reporting: findings, known-findings file, evidence, exit protocol."""
import json, os, sys, time

VERIF = os.path.dirname(os.path.dirname(os.path.abspath(__file__)))
KNOWN_FILE = os.path.join(VERIF, 'KNOWN_FINDINGS.txt')
# overridable so that mutant / refactoring experiments on scratch copies never touch the committed evidence
EVIDENCE_DIR = os.environ.get('PKV_EVIDENCE_DIR') or os.path.join(VERIF, 'evidence')
REPLAY_DIR = os.environ.get('PKV_REPLAY_DIR') or os.path.join(VERIF, 'replay')


def load_known():
    """KNOWN_FINDINGS.txt lines:
         known: property=<ID> key=<exact key> :: <what fails>
         fixed: property=<ID> <commit> <what failed>      (suppresses nothing)
    """
    known = {}
    fixed = []
    if os.path.exists(KNOWN_FILE):
        for line in open(KNOWN_FILE, encoding='utf-8'):
            line = line.rstrip('\n')
            if not line.strip() or line.lstrip().startswith('#'):
                continue
            if line.startswith('known:'):
                body = line[len('known:'):].strip()
                head, _, what = body.partition(' :: ')
                parts = head.split(' ', 1)
                prop = parts[0].split('=', 1)[1]
                key = parts[1].split('=', 1)[1] if len(parts) > 1 else ''
                known[(prop, key)] = what
            elif line.startswith('fixed:'):
                fixed.append(line)
    return known, fixed


class Report:
    def __init__(self, prop, tier, level, technique):
        self.prop = prop
        self.tier = tier
        self.level = level
        self.technique = technique
        self.t0 = time.time()
        self.findings = []      # (key, detail)
        self.notes = []
        self.obligations = {}   # name -> [checked, discharged]
        self.samples = []
        self.analysed = {}      # free-form: what was analysed
        self.assumptions = []
        self.trusted = []
        self.floors = []        # (name, got, floor)
        self.explanation = ''
        self.rule = ''
        self.nontrivial = 0
        self.extra = {}

    # -- recording ---------------------------------------------------------
    flavour = None   # set by the driver loop: which build flavour's MIR is being analysed

    def finding(self, key, detail):
        for k, _ in self.findings:
            if k == key:
                return
        if self.flavour:
            detail = '%s [first seen in the %s-flavour MIR]' % (detail, self.flavour)
        self.findings.append((key, detail))

    def undecided(self, what):
        self.finding('UNDECIDED ' + what.split(' at ')[0][:160], 'the analysis could not decide (fails closed): ' + what)

    def note(self, text):
        self.notes.append(text)
        print('NOTE: ' + text)

    def ob(self, name, checked, discharged=None):
        o = self.obligations.setdefault(name, [0, 0])
        o[0] += checked
        o[1] += checked if discharged is None else discharged

    def sample(self, s):
        if len(self.samples) < 12:
            self.samples.append(s)

    def floor(self, name, got, floor):
        """Fail closed when a rule matched fewer instances than were counted by hand."""
        self.floors.append((name, got, floor))
        if got < floor:
            self.finding('FLOOR %s' % name,
                         'rule instance count fell below the confirmed floor: %s = %d < %d (anchor missing or renamed; the check fails closed)' % (name, got, floor))

    # -- finishing ---------------------------------------------------------
    def finish(self):
        known, _fixed = load_known()
        new = []
        knownhits = []
        for key, detail in self.findings:
            if (self.prop, key) in known:
                knownhits.append((key, known[(self.prop, key)], detail))
            else:
                new.append((key, detail))
        for key, what, detail in knownhits:
            print('KNOWN-FINDING: property=%s %s [key=%s]' % (self.prop, what, key))
        total_ob = sum(o[0] for o in self.obligations.values())
        total_dis = sum(o[1] for o in self.obligations.values())
        wall = round(time.time() - self.t0, 3)
        cov = {
            'obligations': total_ob,
            'discharged': total_dis,
            'checker_cmd': './check %s %s' % (self.prop, self.tier),
            'trusted_base': self.trusted,
            'evaluations': max(total_ob, 1),
            'distinct_nontrivial': max(self.nontrivial, 0),
            'rule': self.rule,
            'samples': self.samples or ['(no sample recorded)'],
            'explanation': self.explanation or (self.technique + ' -- ' + (self.rule or 'see DESIGN.md')),
            'exhaustive': True,
            'obligation_breakdown': {k: {'checked': v[0], 'discharged': v[1]} for k, v in self.obligations.items()},
            'analysed': self.analysed,
            'floors': [{'name': n, 'got': g, 'floor': f} for n, g, f in self.floors],
            'technique': self.technique,
            'known_findings_matched': [k for k, _, _ in knownhits],
            'notes': self.notes[:40],
        }
        cov.update(self.extra)
        ev = {
            'property_id': self.prop,
            'tier': self.tier,
            'seed': int(os.environ.get('VERIF_SEED', '0') or 0),
            'level': self.level,
            'coverage': cov,
            'assumptions': self.assumptions,
            'wall_s': wall,
            'violations': len(new),
        }
        os.makedirs(EVIDENCE_DIR, exist_ok=True)
        with open(os.path.join(EVIDENCE_DIR, self.prop + '.json'), 'w', encoding='utf-8') as f:
            json.dump(ev, f, indent=1, ensure_ascii=False)
            f.write('\n')
        print('%s %s: %d obligations, %d discharged, %d known finding(s), %d new violation(s), %.2fs' % (
            self.prop, self.tier, total_ob, total_dis, len(knownhits), len(new), wall))
        if new:
            os.makedirs(REPLAY_DIR, exist_ok=True)
            rp = os.path.join(REPLAY_DIR, '%s.json' % self.prop)
            with open(rp, 'w', encoding='utf-8') as f:
                json.dump({'property': self.prop, 'tier': self.tier,
                           'violations': [{'key': k, 'detail': d} for k, d in new]}, f, indent=1, ensure_ascii=False)
            for k, d in new[:60]:
                print('  violation: %s\n      %s' % (k, d))
            if len(new) > 60:
                print('  ... and %d more (see replay file)' % (len(new) - 60))
            print('VIOLATION property=%s replay=%s' % (self.prop, rp))
            return 1
        return 0
