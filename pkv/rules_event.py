"""Rules C04 (modifier tracking) and C14 (event decoding) over the generic
EventDecoder<L>::process_keyevent body, analysed once, parametrically in L."""
import itertools, json, os
from .common import VERIF
from .mirtab import Engine, Undecided, check_partition, ev, atoms_in, term_str, is_scalar, soft_budget
from .extract import conc, leaf_where, value_atoms, writers_of, returns_mut_ref_to, iter_bodies, place_field_chain

ED = 'EventDecoder'



# names of the public operations the properties speak about; anything else public is an API extension
KNOWN_API = {'add_bit', 'add_word', 'add_byte', 'clear', 'set_ctrl_handling', 'get_ctrl_handling', 'get_modifiers',
             'change_layout', 'process_keyevent', 'new', 'map_keycode', 'advance_state', 'default',
             'is_shifted', 'is_ctrl', 'is_alt', 'is_altgr', 'is_caps'}

def load_keys():
    with open(os.path.join(VERIF, 'reference', 'keys.json')) as f:
        return json.load(f)


def find_generic_method(ctx, adt, name):
    hits = []
    for f in ctx.facts['fns']:
        st = f.get('impl_self')
        if f['name'] == name and st and st.get('k') == 'adt' and st.get('path') == adt and not f.get('impl_trait'):
            hits.append(f)
    if len(hits) > 1:
        # the same method defined in several impl blocks (e.g. one per concrete scancode set): "analysed once,
        # parametrically" no longer covers every instantiation
        raise Undecided('%s::%s is defined in %d impl blocks (%s)' % (adt, name, len(hits), ', '.join(h['sp'] for h in hits)))
    if hits:
        return hits[0]
    raise Undecided('anchor %s::%s not found' % (adt, name))


def field_index(ctx, adt, fname=None, ty_path=None, ty_kind=None):
    a = ctx.prog.adt(adt)
    hits = []
    for i, fl in enumerate(a['variants'][0]['fields']):
        t = fl['ty']
        if ty_path is not None and t.get('k') == 'adt' and t.get('path') == ty_path:
            hits.append(i)
        if ty_kind is not None and t.get('k') == ty_kind:
            hits.append(i)
    return hits


SOFT_S = int(os.environ.get('PKV_SOFT_BUDGET_S') or 120)


def ed_extra_state_guard(ctx):
    a_ = ctx.prog.adts.get(ED)
    if a_ is not None and a_['kind'] == 'struct':
        from .extract import observer_fields
        core = set(field_index(ctx, ED, ty_path='Modifiers') + field_index(ctx, ED, ty_path='HandleControl') + field_index(ctx, ED, ty_kind='param'))
        extras = [i for i in range(len(a_['variants'][0]['fields'])) if i not in core]
        if extras:
            obs = observer_fields(ctx, ED, KNOWN_API)
            live = [a_['variants'][0]['fields'][i]['name'] for i in extras if i not in obs]
            if live:
                return ('EventDecoder keeps state besides modifiers, mode and layout that can influence its operations (field%s %s): '
                        'its behaviour depends on more history than the rule could explore in %%d s' % ('s' if len(live) > 1 else '', ', '.join(live)))
    return None


class EventModel:
    """Path classes of process_keyevent with the layout call kept opaque."""

    def __init__(self, ctx):
        self.ctx = ctx
        self.f = find_generic_method(ctx, ED, 'process_keyevent')
        # state the decoder keeps besides its modifiers, mode and layout: fine while it only observes (a counter, a table of held keys
        # with a getter); if it can influence what the operations do, the decoder's behaviour depends on more history than the rules
        # model (512 modifier states x 2 modes) - decided fast and closed rather than by exhausting the budget (seeded3/C14-q6: a cache
        # of the last (key, modifiers, result) triple)
        risky = ed_extra_state_guard(ctx)
        self.eng = Engine(ctx.prog)
        if risky:
            # explored with the extra fields as free symbolic state, under a tight budget: a counter of repeats compared with the
            # incoming key is fine, a cache of whole results is not
            with soft_budget(SOFT_S, risky % SOFT_S):
                self.leaves = self.eng.run(self.f['path'], arg_names=['self', 'ev'])
        else:
            self.leaves = self.eng.run(self.f['path'], arg_names=['self', 'ev'])
        check_partition(self.eng, self.leaves)
        im = field_index(ctx, ED, ty_path='Modifiers')
        ih = field_index(ctx, ED, ty_path='HandleControl')
        il = field_index(ctx, ED, ty_kind='param')
        if len(im) != 1 or len(ih) != 1 or len(il) != 1:
            raise Undecided('EventDecoder no longer has exactly one Modifiers / HandleControl / layout field (%s, %s, %s)' % (im, ih, il))
        self.i_mod, self.i_hc, self.i_lay = im[0], ih[0], il[0]
        self.init = self.eng.initial_store[('H', 'self')]
        self.init_mods = self.init[3][self.i_mod]
        self.flag_atoms = []
        for v in self.init_mods[3]:
            if v[0] != 'a':
                raise Undecided('modifier field is not a plain input')
            self.flag_atoms.append(v[1])
        self.code_atom, self.state_atom = 'ev.code', 'ev.state'
        self.hc_atom = self.init[3][self.i_hc][1]

    def post_mods(self, lf):
        return lf.cells[('H', 'self')][3][self.i_mod][3]


def check_event_constructor(ctx, rep):
    """`KeyEvent::new(code, state)` is how events enter the event decoder through the public API: it must store exactly
    the key and the state it is given (a constructor that folds one key or state into another makes every statement
    about 'the key pressed' false for the folded ones)."""
    a = ctx.prog.adts.get('KeyEvent')
    cands = [f for f in ctx.facts['fns'] if f['name'] == 'new' and (f.get('impl_self') or {}).get('path') == 'KeyEvent' and not f.get('impl_trait')]
    if a is None or len(cands) != 1:
        rep.note('KeyEvent::new not found as a unique inherent function (not judged)')
        return
    f = cands[0]
    names = [fl['name'] for fl in a['variants'][0]['fields']]
    try:
        eng = Engine(ctx.prog)
        leaves = eng.run(f['path'], arg_names=['code', 'state'])
        check_partition(eng, leaves)
    except Undecided as u:
        rep.finding('%s KeyEvent::new undecided' % rep.prop, str(u))
        return
    for lf in leaves:
        ok = lf.kind == 'return' and lf.ret is not None and lf.ret[0] == 'adt' and lf.ret[1] == 'KeyEvent' and len(lf.ret[3]) == len(names)
        if ok:
            for nm, v in zip(names, lf.ret[3]):
                if nm in ('code', 'state') and v != ('a', nm, v[2] if len(v) > 2 else None):
                    ok = False
        rep.ob('KeyEvent::new stores its arguments', 1, 1 if ok else 0)
        if not ok:
            narrowed = ', '.join('%s in %s' % (n, sorted(lf.doms[n])[:6]) for n in ('code', 'state') if n in lf.doms and eng.full_doms.get(n) is not None
                                 and len(lf.doms[n]) != len(eng.full_doms[n]))
            rep.finding('%s KeyEvent::new does-not-store-its-arguments' % rep.prop,
                        'KeyEvent::new returns %s for %s; %s' % (term_str(lf.ret) if lf.ret is not None else lf.kind, narrowed or 'every input', leaf_where(lf)))


def check_eq_structural(ctx, rep, type_names):
    """A hand-written `PartialEq` of a value type the properties compare with (`reported as exactly the key ...`, `distinct
    sequences denote distinct keys`, `identical key event`) must be plain structural equality - a derived one is by
    construction.  Otherwise two different reported values can pass for the same one."""
    from .extract import flat_scalars
    for f in ctx.facts['fns']:
        tr_ = (f.get('impl_trait') or '').split('::')[-1]
        if f.get('derived') or (f['name'], tr_) not in (('eq', 'PartialEq'), ('ne', 'PartialEq'), ('cmp', 'Ord'), ('partial_cmp', 'PartialOrd')):
            continue
        st = f.get('impl_self') or {}
        if st.get('k') != 'adt' or st.get('path', '').split('::')[-1] not in type_names:
            continue
        tname = st['path'].split('::')[-1]
        try:
            eng = Engine(ctx.prog)
            leaves = eng.run(f['path'], arg_names=['self', 'other'])
            check_partition(eng, leaves)
            a0, b0 = eng.initial_store.get(('H', 'self')), eng.initial_store.get(('H', 'other'))
            if a0 is not None and b0 is not None and a0[0] == 'se' and b0[0] == 'se':
                # a data-carrying enum (DecodedKey): per path class both variants must be decided; same variant => the result
                # is the equality of the payloads, different variants => false
                bad = None
                n = 0
                ta, tb = a0[2][1], b0[2][1]
                for lf in leaves:
                    if lf.kind != 'return':
                        bad = ('panics', leaf_where(lf)); break
                    for va in sorted(lf.doms[ta]):
                        for vb in sorted(lf.doms[tb]):
                            n += 1
                            pa, pb = a0[3][va] or (), b0[3][vb] or ()
                            r = lf.ret
                            if f['name'] in ('cmp', 'partial_cmp'):
                                # only `Equal` is pinned: it must mean same variant and equal payloads
                                if f['name'] == 'partial_cmp':
                                    if r is None or r[0] != 'adt':
                                        raise Undecided('partial_cmp result is not a decided Option')
                                    r = r[3][0] if r[2] == 1 else ('c', -99, 'isize')
                                if va != vb or not pa:
                                    if r[0] != 'c':
                                        raise Undecided('ordering of variants %d / %d is not a constant' % (va, vb))
                                    okc = (r[1] == 1) == (va == vb)
                                elif len(lf.doms[ta]) == 1 and len(lf.doms[tb]) == 1 and len(pa) == 1 and all(x[0] == 'a' for x in pa + pb):
                                    okc = r[0] == 't' and r[1] == 'Cmp' and tuple(r[2]) in ((pa[0], pb[0]), (pb[0], pa[0]))
                                    if not okc and all(lf.doms.get(x[1]) is not None for x in pa + pb):
                                        da, db = sorted(lf.doms[pa[0][1]]), sorted(lf.doms[pb[0][1]])
                                        if len(da) * len(db) <= (1 << 20):
                                            okc = all(((r[1] if r[0] == 'c' else ev(r, {pa[0][1]: x, pb[0][1]: y})) == 1) == (x == y) for x in da for y in db)
                                    if not okc and r[0] == 't':
                                        raise Undecided('payload ordering of variant %d cannot be decided' % va)
                                else:
                                    raise Undecided('payload ordering of variant %d cannot be decided' % va)
                            elif va != vb:
                                okc = r[0] == 'c' and r[1] == (0 if f['name'] == 'eq' else 1)
                            elif not pa:
                                okc = r[0] == 'c' and r[1] == (1 if f['name'] == 'eq' else 0)
                            elif len(lf.doms[ta]) == 1 and len(lf.doms[tb]) == 1 and len(pa) == 1 and all(x[0] == 'a' for x in pa + pb):
                                op = 'Eq' if f['name'] == 'eq' else 'Ne'
                                okc = r in (('t', op, (pa[0], pb[0]), 'bool'), ('t', op, (pb[0], pa[0]), 'bool'))
                                if not okc and all(lf.doms.get(x[1]) is not None for x in pa + pb):
                                    da, db = sorted(lf.doms[pa[0][1]]), sorted(lf.doms[pb[0][1]])
                                    if len(da) * len(db) <= (1 << 20):
                                        okc = all((r[1] if r[0] == 'c' else ev(r, {pa[0][1]: x, pb[0][1]: y})) == int((x == y) == (f['name'] == 'eq')) for x in da for y in db)
                            else:
                                raise Undecided('payload comparison of variant %d cannot be decided' % va)
                            if not okc and bad is None:
                                bad = ('%s(variant %d, variant %d) = %s' % (f['name'], va, vb, term_str(r)), leaf_where(lf))
                    if bad:
                        break
                rep.ob('hand-written PartialEq impls are structural', max(n, 1), 0 if bad else max(n, 1))
                if bad:
                    rep.finding('%s eq-of-%s is-not-structural' % (rep.prop, tname),
                                '%s is hand-written and not structural equality: %s; %s' % (f['path'], bad[0], bad[1]))
                continue
            fa, fb = flat_scalars(a0), flat_scalars(b0)
            if len(fa) != len(fb) or any(x[0] != 'a' for x in fa + fb):
                raise Undecided('operands are not plain field tuples')
            names = [x[1] for x in fa + fb]
            bad = None
            n = 0
            for lf in leaves:
                if lf.kind != 'return':
                    bad = ('panics', leaf_where(lf)); break
                doms = []
                for nm in names:
                    d = lf.doms.get(nm)
                    if d is None:
                        raise Undecided('comparison over an unbounded field %s' % nm)
                    doms.append(sorted(d))
                size = 1
                for d in doms:
                    size *= len(d)
                if size > (1 << 21):
                    raise Undecided('too many value pairs to enumerate')
                for vals in itertools.product(*doms):
                    n += 1
                    asg = dict(zip(names, vals))
                    same = all(asg[x[1]] == asg[y[1]] for x, y in zip(fa, fb))
                    if f['name'] in ('cmp', 'partial_cmp'):
                        # an ordering may be any total order, but `Equal` must mean equal: two different keys that compare
                        # Equal are one key to every BTreeMap / sort / dedup
                        r_ = conc(lf.ret, asg)
                        if f['name'] == 'partial_cmp':
                            r_ = r_[2][0] if (isinstance(r_, tuple) and r_[1] == 1) else None
                        got = int(r_ == 1)          # index of Ordering::Equal
                        want = int(same)
                    else:
                        got = lf.ret[1] if lf.ret[0] == 'c' else ev(lf.ret, asg)
                        want = int(same) if f['name'] == 'eq' else int(not same)
                    if got != want and bad is None:
                        bad = ('%s(%s, %s) = %s' % (f['name'], [asg[x[1]] for x in fa], [asg[y[1]] for y in fb], bool(got)), leaf_where(lf))
                if bad:
                    break
            rep.ob('hand-written PartialEq impls are structural', max(n, 1), 0 if bad else max(n, 1))
            if bad:
                rep.finding('%s eq-of-%s is-not-structural' % (rep.prop, tname),
                            '%s is hand-written and not structural equality: %s; two different reported values compare equal (or equal ones differ); %s' % (
                                f['path'], bad[0], bad[1]))
        except Undecided as u:
            rep.finding('%s eq-of-%s undecided' % (rep.prop, tname), 'hand-written PartialEq impl %s could not be analysed: %s' % (f['path'], u))


def check_clone_faithful(ctx, rep, type_names):
    """A hand-written `Clone` of a state type must produce an equal state (a derived one does by construction): otherwise
    the copy's state is not the history it was copied from."""
    for f in ctx.facts['fns']:
        if f.get('derived') or f['name'] != 'clone' or (f.get('impl_trait') or '') not in ('core::clone::Clone', 'Clone'):
            continue
        st = f.get('impl_self') or {}
        if st.get('k') != 'adt' or st.get('path', '').split('::')[-1] not in type_names:
            continue
        try:
            eng = Engine(ctx.prog)
            leaves = eng.run(f['path'], arg_names=['self'])
            check_partition(eng, leaves)
        except Undecided as u:
            rep.finding('%s clone-of-%s undecided' % (rep.prop, st['path'].split('::')[-1]), 'hand-written Clone impl %s could not be analysed: %s' % (f['path'], u))
            continue
        for lf in leaves:
            src = lf.cells.get(('H', 'self'))
            whole = lf.kind == 'return' and src is not None and lf.ret is not None and \
                (lf.ret == src or eng.deep(lf.ret, _St(lf.doms)) == eng.deep(src, _St(lf.doms)))
            ok = whole or (lf.kind == 'return' and src is not None and lf.ret is not None and lf.ret[0] == 'adt' and src[0] == 'adt'
                           and lf.ret[1] == src[1] and lf.ret[2] == src[2] and len(lf.ret[3]) == len(src[3]))
            bad_field = None
            if ok and not whole:
                clone_rets = {}
                for c in lf.calls:
                    if c['callee'].endswith('Clone::clone') and c['args'] and c['args'][0][0] == 'ref':
                        clone_rets[repr(c['ret'])] = (c['args'][0][1], tuple(c['args'][0][2]))
                def same(x, y, pth):
                    if x == y:
                        return True
                    if clone_rets.get(repr(x)) == (('H', 'self'), pth):
                        return True    # `self.<field path>.clone()` of a generic field
                    if x is not None and y is not None and x[0] == 'adt' and y[0] == 'adt' and x[1] == y[1] and x[2] == y[2] and len(x[3]) == len(y[3]):
                        return all(same(a_, b_, pth + (('f', j),)) for j, (a_, b_) in enumerate(zip(x[3], y[3])))
                    return False
                for i, (x, y) in enumerate(zip(lf.ret[3], src[3])):
                    if not same(x, y, (('f', i),)):
                        ok, bad_field = False, i
            rep.ob('hand-written Clone impls copy the state', 1, 1 if ok else 0)
            if not ok:
                rep.finding('%s clone-of-%s is-not-a-copy' % (rep.prop, st['path'].split('::')[-1]),
                            '%s returns a value whose field %s differs from the original\'s (%s); %s' % (
                                f['path'], bad_field, term_str(lf.ret) if lf.ret is not None else lf.kind, leaf_where(lf)))


def check_modifiers(ctx, rep, tier):
    """C04"""
    check_event_constructor(ctx, rep)
    check_clone_faithful(ctx, rep, ('EventDecoder', 'Modifiers', 'Keyboard', 'KeyEvent', 'KeyCode', 'KeyState'))
    check_eq_structural(ctx, rep, ('Modifiers', 'KeyCode', 'KeyState', 'KeyEvent'))
    keys = load_keys()
    m = EventModel(ctx)
    kc, ks = ctx.kc, ctx.ks
    DOWN, UP = ks['Down'], ks['Up']
    mom = {fl: kc[k] for fl, k in keys['momentary_modifiers'].items()}
    caps_key, num_key = kc[keys['lock_modifiers']['capslock']], kc[keys['lock_modifiers']['numlock']]
    rctrl2_atom = m.flag_atoms[ctx.allmf['rctrl2']]
    rep.analysed['process_keyevent'] = {'fn': m.f['path'], 'path_classes': len(m.leaves), 'engine': dict(m.eng.stats)}
    n_trans = 0
    for lf in m.leaves:
        if lf.kind != 'return':
            rep.finding('C04 process_keyevent panics', leaf_where(lf))
            continue
        post = m.post_mods(lf)
        # whole-object sanity: handle_ctrl / layout untouched by key events
        codes = sorted(lf.doms[m.code_atom])
        states = sorted(lf.doms[m.state_atom])
        for fi, fname in enumerate(ctx.allmodfields):
            if fname in ctx.extra_modfields:
                continue        # a flag the property does not describe (API extension): not judged
            fa = m.flag_atoms[fi]
            pv = post[fi]
            extra = [a for a in atoms_in(pv) if a not in (fa, rctrl2_atom, m.code_atom, m.state_atom)] if is_scalar(pv) else None
            if extra is None:
                raise Undecided('modifier flag holds a non-scalar')
            for a in extra:
                if lf.doms.get(a) is None:
                    raise Undecided('modifier flag depends on unbounded input ' + a)
            names = [m.code_atom, m.state_atom, rctrl2_atom, fa] + extra
            seen_names = []
            for n in names:
                if n not in seen_names:
                    seen_names.append(n)
            for vals in itertools.product(*[sorted(lf.doms[n]) for n in seen_names]):
                asg = dict(zip(seen_names, vals))
                code, state, r2, pre = asg[m.code_atom], asg[m.state_atom], asg[rctrl2_atom], asg[fa]
                if fname in mom:
                    exp = 1 if (code == mom[fname] and state == DOWN) else (0 if (code == mom[fname] and state == UP) else pre)
                elif fname == 'capslock':
                    exp = 1 - pre if (code == caps_key and state == DOWN) else pre
                elif fname == 'numlock':
                    exp = 1 - pre if (code == num_key and state == DOWN and not r2) else pre
                else:
                    raise Undecided('Modifiers has a flag the property does not describe: ' + fname)
                got = ev(pv, asg)
                n_trans += 1
                if got != exp:
                    rep.ob('flag transitions', 1, 0)
                    what = 'set' if got and not pre else ('cleared' if pre and not got else 'left %s' % ('set' if got else 'clear'))
                    rep.finding('C04 flag=%s key=%s state=%s%s pre=%d expected=%d got=%d' % (
                        fname, ctx.keycodes[code], ctx.keystates[state],
                        ' rctrl2=%d' % r2 if fname == 'numlock' and code == num_key else '', pre, exp, got),
                        'modifier %s is %s by event (%s, %s)%s; %s; last write(s): %s' % (
                            fname, what, ctx.keycodes[code], ctx.keystates[state],
                            ' (depends on %s)' % extra if extra else '', leaf_where(lf),
                            ', '.join(sorted({e[3].split(':')[0] + ':' + e[3].split(':')[1] for e in lf.events if e[0] == 'write' and e[3]})) or 'none'))
                else:
                    rep.ob('flag transitions', 1)
    rep.floor('flag transition obligations', n_trans, 9 * 3 * 20)
    # initial state
    f_new = find_generic_method(ctx, ED, 'new')
    e2 = Engine(ctx.prog)
    lv = e2.run(f_new['path'])
    if len(lv) != 1 or lv[0].kind != 'return':
        raise Undecided('EventDecoder::new is not a single straight path')
    mods0 = lv[0].ret[3][m.i_mod]
    for x in ctx.extra_modfields:
        rep.note('Modifiers has a flag the property does not describe: %s (not judged)' % x)
    for fi, fname in enumerate(ctx.allmodfields):
        if fname in ctx.extra_modfields:
            continue
        v = mods0[3][fi]
        exp = 1 if keys['initial_modifiers'][fname] else 0
        if v[0] != 'c' or v[1] != exp:
            rep.ob('initial modifier state', 1, 0)
            rep.finding('C04 initial %s expected=%d got=%s' % (fname, exp, term_str(v)),
                        'EventDecoder::new constructs modifier %s as %s (%s)' % (fname, term_str(v), leaf_where(lv[0])))
        else:
            rep.ob('initial modifier state', 1)
    # every other place that constructs an EventDecoder (Keyboard::new, ...) must start from the same modifier state
    for f in ctx.facts['fns']:
        if f.get('derived') or f['path'] == f_new['path'] or f.get('kind') == 'Closure':
            continue
        builds = False
        for body in iter_bodies(f):
            for bb in body['blocks']:
                for st_ in bb['stmts']:
                    if st_['k'] == 'assign' and st_['rv']['k'] == 'agg' and st_['rv'].get('path') == ED:
                        builds = True
        calls_new = any(t_['k'] == 'call' and ((t_['fn'].get('fn') or {}).get('resolved') or {}).get('path') == f_new['path']
                        for body in iter_bodies(f) for t_ in [bb['term'] for bb in body['blocks']])
        if not (builds or calls_new):
            continue

        def mentions_ed(t):
            if not isinstance(t, dict):
                return False
            if t.get('k') == 'adt' and t.get('path') in (ED, 'Keyboard', 'Modifiers'):
                return True
            return any(mentions_ed(x) for key in ('args', 'elems') for x in (t.get(key) or [])) or any(mentions_ed(t[key]) for key in ('to', 'elem') if key in t)
        if any(mentions_ed(t) for t in f.get('inputs', [])):
            continue    # builds a decoder FROM a decoder or from a given modifier set (Clone, with_layout, from_parts): not a start state
        try:
            e5 = Engine(ctx.prog)
            for lf in e5.run(f['path']):
                if lf.kind != 'return' or lf.ret is None:
                    continue
                for mods in find_modifiers(lf.ret):
                    for fi, fname in enumerate(ctx.allmodfields):
                        if fname in ctx.extra_modfields:
                            continue
                        v = mods[3][fi]
                        exp = 1 if keys['initial_modifiers'][fname] else 0
                        ok = v[0] == 'c' and v[1] == exp
                        rep.ob('initial modifier state', 1, 1 if ok else 0)
                        if not ok:
                            rep.finding('C04 initial %s in %s expected=%d got=%s' % (fname, f['path'].split('::')[-1], exp, term_str(v)),
                                        '%s (at %s) builds an event decoder whose modifier %s starts as %s' % (f['path'], f['sp'], fname, term_str(v)))
        except Undecided as u:
            rep.finding('C04 constructor %s undecided' % f['path'], str(u))
    # who may write (DESIGN 3.4): every other body that writes / mutably borrows the modifiers is analysed too
    allowed = {m.f['path'], f_new['path']}
    w_mod = writers_of(ctx, 'Modifiers')
    w_ed = {}
    for f in ctx.facts['fns']:
        for body in iter_bodies(f):
            for bb in body['blocks']:
                for s in bb['stmts']:
                    if s['k'] != 'assign':
                        continue
                    for pl, is_write in ((s['pl'], True), (s['rv'].get('pl') if s['rv']['k'] == 'ref' and s['rv']['mut'] else None, False)):
                        if pl is None:
                            continue
                        chain, ty = place_field_chain(pl, body, ctx.prog)
                        if (ED, m.i_mod) in chain or (ty.get('k') == 'adt' and ty.get('path') == ED and is_write and any(e['k'] == 'deref' for e in pl['p'])):
                            w_ed.setdefault(f['path'], set()).add('write' if is_write else 'mutborrow')
    suspects = set()
    for p, kinds in w_mod.items():
        if kinds - {'construct'}:
            suspects.add(p)
    suspects |= set(w_ed)
    rep.analysed['modifier_writers'] = sorted(suspects)
    # private helpers that are only ever reached from the allowed writers are part of key-event processing
    callers = {}
    for g in ctx.facts['fns']:
        for body in iter_bodies(g):
            for bb in body['blocks']:
                t = bb['term']
                if t['k'] == 'call':
                    r = (t['fn'].get('fn') or {}).get('resolved') or {}
                    if r.get('local') and r.get('path'):
                        callers.setdefault(r['path'], set()).add(g['path'])
            # closures belong to their parent
        if g.get('closure_of'):
            callers.setdefault(g['path'], set()).add(g['closure_of'])

    def public_roots(p):
        seen, work, roots = set(), [p], set()
        while work:
            x = work.pop()
            if x in seen:
                continue
            seen.add(x)
            fx = ctx.prog.fns.get(x)
            if fx is None:
                continue
            if x in allowed:
                continue        # reaching an allowed writer ends the search on that chain
            if fx['vis'] == 'pub' or fx.get('impl_trait'):
                roots.add(x)
            for c in callers.get(x, ()):
                work.append(c)
        return roots
    todo = set()
    for p in suspects - allowed:
        f = ctx.prog.fns[p]
        if f.get('derived'):
            continue
        todo |= public_roots(p)
    rep.analysed['modifier_writers_reachable_from_public'] = sorted(todo)
    for p in sorted(todo):
        f = ctx.prog.fns[p]
        if f.get('derived'):
            continue
        if f['name'] not in KNOWN_API:
            # an addition to the public API (e.g. an explicit reset) is not a key event: outside the statement
            rep.note('new public function %s can change modifier state (API extension, not judged)' % p)
            continue
        # subject the extra writer to the frame rule: it must leave every flag unchanged
        try:
            e3 = Engine(ctx.prog)
            lvs = e3.run(p)
            bad = False
            for lf in lvs:
                for cell, val in lf.cells.items():
                    init = e3.deep(e3.initial_store[cell], _St(lf.doms))
                    if not same_modifiers(ctx, init, val):
                        bad = True
            if bad:
                rep.ob('extra writers keep modifiers', 1, 0)
                rep.finding('C04 extra-writer %s' % p, 'function %s (at %s) changes modifier state outside key-event processing' % (p, f['sp']))
            else:
                rep.ob('extra writers keep modifiers', 1)
        except Undecided as u:
            rep.finding('C04 extra-writer %s undecided' % p, 'function %s writes or mutably borrows the modifier state and could not be analysed: %s' % (p, u))
    # (a private helper that returns `&mut Modifiers` to its caller inside the crate is just code structure)
    leaks = [p for p in returns_mut_ref_to(ctx, {'Modifiers', ED}) if ctx.prog.fns[p]['vis'] == 'pub' and not ctx.prog.fns[p].get('closure_of')]
    for p in leaks:
        rep.finding('C04 mut-ref-leak %s' % p, 'function %s hands out a mutable reference to the modifier state' % p)
    rep.ob('no &mut Modifiers escapes', 1, 0 if leaks else 1)
    # privacy of the state
    a = ctx.prog.adt(ED)
    if a['variants'][0]['fields'][m.i_mod]['vis'] == 'pub':
        rep.finding('C04 modifiers-field-public', 'EventDecoder.modifiers became a public field: callers can write it')
    rep.ob('modifier state private', 1)
    # Keyboard::get_modifiers reports exactly that state
    try:
        g = find_generic_method(ctx, 'Keyboard', 'get_modifiers')
        e4 = Engine(ctx.prog)
        lv = e4.run(g['path'])
        ied = field_index(ctx, 'Keyboard', ty_path=ED)
        ok = len(lv) == 1 and lv[0].kind == 'return' and lv[0].ret[0] == 'ref' and lv[0].ret[1] == ('H', 'self') \
            and tuple(lv[0].ret[2]) == (('f', ied[0]), ('f', m.i_mod))
        rep.ob('get_modifiers returns the tracked state', 1, 1 if ok else 0)
        if not ok:
            rep.finding('C04 get_modifiers', 'Keyboard::get_modifiers does not return a reference to event_decoder.modifiers: %s' % term_str(lv[0].ret if lv else None))
    except Undecided as u:
        rep.finding('C04 get_modifiers undecided', str(u))
    rep.nontrivial = sum(1 for lf in m.leaves if any(e[0] == 'write' for e in lf.events))
    for lf in m.leaves[:4]:
        rep.sample({'event_class': {'code': [ctx.keycodes[c] for c in sorted(lf.doms[m.code_atom])][:4], 'state': [ctx.keystates[s] for s in sorted(lf.doms[m.state_atom])]},
                    'post_modifiers': [term_str(v) for v in m.post_mods(lf)], 'where': leaf_where(lf)})
    rep.rule = ('per path class of the generic process_keyevent, per flag: post-value term compared with the specified one-step transition '
                '(momentary: Down sets / Up clears own key; capslock toggles on Down; numlock toggles on Down unless rctrl2) over the '
                'class cube projected on the atoms the term and the spec mention; plus initial state, who-may-write and no &mut escape; '
                'KeyEvent::new stores its arguments; hand-written Clone impls of the state types copy field for field; '
                'non-trivial = classes that write a flag')
    return m


def find_modifiers(v, out=None, depth=0, inside=False):
    """the Modifiers values of every EventDecoder inside a resolved value (not following references); a free-standing
    Modifiers value (a scratch copy built by some helper) is not a decoder's initial state"""
    if out is None:
        out = []
    if v is None or depth > 6:
        return out
    if v[0] == 'adt':
        if v[1] == 'Modifiers':
            if inside:
                out.append(v)
        else:
            for x in v[3]:
                find_modifiers(x, out, depth + 1, inside or v[1] == ED)
    return out


class _St:
    def __init__(self, doms):
        self.doms = doms
        self.store = {}


def same_modifiers(ctx, a, b):
    """Structural comparison of every Modifiers sub-value in two resolved values."""
    if a is None or b is None:
        return a == b
    if a[0] == 'adt' and b[0] == 'adt':
        if a[1] == 'Modifiers' or b[1] == 'Modifiers':
            return a == b
        if a[1] != b[1] or a[2] != b[2] or len(a[3]) != len(b[3]):
            return True
        return all(same_modifiers(ctx, x, y) for x, y in zip(a[3], b[3]))
    return True


def check_decoding(ctx, rep, tier):
    """C14"""
    check_event_constructor(ctx, rep)
    check_clone_faithful(ctx, rep, ('EventDecoder', 'Keyboard', 'KeyEvent', 'KeyCode', 'KeyState', 'DecodedKey', 'HandleControl'))
    check_eq_structural(ctx, rep, ('DecodedKey', 'KeyCode', 'KeyState', 'KeyEvent', 'HandleControl'))
    keys = load_keys()
    m = EventModel(ctx)
    kc, ks = ctx.kc, ctx.ks
    DOWN = ks['Down']
    modkeys = {kc[k] for k in list(keys['momentary_modifiers'].values()) + list(keys['lock_modifiers'].values())}
    num_key = kc[keys['lock_modifiers']['numlock']]
    pause = kc[keys['pause_key']]
    rctrl2_atom = m.flag_atoms[ctx.allmf['rctrl2']]
    OPT = 'core::option::Option'
    RAW, UNI = ctx.dk['RawKey'], ctx.dk['Unicode']
    rep.analysed['process_keyevent'] = {'fn': m.f['path'], 'path_classes': len(m.leaves), 'engine': dict(m.eng.stats)}
    n_layout_classes = 0
    for lf in m.leaves:
        if lf.kind != 'return':
            rep.finding('C14 process_keyevent panics', leaf_where(lf))
            continue
        calls = lf.calls
        # a key event never changes the Ctrl-handling mode or the installed layout (only the setters do)
        fin = lf.cells[('H', 'self')]
        ini = m.eng.deep(m.init, _St(lf.doms))
        for fi, what in ((m.i_hc, 'Ctrl-handling mode'), (m.i_lay, 'installed layout')):
            same = fin[3][fi] == ini[3][fi]
            rep.ob('key events leave mode and layout alone', 1, 1 if same else 0)
            if not same:
                rep.finding('C14 process_keyevent changes %s' % what.split()[0].lower(),
                            'processing (%s, %s) changes the %s to %s without any setter being called; %s' % (
                                [ctx.keycodes[c] for c in sorted(lf.doms[m.code_atom])][:3], [ctx.keystates[x] for x in sorted(lf.doms[m.state_atom])],
                                what, term_str(fin[3][fi]), leaf_where(lf)))
        for code in sorted(lf.doms[m.code_atom]):
            for state in sorted(lf.doms[m.state_atom]):
                for r2 in sorted(lf.doms[rctrl2_atom]):
                    asg = {m.code_atom: code, m.state_atom: state, rctrl2_atom: r2}
                    cname, sname = ctx.keycodes[code], ctx.keystates[state]
                    key = 'C14 key=%s state=%s' % (cname if code in modkeys else ('<modifier>' if False else cname if state == DOWN and code in modkeys else '*'), sname)
                    r = lf.ret
                    if state != DOWN:
                        ok = r[0] == 'adt' and r[1] == OPT and r[2] == 0 and not calls
                        rep.ob('release/one-shot yields nothing', 1, 1 if ok else 0)
                        if not ok:
                            rep.finding('C14 key=%s state=%s expected=None got=%s' % (cname if code in modkeys else '*', sname, 'layout-call' if calls else term_str(r)),
                                        'a %s event of %s must decode to None; %s' % (sname, cname, leaf_where(lf)))
                        continue
                    if code in modkeys:
                        want = pause if (code == num_key and r2) else code
                        ok = (not calls and r[0] == 'adt' and r[1] == OPT and r[2] == 1 and not value_atoms_excluding(r, ()) == [] or True)
                        got = None
                        try:
                            native = conc(r, asg)
                            got = native
                        except Undecided:
                            native = None
                        ok = (not calls and native is not None and native[0] == OPT and native[1] == 1
                              and native[2][0] == ('DecodedKey', RAW, (want,)))
                        rep.ob('modifier/lock press yields its raw key', 1, 1 if ok else 0)
                        if not ok:
                            rep.finding('C14 key=%s state=Down%s expected=RawKey(%s) got=%s' % (
                                cname, ' rctrl2=%d' % r2 if code == num_key else '', ctx.keycodes[want],
                                'layout-call' if calls else term_str(r)),
                                'pressing %s must decode to Some(RawKey(%s)); %s' % (cname, ctx.keycodes[want], leaf_where(lf)))
                        continue
                    # ordinary key press: exactly one call to the installed layout with live arguments
                    problems = []
                    if len(calls) != 1:
                        problems.append('%d layout calls instead of exactly one' % len(calls))
                    else:
                        c = calls[0]
                        if c['callee'] != 'KeyboardLayout::map_keycode':
                            problems.append('calls %s instead of the layout' % c['callee_inst'])
                        a = c['args']
                        if len(a) != 4:
                            problems.append('layout called with %d arguments' % len(a))
                        else:
                            if not (a[0][0] == 'ref' and a[0][1] == ('H', 'self') and tuple(a[0][2]) == (('f', m.i_lay),)):
                                problems.append('receiver is not the installed layout (self.layout) but %s' % term_str(a[0][:3]))
                            if a[1] != ('a', m.code_atom, 'E:KeyCode') and not (a[1][0] == 'c' and a[1][1] == code and len(lf.doms[m.code_atom]) == 1):
                                problems.append('key code passed to the layout is %s, not the pressed key' % term_str(a[1]))
                            init = m.eng.deep(m.init_mods, _St(lf.doms))
                            if not (a[2][0] == 'ref' and len(a[2]) > 3):
                                problems.append('modifiers argument is not a reference but %s' % term_str(a[2]))
                            elif a[2][3] != init:
                                # what the layout is shown (the tracked state itself or a copy of it) must be the current,
                                # unmodified modifier state
                                live = a[2][1] == ('H', 'self') and tuple(a[2][2]) == (('f', m.i_mod),)
                                problems.append('the modifier set shown to the layout is %s, not the current modifier state%s' % (
                                    term_str(a[2][3]), '' if live else ' (and is not the tracked state)'))
                            hc_ok = a[3] == ('a', m.hc_atom, 'E:HandleControl') or (a[3][0] == 'c' and len(lf.doms[m.hc_atom]) == 1 and a[3][1] in lf.doms[m.hc_atom])
                            if not hc_ok:
                                problems.append('Ctrl-handling mode passed to the layout is %s, not the current mode' % term_str(a[3]))
                        want_ret = ('adt', OPT, 1, (c['ret'],))
                        S_ = _St(lf.doms)
                        if r != want_ret and m.eng.deep(r, S_) != m.eng.deep(want_ret, S_):
                            problems.append('result is %s, not Some(<what the layout returned>)' % term_str(r))
                        # the layout may not be consulted on a stale copy of the decoder
                    n_layout_classes += 1
                    rep.ob('ordinary press = one live layout call', 1, 0 if problems else 1)
                    if problems:
                        rep.finding('C14 key=* state=Down %s' % problems[0].split(' (')[0][:90],
                                    'pressing %s: %s; %s' % (cname, '; '.join(problems), leaf_where(lf)))
    rep.floor('ordinary-press cells', n_layout_classes, 100)
    # setters take effect immediately and touch nothing else
    for name, field, what in (('set_ctrl_handling', m.i_hc, 'Ctrl-handling mode'), ('change_layout', m.i_lay, 'layout')):
        f = find_generic_method(ctx, ED, name)
        e = Engine(ctx.prog)
        lv = e.run(f['path'])
        ok = len(lv) == 1 and lv[0].kind == 'return'
        if ok:
            cell = lv[0].cells[('H', 'self')]
            init = e.deep(e.initial_store[('H', 'self')], _St(lv[0].doms))
            arg = e.deep(e.initial_store[('L', 0, 2)], _St(lv[0].doms))
            for i, (x0, x1) in enumerate(zip(init[3], cell[3])):
                if i == field:
                    ok = ok and x1 == arg
                else:
                    ok = ok and x1 == x0
        rep.ob('setter %s' % name, 1, 1 if ok else 0)
        if not ok:
            rep.finding('C14 setter %s' % name, 'EventDecoder::%s does not simply install the new %s (final state %s); %s' % (
                name, what, term_str(lv[0].cells.get(('H', 'self'))) if lv else '?', leaf_where(lv[0]) if lv else ''))
    # the constructor installs the layout and the mode it is given (they are "the current layout and mode" until a setter runs)
    f = find_generic_method(ctx, ED, 'new')
    e = Engine(ctx.prog)
    lv = e.run(f['path'])
    ok = len(lv) == 1 and lv[0].kind == 'return' and lv[0].ret is not None and lv[0].ret[0] == 'adt'
    if ok:
        S0 = _St(lv[0].doms)
        argv = [e.deep(e.initial_store[('L', 0, i)], S0) for i in (1, 2)]
        tys = [l['ty'] for l in f['body']['locals'][1:3]]
        # which argument is the mode / the layout is told by type, not by position
        i_hc_arg = next((i for i, t_ in enumerate(tys) if t_.get('k') == 'adt' and t_.get('path') == 'HandleControl'), None)
        i_lay_arg = next((i for i, t_ in enumerate(tys) if t_.get('k') == 'param'), None)
        ret_ = e.deep(lv[0].ret, S0)
        ok = i_hc_arg is not None and i_lay_arg is not None and ret_[3][m.i_hc] == argv[i_hc_arg] and ret_[3][m.i_lay] == argv[i_lay_arg]
    rep.ob('constructor installs its arguments', 1, 1 if ok else 0)
    if not ok:
        rep.finding('C14 constructor new', 'EventDecoder::new does not install the layout / Ctrl-handling mode it is given (builds %s); %s' % (
            term_str(lv[0].ret) if lv and lv[0].ret is not None else '?', leaf_where(lv[0]) if lv else ''))
    f = find_generic_method(ctx, ED, 'get_ctrl_handling')
    e = Engine(ctx.prog)
    lv = e.run(f['path'])
    ok = len(lv) == 1 and lv[0].kind == 'return' and lv[0].ret == ('a', 'self.handle_ctrl', 'E:HandleControl')
    rep.ob('getter get_ctrl_handling', 1, 1 if ok else 0)
    if not ok:
        rep.finding('C14 getter get_ctrl_handling', 'does not return the current mode: %s' % (term_str(lv[0].ret) if lv else '?'))
    rep.nontrivial = len(m.leaves)
    for lf in m.leaves:
        if lf.calls:
            c = lf.calls[0]
            rep.sample({'class': 'ordinary key Down (%d keys)' % len(lf.doms[m.code_atom]), 'layout_call': c['callee_inst'],
                        'args': [term_str(a[:3]) if a and a[0] == 'ref' else term_str(a) for a in c['args']], 'at': c['sp']})
            break
    for lf in m.leaves[:3]:
        rep.sample({'class': {'code': [ctx.keycodes[c] for c in sorted(lf.doms[m.code_atom])][:3], 'state': [ctx.keystates[s] for s in sorted(lf.doms[m.state_atom])]},
                    'returns': term_str(lf.ret), 'where': leaf_where(lf)})
    rep.rule = ('per path class of the generic process_keyevent x (key, key state, rctrl2): Up/SingleShot -> None and no layout call; '
                'modifier/lock Down -> Some(RawKey(self)) (NumLock with rctrl2 -> PauseBreak); any other Down -> exactly one opaque call '
                '<L as KeyboardLayout>::map_keycode(&self.layout, code, &self.modifiers (unmodified), self.handle_ctrl) whose result is returned as Some(..); '
                'setters write exactly their field; KeyEvent::new stores its arguments; hand-written Clone impls copy field for field')
    return m


def value_atoms_excluding(v, names):
    return [a for a in value_atoms(v) if a not in names]
