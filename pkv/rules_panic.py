"""Rule C08: no public operation panics / overflows in any reachable state."""
import itertools
from .mirtab import Engine, Undecided, check_partition, term_str, C, ev
from .extract import (observer_fields, extract_all_layouts, ScanTable, scancode_impls, initial_state_of, leaf_where, writers_of, public_roots, caller_map,
                      iter_bodies, PANIC, span_line, conc, value_atoms)
from .rules_event import find_generic_method, field_index, _St, KNOWN_API
from .rules_ps2 import find_method, PS2


def panic_inventory(ctx, fns):
    """Every potential trap site in the given bodies: Assert terminators, calls into panic entry
    points, `unreachable` terminators."""
    inv = []
    for f in fns:
        for body in iter_bodies(f):
            for i, bb in enumerate(body['blocks']):
                t = bb['term']
                if t['k'] == 'assert':
                    inv.append((f['path'], 'assert:' + t['msg'], t['sp']))
                elif t['k'] == 'call':
                    fn = t['fn'].get('fn') or {}
                    p = (fn.get('resolved') or {}).get('path') or fn.get('path', '')
                    if p.startswith('core::panicking') or 'unwrap' in p or 'expect' in p:
                        inv.append((f['path'], 'call:' + p, t['sp']))
                elif t['k'] == 'unreachable':
                    inv.append((f['path'], 'unreachable', t['sp']))
    return inv


def report_panic(rep, op, lf, state_desc=''):
    kind, full, sp, infn = lf.panic
    rep.finding('C08 op=%s trap=%s at=%s' % (op, kind, infn.split('::')[-1]),
                '%s can trap (%s) at %s in %s%s; input class: %s' % (
                    op, full[:80], span_line(sp), infn, (' in state ' + state_desc) if state_desc else '',
                    {n: (sorted(d)[:6] if d is not None and len(d) <= 6 else ('%d values' % len(d) if d is not None else 'any'))
                     for n, d in list(lf.doms.items())[:8]}))


def run_simple(ctx, rep, path, op, opaque=(), arg_doms=None):
    eng = Engine(ctx.prog, opaque=opaque)
    leaves = eng.run(path, arg_doms=arg_doms)
    check_partition(eng, leaves)
    bad = [lf for lf in leaves if lf.kind != 'return']
    rep.ob('operation classes', len(leaves), len(leaves) - len(bad))
    for lf in bad:
        report_panic(rep, op, lf)
    return len(leaves)


def check_no_panic(ctx, rep, tier):
    prog = ctx.prog
    handwritten = [f for f in ctx.facts['fns'] if not f.get('derived')]
    # formatting impls (Debug / Display ...) are outside the statement's list of operations: neither analysed nor inventoried
    fmt_impls = {f['path'] for f in handwritten if (f.get('impl_trait') or '').startswith('core::fmt::')}
    inv = panic_inventory(ctx, [f for f in handwritten if f['path'] not in fmt_impls and f.get('closure_of') not in fmt_impls])
    rep.analysed['trap_site_inventory'] = [{'fn': a, 'kind': b, 'at': span_line(c)} for a, b, c in inv]
    if not (ctx.facts['overflow_checks'] and ctx.facts['debug_assertions']) and ctx.facts['_flavour'] == 'dev':
        rep.finding('C08 build-flags', 'dev-profile facts were not built with overflow checks and debug assertions on')
    covered_fns = set()
    # stack exhaustion is a trap too: a local of several hundred KiB overflows the stack of an interrupt handler
    def ty_bytes(t):
        k = t.get('k')
        if k == 'array' and t.get('len') is not None:
            return t['len'] * max(1, ty_bytes(t['elem']))
        if k == 'tuple':
            return sum(ty_bytes(x) for x in t['elems'])
        if k == 'int':
            return t['bits'] // 8
        return 1
    for f in handwritten:
        for body in iter_bodies(f):
            sizes = [(i, ty_bytes(l['ty'])) for i, l in enumerate(body['locals'])]
            total = sum(n for _i, n in sizes)
            # today's largest frame in the crate is a few hundred bytes; typical interrupt / embedded stacks are 1-8 KiB
            if total > 8 * 1024:
                i, nbytes = max(sizes, key=lambda x: x[1])
                rep.finding('C08 stack %s' % f['path'], 'the locals of %s occupy at least %d KiB of stack (largest: _%d, %d bytes): an operation that '
                                                        'needs them cannot be relied on to return normally on an embedded or interrupt stack' % (
                                                            f['path'], total // 1024, i, nbytes))
    rep.ob('no oversized stack locals', 1)

    # ---- 1. frame decoder --------------------------------------------------
    f_new = find_method(ctx, PS2, 'new')
    f_bit = find_method(ctx, PS2, 'add_bit')
    f_clear = find_method(ctx, PS2, 'clear')
    f_word = find_method(ctx, PS2, 'add_word')
    e = Engine(prog)
    lv = e.run(f_new['path'])
    if len(lv) != 1 or lv[0].kind != 'return':
        raise Undecided('Ps2Decoder::new is not a single straight path')
    state0 = lv[0].ret
    # who may write the decoder's fields: they all join the reachable-state exploration
    w = writers_of(ctx, PS2)
    # (a private helper is entered only through its externally callable callers, which are explored with it inlined)
    cmap = caller_map(ctx)
    mutators = set()
    for p, kinds in w.items():
        if kinds & {'assign-field', 'assign-whole'} and not prog.fns[p].get('derived'):
            mutators |= public_roots(ctx, p, callers=cmap)
    # every public `&mut self` operation of the frame decoder is a transition as well (state can also be installed
    # without a field assignment: `mem::swap(self, &mut saved)`)
    for g in ctx.facts['fns']:
        if g.get('derived') or g.get('impl_trait') or g['vis'] != 'pub' or (g.get('impl_self') or {}).get('path') != PS2:
            continue
        ins = g.get('inputs') or []
        if ins and ins[0].get('k') == 'ref' and ins[0].get('mut') and ins[0]['to'].get('k') == 'adt' and ins[0]['to'].get('path') == PS2:
            mutators.add(g['path'])
    mutators = sorted(p for p in mutators if not prog.fns[p].get('derived'))
    outside = [p for p in mutators if ((prog.fns[p].get('impl_self') or {}).get('path') != PS2)]
    for p in outside:
        # the reachable-state argument needs every writer to be an operation OF the frame decoder
        rep.finding('C08 Ps2Decoder written-outside-its-impl %s' % p,
                    '%s (at %s) assigns the frame decoder\'s fields directly: its states are no longer those its own operations can reach' % (p, prog.fns[p]['sp']))
    mutators = [p for p in mutators if p not in outside]
    rep.analysed['Ps2Decoder_field_writers'] = mutators
    pub_fields = [fl['name'] for fl in prog.adt(PS2)['variants'][0]['fields'] if fl['vis'] == 'pub']
    if pub_fields:
        rep.finding('C08 Ps2Decoder public-fields', 'fields %s are public: any state is reachable' % pub_fields)

    def run_state(fn, doms, value, ghost=None):
        en = Engine(prog)
        nargs = fn['body']['arg_count']

        def setup(st, argvals):
            for n, d in doms.items():
                en.declare_atom(st, n, atom_tk.get(n, 'bool'), d)
            st.store[('H', 'self')] = value
            if ghost and nargs >= 2:
                st.store[('L', 0, 2)] = en.declare_atom(st, ghost, 'bool', (0, 1))
        args = [('ref', ('H', 'self'), ())] + ([C(0, 'bool')] if ghost and nargs >= 2 else [])
        return en, en.run(fn['path'], args=args, setup=setup)

    # fields that merely observe (a frame counter ...) are not decoder state: they are pinned to their initial value
    # while exploring (exact: the dataflow analysis shows they influence neither a branch nor another field)
    obs = observer_fields(ctx, PS2, KNOWN_API)
    if obs:
        rep.note('Ps2Decoder fields %s only observe the decoding (not part of its state)' % sorted(prog.adt(PS2)['variants'][0]['fields'][i]['name'] for i in obs))

    def norm(v):
        if obs and v is not None and v[0] == 'adt':
            return ('adt', v[1], v[2], tuple(state0[3][i] if i in obs else x for i, x in enumerate(v[3])))
        return v
    # precise exploration: abstract states with ghost bits, breadth-first, states identified structurally
    seen = {}
    atom_tk = {}
    frontier = [({}, state0, 0)]
    seen[state0] = 0
    # functions that build a frame decoder from their arguments seed the exploration with whatever they can produce
    for g in ctx.facts['fns']:
        o = g.get('output') or {}
        if g.get('derived') or g.get('kind') == 'Closure' or g['body']['arg_count'] == 0 or g['path'] == f_new['path']:
            continue
        if o.get('k') != 'adt' or o.get('path') != PS2:
            continue
        if g['name'] == 'clone' and (g.get('impl_trait') or '').split('::')[-1] == 'Clone':
            continue
        try:
            eg = Engine(prog)
            for lf in eg.run(g['path']):
                if lf.kind != 'return' or lf.ret is None or lf.ret[0] != 'adt':
                    continue
                val = norm(lf.ret)
                gd = {}
                for x in val[3]:
                    for n_ in value_atoms(x):
                        if lf.doms.get(n_) is None:
                            raise Undecided('frame decoder built from an unbounded value')
                        gd[n_] = lf.doms[n_]
                for x in val[3]:
                    stack_ = [x]
                    while stack_:
                        y = stack_.pop()
                        if y[0] == 'a':
                            atom_tk[y[1]] = y[2]
                        elif y[0] == 't':
                            stack_.extend(y[2])
                joint = 1
                for d_ in gd.values():
                    joint *= len(d_)
                if joint > 4096:
                    # too many concrete states to follow through whole frames: look one operation ahead only, and say so
                    for fn_ in [prog.fns[p_] for p_ in mutators]:
                        tb_ = fn_['body']['arg_count'] >= 2 and fn_['body']['locals'][2]['ty'].get('k') == 'bool'
                        en_, lvs_ = run_state(fn_, gd, val, ghost='b0' if tb_ else None)
                        for l2 in lvs_:
                            if l2.kind != 'return':
                                report_panic(rep, 'Ps2Decoder::' + fn_['name'], l2, 'in a state built by %s: %s' % (g['path'], term_str(val)[:120]))
                    raise Undecided('it can build %d different decoder states; only one operation ahead was explored' % joint)
                if val not in seen:
                    seen[val] = 0
                    frontier.append((gd, val, 0))
            rep.note('%s builds a Ps2Decoder from its arguments: the states it can produce join the exploration' % g['path'])
        except Undecided as u:
            rep.finding('C08 Ps2Decoder producer %s undecided' % g['path'], 'a function that builds a frame decoder from its arguments could not be analysed: %s' % u)
    steps = 0
    closed = True
    nstates = 0
    while frontier:
        nxt = []
        for doms, val, depth in frontier:
            nstates += 1
            for fn in [prog.fns[p] for p in mutators]:
                takes_bit = fn['body']['arg_count'] >= 2 and fn['body']['locals'][2]['ty'].get('k') == 'bool'
                if fn['body']['arg_count'] > 2 or (fn['body']['arg_count'] == 2 and not takes_bit):
                    raise Undecided('unexpected signature of Ps2Decoder mutator %s' % fn['path'])
                en, lvs = run_state(fn, doms, val, ghost=('b%d' % depth) if takes_bit else None)
                steps += len(lvs)
                for lf in lvs:
                    if lf.kind != 'return':
                        rep.ob('frame decoder classes', 1, 0)
                        report_panic(rep, 'Ps2Decoder::' + fn['name'], lf, 'after %d bit(s): %s' % (depth, term_str(val)[:120]))
                        continue
                    rep.ob('frame decoder classes', 1)
                    post = norm(lf.cells[('H', 'self')])
                    if post not in seen:
                        if depth + 1 > 40 or len(seen) > 3000:
                            closed = False
                            continue
                        seen[post] = depth + 1
                        gh = {n: d for n, d in lf.doms.items() if (n.startswith('b') and n[1:].isdigit()) or n in atom_tk}
                        nxt.append((gh, post, depth + 1))
        frontier = nxt
    rep.analysed['Ps2Decoder_abstract_states'] = len(seen)
    if not closed:
        rep.finding('C08 Ps2Decoder state-space-does-not-close',
                    'the set of reachable shift-register states did not close within 40 bits (a frame no longer returns the decoder to its '
                    'initial state?); panic freedom cannot be established')
    covered_fns |= set(mutators) | {f_new['path']}
    # add_word: every u16 word (stateless)
    n = run_simple(ctx, rep, f_word['path'], 'Ps2Decoder::add_word')
    covered_fns.add(f_word['path'])
    rep.sample({'frame_decoder': '%d abstract register states explored, closes=%s' % (len(seen), closed)})

    # ---- 2. scancode sets --------------------------------------------------
    for self_str, path in scancode_impls(ctx):
        t = ScanTable(ctx, self_str, path)
        init, newp = initial_state_of(ctx, self_str)
        adt_path = self_str
        # extra writers of the state field join the closure
        wr = writers_of(ctx, adt_path)
        reach = t.reachable(init)
        extra = set()
        for p, kinds in wr.items():
            if kinds & {'assign-field', 'assign-whole'} and p != path and not prog.fns[p].get('derived'):
                # private helpers reached only through advance_state are already part of its table
                extra |= public_roots(ctx, p, allowed={path}, callers=cmap)
        extra = sorted(p for p in extra if p != path and not prog.fns[p].get('derived'))
        # other writers (a `reset()`, a statistics reset, ...) are further transitions of the same automaton: close the
        # reachable set under them, starting each from the states that are actually reachable
        import itertools
        from .extract import flat_typed
        writer_leaves = []
        for p in extra:
            en = Engine(prog)
            lvs_ = en.run(p, arg_names=['self'])
            init_ = flat_typed(prog, t.self_ty, en.initial_store[('H', 'self')])
            names_all = [x[1] if x[0] == 'a' else None for x in init_]
            writer_leaves.append((p, lvs_, names_all))
        grew = True
        rounds_ = 0
        while grew and rounds_ < 50:
            grew = False
            rounds_ += 1
            for p, lvs_, names_all in writer_leaves:
                kept_names = [names_all[i] for i in t.keep]
                for lf in lvs_:
                    if lf.kind != 'return' or lf.cells.get(('H', 'self')) is None:
                        continue
                    post_ = flat_typed(prog, t.self_ty, lf.cells[('H', 'self')])
                    for s_ in list(reach):
                        if not all(nm is None or lf.doms.get(nm) is None or v_ in lf.doms[nm] for nm, v_ in zip(kept_names, s_)):
                            continue
                        asg = {nm: v_ for nm, v_ in zip(kept_names, s_) if nm is not None}
                        outs = [[]]
                        ok_ = True
                        for i in t.keep:
                            x = post_[i]
                            if x[0] == 'c':
                                vals_ = [x[1]]
                            else:
                                free = [n_ for n_ in value_atoms(x) if n_ not in asg]
                                if any(lf.doms.get(n_) is None for n_ in free):
                                    raise Undecided('writer %s installs a state that cannot be enumerated' % p)
                                vals_ = sorted({ev(x, dict(asg, **dict(zip(free, combo)))) for combo in itertools.product(*[sorted(lf.doms[n_]) for n_ in free])})
                            outs = [o_ + [v2] for o_ in outs for v2 in vals_]
                            if len(outs) > 4096:
                                raise Undecided('writer %s can install too many states' % p)
                        for o_ in outs:
                            ns = tuple(o_)
                            if ns not in reach:
                                reach |= t.reachable(ns)
                                grew = True
        # functions that BUILD a decoder from their arguments (`From<OtherSet>`, a `with_state(..)` constructor, ...) seed the
        # reachable set with every state they can produce (new() and the argument-less ones are seeds already)
        short = self_str.split('::')[-1]
        for g in ctx.facts['fns']:
            o = g.get('output') or {}
            if g.get('derived') or g.get('kind') == 'Closure' or g['body']['arg_count'] == 0 or g['path'] == newp:
                continue
            if o.get('k') != 'adt' or o.get('path', '').split('::')[-1] != short:
                continue
            if g['name'] == 'clone' and (g.get('impl_trait') or '').split('::')[-1] == 'Clone':
                continue          # a faithful copy (C07's rule) adds no state
            try:
                en = Engine(prog)
                for lf in en.run(g['path']):
                    if lf.kind != 'return' or lf.ret is None:
                        continue
                    from .extract import flat_typed
                    import itertools
                    fl = flat_typed(prog, t.self_ty, lf.ret)
                    doms = []
                    for x in fl:
                        if x[0] == 'c':
                            doms.append([x[1]])
                        elif x[0] == 'a' and lf.doms.get(x[1]) is not None:
                            doms.append(sorted(lf.doms[x[1]]))
                        else:
                            names_ = value_atoms(x)
                            if not names_ or any(lf.doms.get(n_) is None for n_ in names_):
                                raise Undecided('state built from an unbounded value')
                            vals_ = set()
                            for combo in itertools.product(*[sorted(lf.doms[n_]) for n_ in names_]):
                                vals_.add(ev(x, dict(zip(names_, combo))))
                            doms.append(sorted(vals_))
                    keep_ = getattr(t, 'keep', list(range(len(fl))))
                    nstates_ = 1
                    for i_ in keep_:
                        nstates_ *= len(doms[i_])
                    if nstates_ > 4096:
                        raise Undecided('too many producible states')
                    for s_ in itertools.product(*doms):
                        reach |= t.reachable(s_)
                rep.note('%s builds a %s from its arguments: the states it can produce were added to the reachable set' % (g['path'], short))
            except Undecided as u:
                rep.finding('C08 %s producer %s undecided' % (short, g['path']), 'a function that builds a decoder from its arguments could not be analysed: %s' % u)
        name = self_str.split('::')[-1]
        for fl in prog.adt(adt_path)['variants'][0]['fields']:
            if fl['vis'] == 'pub':
                allst = t.all_states()
                if allst is None:
                    raise Undecided('public decoder state with a huge domain')
                reach = set(allst)
                rep.finding('C08 %s public-state' % name, 'state field is public: every state is reachable')
        for s in sorted(reach):
            for c in range(256):
                res, post, li = t.cell(s, c)
                if res[0] == 'panic':
                    rep.ob('scancode cells', 1, 0)
                    rep.finding('C08 op=%s::advance_state state=%s trap=%s' % (name, t.state_str(s), res[1]),
                                'byte 0x%02X in reachable state %s traps; %s' % (c, t.state_str(s), t.where(s, c)))
                else:
                    rep.ob('scancode cells', 1)
        rep.analysed[name] = {'reachable_states': sorted(t.state_str(s) for s in reach),
                              'trap_state_cubes_all_unreachable': t.trap_states(),
                              'state_writers': sorted(p for p, k in wr.items() if k - {'construct'}) + [newp]}
        rep.sample({'impl': name, 'reachable': rep.analysed[name]['reachable_states'], 'traps_only_in_state_cubes': rep.analysed[name]['trap_state_cubes_all_unreachable']})
        covered_fns |= {path, newp}
    # ---- 3. event decoder (layout opaque) and 4. Keyboard glue (stages opaque) ----
    stage_opaque = set()
    for adt, names in (('Ps2Decoder', ('add_bit', 'add_word', 'clear')),):
        for nm in names:
            stage_opaque.add(find_method(ctx, adt, nm)['path'])
    ed_methods = [f for f in handwritten if (f.get('impl_self') or {}).get('path') == 'EventDecoder' and not f.get('impl_trait')]
    from .rules_event import ed_extra_state_guard, SOFT_S
    from .mirtab import soft_budget
    ed_risky = ed_extra_state_guard(ctx)
    def run_api(f, label, **kw):
        # operations the statement lists must be decidable; an addition to the API that is not is noted, not judged
        try:
            run_simple(ctx, rep, f['path'], label, **kw)
        except Undecided as u:
            if f['name'] in KNOWN_API:
                raise
            rep.note('new public function %s could not be analysed (API extension, not judged): %s' % (f['path'], str(u)[:160]))
        covered_fns.add(f['path'])
    for f in ed_methods:
        if f['vis'] != 'pub':
            continue    # private helpers are analysed where the public operations inline them (with the arguments they really get)
        if ed_risky:
            with soft_budget(SOFT_S, ed_risky % SOFT_S):
                run_api(f, 'EventDecoder::' + f['name'])
        else:
            run_api(f, 'EventDecoder::' + f['name'])
    stage_opaque |= {f['path'] for f in ed_methods}
    kb_methods = [f for f in handwritten if (f.get('impl_self') or {}).get('path') == 'Keyboard' and not f.get('impl_trait')]
    for f in kb_methods:
        if f['vis'] != 'pub':
            continue
        run_api(f, 'Keyboard::' + f['name'], opaque=stage_opaque)
    # ---- 5. layouts ----------------------------------------------------------
    tabs = extract_all_layouts(ctx)
    rep.floor('concrete layouts', len(tabs), 10)
    concrete_paths = set()
    for name, t in sorted(tabs.items()):
        concrete_paths.add(t.fn_path)
        npanic = 0
        firstbad = None
        for li, lf in enumerate(t.leaves):
            if lf.kind != 'return':
                npanic += 1
                report_panic(rep, '%s::map_keycode' % name, lf)
        rep.ob('layout cells', len(t.out), sum(1 for x in t.out if x != PANIC))
        covered_fns.add(t.fn_path)
    for name, ty, path, wrapper in ctx.layout_impls():
        if wrapper:
            try:
                run_simple(ctx, rep, path, '%s::map_keycode' % name, opaque=concrete_paths)
            except Undecided:
                # the wrapper does more than delegate (e.g. inspects the result): analyse it with the wrapped layouts inlined
                run_simple(ctx, rep, path, '%s::map_keycode' % name)
            covered_fns.add(path)
    # ---- 6. everything else that is public and hand-written --------------------
    for f in handwritten:
        if f['path'] in covered_fns:
            continue
        st = (f.get('impl_self') or {}).get('path')
        if f['vis'] != 'pub' and not f.get('impl_trait'):
            continue   # private helpers are covered where they are inlined
        if f.get('impl_trait') in ('core::ops::Drop', 'Drop'):
            covered_fns.add(f['path'])
            continue   # executed as drop glue inside the bodies that drop the value
        if (f.get('impl_trait') or '').startswith('core::fmt::'):
            continue   # formatting impls call into core::fmt (outside the statement's list of operations)
        if f.get('impl_trait') == 'core::default::Default':
            run_simple(ctx, rep, f['path'], f['path'])
            covered_fns.add(f['path'])
            continue
        try:
            run_simple(ctx, rep, f['path'], f['path'])
            covered_fns.add(f['path'])
        except Undecided as u:
            prop_trait = (f.get('impl_trait') or '').split('::')[-1] in ('KeyboardLayout', 'ScancodeSet', 'Default', 'Drop')
            if f['name'] not in KNOWN_API and not prop_trait:
                # an addition to the public API is not one of the operations the statement lists; when it cannot be
                # analysed it is noted, not judged (it is still inlined wherever a listed operation calls it)
                rep.note('new public function %s could not be analysed (API extension, not judged): %s' % (f['path'], str(u)[:160]))
                covered_fns.add(f['path'])
                continue
            rep.finding('C08 undecided %s' % f['path'], 'public function could not be analysed: %s' % u)
    # inventory: every trap site must lie in a covered function (or a private helper inlined into one)
    helpers = {f['path'] for f in handwritten if f['vis'] != 'pub' and not f.get('impl_trait')}
    for fnp, kind, sp in inv:
        ok = fnp in covered_fns or fnp in helpers
        rep.ob('trap sites accounted for', 1, 1 if ok else 0)
        if not ok:
            rep.finding('C08 trap-site-not-covered %s' % fnp, '%s at %s' % (kind, sp))
    # vacuity guard: the inventory must have scanned the crate's hand-written bodies.  (The NUMBER of trap sites is recorded, not
    # floored: a maintainer may remove every overflow-checked operation - refactors/Y4-p3 went from 10 to 7 - and the property then holds
    # all the more.)
    scanned = [f for f in handwritten if f['path'] not in fmt_impls and f.get('closure_of') not in fmt_impls]
    rep.floor('hand-written bodies scanned for trap sites', sum(1 for f in scanned for _ in iter_bodies(f)), 20)
    rep.analysed['trap_sites'] = len(inv)
    rep.analysed['functions_covered'] = sorted(covered_fns)
    rep.nontrivial = len(inv)
    rep.rule = ('every public operation is interpreted abstractly over all inputs x the reachable-state invariant of its component (frame decoder: '
                'abstract register states closed under all field writers; scancode sets: states reachable over the extracted automaton; event decoder: '
                'all 512 modifier states; layouts: all 124 x 512 x 2 cells); no path class may end in an Assert failure, a panic entry point or an '
                'unreachable terminator; the frame decoder\'s fields are written by its own operations only; the locals of one function stay below 8 KiB; '
                'non-trivial = trap sites in the inventory, each shown infeasible')
