"""Rules C03, C09, C10, C11, C12, C15, C16 over the extracted layout decision tables."""
import json, os
from .common import VERIF
from .mirtab import Engine, Undecided, check_partition, ev, term_str
from .extract import (extract_all_layouts, extract_layout, inherent_layout_shadows, show_out, mods_str, RAW_BASE, PANIC, leaf_where, span_line)
from .rules_event import load_keys

REFDIR = os.path.join(VERIF, 'reference', 'layouts')


class Bits:
    def __init__(self, ctx):
        mf = ctx.mf
        self.LS, self.RS = 1 << mf['lshift'], 1 << mf['rshift']
        self.LC, self.RC = 1 << mf['lctrl'], 1 << mf['rctrl']
        self.NUM, self.CAPS = 1 << mf['numlock'], 1 << mf['capslock']
        self.LA, self.RA = 1 << mf['lalt'], 1 << mf['ralt']
        self.RC2 = 1 << mf['rctrl2']
        self.MAP = ctx.hc['MapLettersToUnicode']
        self.IGN = ctx.hc['Ignore']

    def S(self, m): return bool(m & (self.LS | self.RS))
    def C(self, m): return bool(m & (self.LC | self.RC))
    def G(self, m): return bool(m & self.RA) or (bool(m & self.LA) and self.C(m))
    def caps(self, m): return bool(m & self.CAPS)
    def num(self, m): return bool(m & self.NUM)


def tables(ctx, rep):
    tabs = extract_all_layouts(ctx)
    for n_, why_ in getattr(ctx, 'skipped_layouts', []):
        rep.note('layout type %s is not one of the shipped layouts and is not a pure function of (key, modifiers, mode) - not judged (%s)' % (n_, why_))
    rep.floor('concrete KeyboardLayout impls', len(tabs), 10)
    rep.analysed['layouts'] = {n: {'fn': t.fn_path, 'path_classes': t.n_classes, 'cells': len(t.out), 'engine': t.engine_stats}
                               for n, t in tabs.items()}
    # an inherent `map_keycode` shadows the trait method for direct calls on the value: it must give the same table
    for name, ty, inh, trait_fn in inherent_layout_shadows(ctx):
        try:
            a = ctx.prog.adts.get(ty.get('path', ''))
            variants = [v['idx'] for v in a['variants']] if a is not None and a['kind'] == 'enum' else [None]
            bad = None
            for vi in variants:       # an enum wrapper is compared variant by variant
                doms = None if vi is None else {'self.tag': [vi]}
                ti = extract_layout(ctx, name, inh, arg_doms=doms)
                tt = extract_layout(ctx, name, trait_fn, arg_doms=doms)
                bad = next((i for i in range(len(ti.out)) if ti.out[i] != tt.out[i]), None)
                if bad is not None:
                    break
            rep.ob('inherent map_keycode agrees with the trait method', 1, 0 if bad is not None else 1)
            if bad is not None:
                k, m_, h = bad // ti.stride, (bad % ti.stride) // ti.nm, bad % ti.nm
                rep.finding('%s layout=%s inherent-map_keycode-shadows-trait-method' % (rep.prop, name.split('::')[-1]),
                            'inherent %s is what `layout.map_keycode(..)` calls; for %s mods=%s it gives %s where the KeyboardLayout impl gives %s' % (
                                inh, ctx.keycodes[k], mods_str(ctx, m_), show_out(ctx, ti.out[bad]), show_out(ctx, tt.out[bad])))
        except Undecided as u:
            rep.finding('%s layout=%s inherent-map_keycode undecided' % (rep.prop, name.split('::')[-1]),
                        'an inherent map_keycode shadows the trait method and could not be analysed: %s' % u)
    for n, t in tabs.items():
        npanic = sum(1 for x in t.out if x == PANIC)
        if npanic:
            # a trapping cell is C08's finding; here it simply is a cell with no output
            rep.note('%d input cells of %s end in a panic (reported by C08); first: %s' % (
                npanic, n, leaf_where(t.leaves[t.leaf_of[t.out.index(PANIC)]])))
    return tabs


def cell_desc(ctx, t, k, m, h):
    return '%s %s mods=%s mode=%s -> %s [%s]' % (t.name, ctx.keycodes[k], mods_str(ctx, m),
                                                 'Map' if h == ctx.hc['MapLettersToUnicode'] else 'Ignore',
                                                 show_out(ctx, t.get(k, m, h)), t.where(k, m, h))


# ---------------------------------------------------------------------------
def check_characters(ctx, rep, tier):
    """C03"""
    tabs = tables(ctx, rep)
    B = Bits(ctx)
    ncell = 0
    covered = []
    for name, t in sorted(tabs.items()):
        p = os.path.join(REFDIR, name + '.json')
        if not os.path.exists(p):
            rep.note('C03: layout %s has no reference table - not covered' % name)
            continue
        ref = json.load(open(p, encoding='utf-8'))
        covered.append(name)
        for kname, cell in ref['keys'].items():
            if kname not in ctx.kc:
                rep.finding('C03 anchor key %s' % kname, 'reference names a key the crate no longer has')
                continue
            k = ctx.kc[kname]
            # does the layout give this key a distinct AltGr-level character at all?  (in any AltGr-selecting state)
            has_altgr = False
            for m in range(512):
                if B.caps(m) or not B.G(m) or B.S(m):
                    continue
                for h in (B.MAP, B.IGN):
                    if B.C(m) and h == B.MAP:
                        continue
                    if t.get(k, m, h) != t.get(k, m & ~(B.RA | B.LA), h):
                        has_altgr = True
            for m in range(512):
                S, G, C_ = B.S(m), B.G(m), B.C(m)
                if S and G:
                    continue
                if B.caps(m) and not (G and has_altgr):
                    continue     # CapsLock-on states of the base/shift levels are C10's subject; the AltGr level holds
                                 # "whatever the lock flags are"
                lvl = 'altgr' if G else ('shift' if S else 'base')
                for h in (B.MAP, B.IGN):
                    if C_ and h == B.MAP:
                        continue
                    got = t.get(k, m, h)
                    ncell += 1
                    if lvl == 'altgr':
                        if not has_altgr:
                            rep.ob('level cells', 1)
                            continue
                        # the key has an AltGr level: every state that selects it must give the standard's character
                        acc = cell.get('altgr')
                        if acc is None:
                            if got == t.get(k, m & ~(B.RA | B.LA), h):
                                rep.ob('level cells', 1)
                                continue
                            rep.ob('level cells', 1, 0)
                            rep.finding('C03 layout=%s key=%s level=altgr expected=<no AltGr character> got=%s' % (name, kname, show_out(ctx, got)),
                                        'the reference (%s) has no AltGr character on this key; %s' % (ref['standard'], cell_desc(ctx, t, k, m, h)))
                            continue
                    else:
                        acc = cell[lvl]
                    ok = '*any*' in acc or (got < RAW_BASE and got != PANIC and chr(got) in acc) or (got >= RAW_BASE and '*none*' in acc)
                    if ok:
                        rep.ob('level cells', 1)
                    else:
                        rep.ob('level cells', 1, 0)
                        rep.finding('C03 layout=%s key=%s level=%s expected=%s got=%s' % (
                            name, kname, lvl, '|'.join(acc), show_out(ctx, got)),
                            'standard: %s; %s' % (ref['standard'], cell_desc(ctx, t, k, m, h)))
        # Ctrl being mapped (mode = map, a Ctrl key held) takes a cell out of the level clauses above and, with Alt/AltGr
        # also held, out of C09's; but "never something else" still holds there: whatever wins - the Ctrl mapping, the
        # AltGr level or neither - the output is one of THIS key's characters or the control character of its letter
        for kname, cell in ref['keys'].items():
            if kname not in ctx.kc:
                continue
            k = ctx.kc[kname]
            own = set()
            for lv in ('base', 'shift', 'altgr', 'shift_altgr'):
                own |= set(cell.get(lv) or [])
            if '*any*' in own:
                continue
            ctrls = {chr(ord(c.upper()) & 0x1F) for c in own if len(c) == 1 and c.isascii() and c.isalpha()}
            for m in range(512):
                if not B.C(m) or (B.S(m) and B.G(m)):
                    continue
                got = t.get(k, m, B.MAP)
                ok = got != PANIC and ((got < RAW_BASE and (chr(got) in own or chr(got) in ctrls)) or (got >= RAW_BASE and '*none*' in own))
                rep.ob('ctrl-mapped cells stay on the key', 1, 1 if ok else 0)
                if not ok:
                    rep.finding('C03 layout=%s key=%s ctrl-mapped got=%s' % (name, kname, show_out(ctx, got)),
                                'with Ctrl being mapped the key types something that is neither one of its own characters (%s) nor the control '
                                'character of its letter; standard: %s; %s' % ('|'.join(sorted(own)), ref['standard'], cell_desc(ctx, t, k, m, B.MAP)))
        for kname in list(ref['keys'])[:1]:
            k = ctx.kc[kname]
            rep.sample({'layout': name, 'key': kname, 'reference': ref['keys'][kname],
                        'extracted_base': show_out(ctx, t.get(k, B.NUM, B.IGN)), 'extracted_shift': show_out(ctx, t.get(k, B.NUM | B.LS, B.IGN)),
                        'where': t.where(k, B.NUM, B.IGN)})
    rep.floor('layouts with a reference table', len(covered), 10)
    rep.nontrivial = ncell
    rep.analysed['covered_layouts'] = covered
    rep.rule = ('for every layout with a frozen reference, every reference key, every modifier state x mode that selects the base / shift / AltGr '
                'level (CapsLock off, Ctrl not mapped, not Shift+AltGr): the extracted output must be an accepted character of that cell; a distinct '
                'AltGr character on a key with no reference AltGr cell is reported; with Ctrl being mapped the output is one of the key\'s own '
                'reference characters or the control character of its letter')


# ---------------------------------------------------------------------------
def check_ctrl(ctx, rep, tier):
    """C09"""
    tabs = tables(ctx, rep)
    B = Bits(ctx)
    nletters = 0
    for name, t in sorted(tabs.items()):
        for k in range(t.nk):
            kname = ctx.keycodes[k]
            base = t.get(k, B.NUM, B.IGN)
            letter = base if (base != PANIC and 0x61 <= base <= 0x7A) else None
            if letter:
                nletters += 1
            for m in range(512):
                C_ = B.C(m)
                alt = bool(m & (B.LA | B.RA))
                om, oi = t.get(k, m, B.MAP), t.get(k, m, B.IGN)
                if letter and C_ and not alt:
                    want = letter - 0x60
                    if om != want:
                        rep.ob('ctrl+letter', 1, 0)
                        rep.finding('C09 layout=%s key=%s types=%s expected=U+%04X got=%s' % (name, kname, chr(letter), want, show_out(ctx, om)),
                                    'Ctrl+%s must give U+%04X; %s' % (chr(letter), want, cell_desc(ctx, t, k, m, B.MAP)))
                    else:
                        rep.ob('ctrl+letter', 1)
                elif not C_ or not letter:
                    if om != oi:
                        rep.ob('mode-independence', 1, 0)
                        rep.finding('C09 layout=%s key=%s %s mode-changes-output' % (name, kname, 'letter-without-ctrl' if letter else 'non-letter'),
                                    'Ctrl handling must change nothing here, but Map gives %s and Ignore gives %s; %s' % (
                                        show_out(ctx, om), show_out(ctx, oi), cell_desc(ctx, t, k, m, B.MAP)))
                    else:
                        rep.ob('mode-independence', 1)
                # holding Ctrl has no effect of its own where it is not being mapped: on every key with mapping disabled,
                # and on non-letter keys in either mode - as long as it does not change whether AltGr is in effect
                # (left Alt + Ctrl IS AltGr)
                if C_ and B.G(m) == B.G(m & ~(B.LC | B.RC)):
                    for h_ in ((B.IGN,) if letter else (B.IGN, B.MAP)):
                        o_with, o_without = t.get(k, m, h_), t.get(k, m & ~(B.LC | B.RC), h_)
                        if o_with != o_without:
                            rep.ob('ctrl has no effect where not mapped', 1, 0)
                            rep.finding('C09 layout=%s key=%s %s ctrl-changes-output' % (name, kname, 'letter-mapping-disabled' if letter else 'non-letter'),
                                        'Ctrl must change nothing here, but with Ctrl the key gives %s and without %s; %s' % (
                                            show_out(ctx, o_with), show_out(ctx, o_without), cell_desc(ctx, t, k, m, h_)))
                        else:
                            rep.ob('ctrl has no effect where not mapped', 1)
                if letter and not alt and C_:
                    o0 = t.get(k, m & ~(B.LC | B.RC), B.IGN)
                    if oi != o0:
                        rep.ob('ignore-mode', 1, 0)
                        rep.finding('C09 layout=%s key=%s ignore-mode-ctrl-changes-output' % (name, kname),
                                    'with mapping disabled Ctrl must not change a letter: %s vs without Ctrl %s; %s' % (
                                        show_out(ctx, oi), show_out(ctx, o0), cell_desc(ctx, t, k, m, B.IGN)))
                    else:
                        rep.ob('ignore-mode', 1)
        a = ctx.kc.get('A')
        rep.sample({'layout': name, 'key': 'A', 'types': show_out(ctx, t.get(a, B.NUM, B.IGN)),
                    'ctrl': show_out(ctx, t.get(a, B.NUM | B.LC, B.MAP)), 'where': t.where(a, B.NUM | B.LC, B.MAP)})
    rep.floor('letter keys found', nletters, 260)
    rep.nontrivial = nletters
    rep.rule = ('letter key = key whose unmodified output is a..z in that layout; in Map mode with Ctrl and no Alt every such key must give letter-0x60 '
                'in all 2^k remaining states; Map and Ignore tables must agree wherever Ctrl is not held or the key is not a letter; no external oracle')


# ---------------------------------------------------------------------------
def check_caps(ctx, rep, tier):
    """C10"""
    tabs = tables(ctx, rep)
    B = Bits(ctx)
    ncased = 0
    for name, t in sorted(tabs.items()):
        for k in range(t.nk):
            kname = ctx.keycodes[k]
            base = t.get(k, B.NUM, B.IGN)
            sh = t.get(k, B.NUM | B.LS, B.IGN)
            cased = False
            if base != PANIC and base < RAW_BASE and sh < RAW_BASE and sh != PANIC:
                c = chr(base)
                u = c.upper()
                cased = c.islower() and len(u) == 1 and u != c and ord(u) == sh
            ncased += 1 if cased else 0
            for m in range(512):
                if B.caps(m):
                    continue
                for h in (B.MAP, B.IGN):
                    oc = t.get(k, m | B.CAPS, h)
                    if cased:
                        m2 = (m & ~(B.LS | B.RS)) if B.S(m) else (m | B.LS)
                        want = t.get(k, m2, h)
                        if oc != want:
                            rep.ob('capslock inverts shift on letters', 1, 0)
                            rep.finding('C10 layout=%s key=%s kind=letter-capslock-does-not-invert-shift' % (name, kname),
                                        'key types %s/%s; with CapsLock on it gives %s but with Shift inverted (CapsLock off) %s; %s' % (
                                            chr(base), chr(sh), show_out(ctx, oc), show_out(ctx, want), cell_desc(ctx, t, k, m | B.CAPS, h)))
                        else:
                            rep.ob('capslock inverts shift on letters', 1)
                    else:
                        o = t.get(k, m, h)
                        if oc != o:
                            rep.ob('capslock ignored on non-letters', 1, 0)
                            rep.finding('C10 layout=%s key=%s kind=nonletter-depends-on-capslock' % (name, kname),
                                        'CapsLock changes the output of a non-letter key: off %s, on %s; %s' % (
                                            show_out(ctx, o), show_out(ctx, oc), cell_desc(ctx, t, k, m | B.CAPS, h)))
                        else:
                            rep.ob('capslock ignored on non-letters', 1)
        rep.sample({'layout': name, 'cased_letter_keys': sum(
            1 for k in range(t.nk)
            if t.get(k, B.NUM, B.IGN) < RAW_BASE and chr(max(t.get(k, B.NUM, B.IGN), 0)).islower()
            and t.get(k, B.NUM | B.LS, B.IGN) == ord(chr(t.get(k, B.NUM, B.IGN)).upper()[0]))})
    rep.floor('cased letter keys found', ncased, 260)
    rep.nontrivial = ncased
    rep.rule = ('cased-letter key = lowercase base output whose single-character uppercase is the shift output; for those, table(m+caps) must equal '
                'table(m with Shift inverted) for all 256 CapsLock-off states x 2 modes; for every other key table(m+caps) = table(m)')


# ---------------------------------------------------------------------------
def check_groups(ctx, rep, tier):
    """C11"""
    B = Bits(ctx)
    # (a) the public predicates
    preds = {
        'is_shifted': lambda m: B.S(m),
        'is_ctrl': lambda m: B.C(m),
        'is_alt': lambda m: bool(m & (B.LA | B.RA)),
        'is_altgr': lambda m: B.G(m),
        'is_caps': lambda m: B.S(m) != B.caps(m),
    }
    names = ['self.' + f for f in ctx.modfields]
    for pname, spec in preds.items():
        f = None
        for g in ctx.facts['fns']:
            if g['name'] == pname and g.get('impl_self_str') == 'Modifiers' and not g.get('impl_trait'):
                f = g
        if f is None:
            rep.finding('C11 predicate %s missing' % pname, 'Modifiers::%s not found' % pname)
            continue
        if f['vis'] != 'pub':
            rep.finding('C11 predicate %s not-public' % pname, '')
        eng = Engine(ctx.prog)
        leaves = eng.run(f['path'], arg_names=['self'])
        check_partition(eng, leaves)
        bad = None
        n = 0
        for lf in leaves:
            import itertools
            for vals in itertools.product(*[sorted(lf.doms[x]) for x in names]):
                asg = dict(zip(names, vals))
                m = sum(b << i for i, b in enumerate(vals))
                got = None if lf.kind != 'return' else (lf.ret[1] if lf.ret[0] == 'c' else ev(lf.ret, asg))
                n += 1
                if got != int(spec(m)) and bad is None:
                    bad = (m, got, lf)
        rep.ob('predicate truth-table rows', n, n if bad is None else 0)
        if bad:
            m, got, lf = bad
            rep.finding('C11 predicate=%s' % pname, 'Modifiers::%s is wrong for %s: returns %s; computed as %s; %s' % (
                pname, mods_str(ctx, m), got, term_str(lf.ret) if lf.ret else 'panic', leaf_where(lf)))
        rep.sample({'predicate': pname, 'extracted_term': term_str(leaves[0].ret) if leaves and leaves[0].ret else None})
    # (b) layouts depend on the flags only through the five facts
    tabs = tables(ctx, rep)
    keys = load_keys()
    numpad = {ctx.kc[k] for k in keys['numpad_keys_17']}
    for name, t in sorted(tabs.items()):
        for k in range(t.nk):
            kname = ctx.keycodes[k]
            for h in (B.MAP, B.IGN):
                cls = {}
                for m in range(512):
                    key = (B.S(m), B.C(m), B.G(m), B.caps(m), B.num(m) if k in numpad else None)
                    o = t.get(k, m, h)
                    prev = cls.get(key)
                    if prev is None:
                        cls[key] = (o, m)
                        rep.ob('abstract classes', 1)
                    elif prev[0] != o:
                        # which raw flags differ between the two witnesses?
                        diff = [f for i, f in enumerate(ctx.modfields) if (m ^ prev[1]) >> i & 1]
                        rep.ob('class constancy', 1, 0)
                        rep.finding('C11 layout=%s key=%s raw-flag-dependence' % (name, kname),
                                    'same Shift/Ctrl/AltGr/CapsLock%s facts but different output: %s vs %s (states differ in %s)' % (
                                        '/NumLock' if k in numpad else '', cell_desc(ctx, t, k, prev[1], h), cell_desc(ctx, t, k, m, h), diff))
                    else:
                        rep.ob('class constancy', 1)
    rep.nontrivial = sum(v[0] for k, v in rep.obligations.items() if k == 'abstract classes')
    rep.rule = ('(a) truth tables of the five Modifiers predicates over all 512 flag valuations vs their stated groupings; (b) every layout table is '
                'constant on each class of equal (Shift, Ctrl, AltGr, CapsLock[, NumLock for the 17 numpad keys]) x mode; non-trivial = abstract classes')


# ---------------------------------------------------------------------------
def check_ascii(ctx, rep, tier):
    """C12"""
    tabs = tables(ctx, rep)
    B = Bits(ctx)
    for name, t in sorted(tabs.items()):
        have = {}
        for k in range(t.nk):
            for lvl, m in (('base', B.NUM), ('shift', B.NUM | B.LS), ('altgr', B.NUM | B.RA)):
                for h in (B.MAP, B.IGN):
                    o = t.get(k, m, h)
                    if o != PANIC and o < RAW_BASE:
                        have.setdefault(o, (ctx.keycodes[k], lvl))
        missing = [c for c in range(0x20, 0x7F) if c not in have]
        rep.ob('printable ASCII characters', 95, 95 - len(missing))
        for c in missing:
            rep.finding("C12 layout=%s char=U+%04X" % (name, c),
                        "'%s' is not produced by any key of %s at the unshifted, shifted or AltGr level (table of %s)" % (chr(c), name, t.fn_path))
        rep.sample({'layout': name, 'typed_by': {chr(c): '%s@%s' % have[c] for c in (0x40, 0x5B, 0x5C, 0x7B, 0x7C, 0x7E, 0x23) if c in have}})
    rep.nontrivial = 95 * len(tabs)
    rep.rule = 'per layout: union of Unicode outputs over 124 keys x {no modifier, one Shift, AltGr alone} (NumLock on) must contain U+0020..U+007E'


# ---------------------------------------------------------------------------
def check_numpad(ctx, rep, tier):
    """C15"""
    tabs = tables(ctx, rep)
    B = Bits(ctx)
    K = load_keys()
    kc = ctx.kc
    for name, t in sorted(tabs.items()):
        # layouts the property pins have their separator fixed; a layout added later may use either convention
        sep = K['decimal_separator'].get(name, K['decimal_separator']['default'] if name in K.get('shipped_layouts', []) else ['.', ','])

        def expect(kname, m, h, want_set, what):
            k = kc[kname]
            o = t.get(k, m, h)
            ok = o in want_set
            rep.ob(what, 1, 1 if ok else 0)
            if not ok:
                rep.finding('C15 layout=%s key=%s %s expected=%s got=%s' % (
                    name, kname, 'numlock=%d' % B.num(m) if kname.startswith('Numpad') and kname not in K['numpad_operators'] and kname != 'NumpadEnter' else 'any',
                    '|'.join(show_out(ctx, w) for w in sorted(want_set)), show_out(ctx, o)), cell_desc(ctx, t, k, m, h))
        seps = {t.get(kc[K['numpad_period']], m, h) for m in range(512) if B.num(m) for h in (B.MAP, B.IGN)}
        rep.ob('one decimal separator per layout', 1, 1 if len(seps) == 1 else 0)
        if len(seps) != 1:
            rep.finding('C15 layout=%s key=NumpadPeriod separator-varies' % name,
                        'with NumLock on the decimal key types %s depending on other modifiers: a layout has one decimal separator' % (
                            ' / '.join(show_out(ctx, x) for x in sorted(seps))))
        for m in range(512):
            for h in (B.MAP, B.IGN):
                on = B.num(m)
                for kname, digit in K['numpad_digits'].items():
                    if on:
                        expect(kname, m, h, {ord(digit)}, 'numpad digits')
                    elif kname in K['numpad_alias']:
                        expect(kname, m, h, {RAW_BASE + kc[K['numpad_alias'][kname]]}, 'numpad navigation aliases')
                for kname, ch in K['numpad_operators'].items():
                    expect(kname, m, h, {ord(ch)}, 'numpad operators')
                expect(K['numpad_enter'], m, h, {t.get(kc[K['return_key']], m, h)}, 'numpad enter = return')
                if on:
                    expect(K['numpad_period'], m, h, {ord(s) for s in sep}, 'numpad decimal')
                else:
                    expect(K['numpad_period'], m, h, {0x7F}, 'numpad decimal')
                for kname, cp in K['editing_keys'].items():
                    expect(kname, m, h, {cp}, 'editing keys')
        rep.sample({'layout': name, 'decimal_separator_on': show_out(ctx, t.get(kc['NumpadPeriod'], B.NUM, B.IGN)),
                    'Numpad7_off': show_out(ctx, t.get(kc['Numpad7'], 0, B.IGN)), 'where': t.where(kc['Numpad7'], 0, B.IGN)})
    rep.nontrivial = 23 * len(tabs)
    rep.rule = 'per layout, in every one of the 512 x 2 states: the 17 numpad keys and 6 editing keys produce what the property pins (reference/keys.json)'


# ---------------------------------------------------------------------------
def check_raw(ctx, rep, tier):
    from .rules_event import check_eq_structural
    check_eq_structural(ctx, rep, ('DecodedKey', 'KeyCode'))
    """C16"""
    tabs = tables(ctx, rep)
    B = Bits(ctx)
    K = load_keys()
    kc = ctx.kc
    raw52 = [kc[k] for k in K['characterless_52']]
    rep.floor('character-less keys', len(raw52), 52)
    alias = {kc[k]: kc[v] for k, v in K['numpad_alias'].items()}
    newkeys = [n for n in ctx.keycodes if n not in K.get('keycodes_124', ctx.keycodes)]
    prefixed = set()
    if newkeys:
        # On PC keyboards every character key has an unprefixed scancode (the only prefixed keys that type are keypad
        # '/' and keypad Enter); keys sent with an E0/E1 prefix are navigation, media, system and power keys.  A key
        # added after the reference was frozen is classified by the sequences the crate's own decoders assign to it.
        try:
            from .rules_scancode import SetModel, tables_of
            from .extract import scancode_impls
            for self_str, pth in scancode_impls(ctx):
                sm = SetModel(ctx, self_str, pth)
                if sm.kind:
                    for pfx, tab in tables_of(sm, ctx).items():
                        for code, (kname, _st) in tab.items():
                            if kname in newkeys and pfx in ('E0', 'E1'):
                                prefixed.add(kname)
        except Undecided as u:
            rep.note('new keys could not be classified: %s' % u)
    for name, t in sorted(tabs.items()):
        for n in newkeys:
            types = any(t.get(kc[n], m, h) < RAW_BASE for m in (B.NUM, B.NUM | B.LS) for h in (B.MAP, B.IGN))
            if types and n in prefixed:
                rep.ob('new prefixed (non-character) keys are raw', 1, 0)
                rep.finding('C16 layout=%s key=%s new-prefixed-key-types-a-character' % (name, n),
                            'key %s is sent with an E0/E1 prefix (a navigation/media/system key, not a character key) but types %s on %s' % (
                                n, show_out(ctx, t.get(kc[n], B.NUM, B.IGN)), name))
            elif types:
                rep.note('key %s was added after the reference was frozen and types a character on %s; it has an unprefixed scancode, '
                         'so it may be a character key (not judged)' % (n, name))
            elif n in prefixed:
                rep.ob('new prefixed (non-character) keys are raw', 1)
        for k in range(t.nk):
            kname = ctx.keycodes[k]
            must_raw = k in raw52
            for m in range(512):
                for h in (B.MAP, B.IGN):
                    o = t.get(k, m, h)
                    if must_raw:
                        ok = o == RAW_BASE + k
                        rep.ob('52 character-less keys are raw', 1, 1 if ok else 0)
                        if not ok:
                            rep.finding('C16 layout=%s key=%s expected=RawKey(%s) got=%s' % (name, kname, kname, show_out(ctx, o)),
                                        cell_desc(ctx, t, k, m, h))
                    elif o != PANIC and o >= RAW_BASE:
                        r = o - RAW_BASE
                        ok = r == k or (not B.num(m) and alias.get(k) == r)
                        rep.ob('raw results name the pressed key', 1, 1 if ok else 0)
                        if not ok:
                            rep.finding('C16 layout=%s key=%s masquerades-as=%s' % (name, kname, ctx.keycodes[r]), cell_desc(ctx, t, k, m, h))
        rep.sample({'layout': name, 'F5': show_out(ctx, t.get(kc['F5'], B.NUM | B.LS | B.RA, B.MAP)), 'where': t.where(kc['F5'], B.NUM, B.MAP)})
    rep.nontrivial = 52 * len(tabs)
    rep.rule = ('per layout, all 512 x 2 states: the 52 character-less keys decode to RawKey(self); any RawKey(x) result anywhere has x = pressed key '
                'or its numpad navigation alias with NumLock off; the AnyLayout forms follow by C17')
