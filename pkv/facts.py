"""Fact extraction: run pkv-mirdump over /repo's current working tree and load
the resulting JSON.  See DESIGN.md 3.1.

Every call compiles /repo afresh into a brand-new CARGO_TARGET_DIR (cargo's
freshness cache would otherwise skip the wrapper) which is removed afterwards.
"""
import json, os, shutil, subprocess, sys, tempfile, time

VERIF = os.path.dirname(os.path.dirname(os.path.abspath(__file__)))
REPO = os.environ.get('PKV_REPO', '/repo')
DRIVER = os.path.join(VERIF, 'driver', 'target', 'debug', 'pkv-mirdump')

FLAVOURS = {
    # dev profile: overflow checks + debug assertions ON (what C08 requires)
    'dev': '-Zmir-opt-level=0 -Awarnings',
    # second flavour for the thorough tier: differently shaped MIR, checks off
    'rel': '-Zmir-opt-level=1 -C overflow-checks=off -C debug-assertions=off -Awarnings',
}


class FactError(Exception):
    pass


def nightly_sysroot():
    out = subprocess.run(['rustc', '+nightly', '--print', 'sysroot'],
                         capture_output=True, text=True, cwd=VERIF)
    if out.returncode != 0:
        raise FactError('cannot locate nightly sysroot: ' + out.stderr)
    return out.stdout.strip()


def ensure_driver():
    if not os.path.exists(DRIVER):
        raise FactError('driver not built: run MANIFEST.setup_cmd (./setup.sh) first; missing ' + DRIVER)


def extract(flavour='dev', repo=None, keep_json=None):
    """Compile `repo` with the dump driver; return the parsed fact document."""
    repo = repo or REPO
    dbg = os.environ.get('PKV_FACTS_FILE')   # debugging aid only: reuse a fact file (never set by registered commands)
    if dbg and os.path.exists(dbg % flavour if '%' in dbg else dbg):
        with open(dbg % flavour if '%' in dbg else dbg) as f:
            doc = json.load(f)
        doc.setdefault('_extract_s', 0.0); doc['_flavour'] = flavour; doc['_repo'] = repo
        return doc
    ensure_driver()
    tmp = tempfile.mkdtemp(prefix='pkv-facts-')
    try:
        out = os.path.join(tmp, 'facts.json')
        # The analysed compilation must look like an ordinary one to the crate (`env!`/`option_env!` probes):
        # a minimal environment, and the driver injected through cargo --config instead of environment
        # variables.  The driver reads its own PKV_* parameters and scrubs them before compiling.
        keep = ('PATH', 'HOME', 'CARGO_HOME', 'RUSTUP_HOME', 'RUSTUP_TOOLCHAIN', 'TMPDIR', 'LANG', 'USER', 'TERM')
        env = {k: v for k, v in os.environ.items() if k in keep}
        env.update({
            'LD_LIBRARY_PATH': os.path.join(nightly_sysroot(), 'lib'),
            'CARGO_NET_OFFLINE': 'true',
            'PKV_OUT': out,
            'PKV_CRATE': 'pc_keyboard',
        })
        flags = FLAVOURS[flavour].split()
        cfg = [
            '--config', 'build.rustc-workspace-wrapper=%s' % json.dumps(DRIVER),
            '--config', 'build.rustflags=%s' % json.dumps(flags),
            '--config', 'build.target-dir=%s' % json.dumps(os.path.join(tmp, 'tgt')),
        ]
        t0 = time.time()
        p = subprocess.run(['cargo', '+nightly', 'check', '--offline', '--lib', '--quiet'] + cfg,
                           cwd=repo, env=env, capture_output=True, text=True)
        if p.returncode != 0:
            raise FactError('cargo check of %s failed (the tree does not compile?):\n%s' % (repo, p.stderr[-4000:]))
        if not os.path.exists(out):
            raise FactError('driver produced no fact file (wrapper skipped?)\n' + p.stderr[-2000:])
        with open(out) as f:
            doc = json.load(f)
        if doc.get('crate') != 'pc_keyboard':
            raise FactError('fact file is for crate %r' % doc.get('crate'))
        # a build script can make what is compiled depend on the build environment in ways no rustc fact shows
        doc['_build_script'] = os.path.exists(os.path.join(repo, 'build.rs')) or bool(
            __import__('re').search(r'(?m)^\s*build\s*=', open(os.path.join(repo, 'Cargo.toml')).read()))
        doc['_extract_s'] = round(time.time() - t0, 2)
        doc['_flavour'] = flavour
        doc['_repo'] = repo
        if keep_json:
            shutil.copy(out, keep_json)
        return doc
    finally:
        shutil.rmtree(tmp, ignore_errors=True)


if __name__ == '__main__':
    fl = sys.argv[1] if len(sys.argv) > 1 else 'dev'
    dest = sys.argv[2] if len(sys.argv) > 2 else os.path.join(VERIF, 'work', 'facts-%s.json' % fl)
    os.makedirs(os.path.dirname(dest), exist_ok=True)
    d = extract(fl, keep_json=dest)
    print('facts: %d fns, %d adts, %d ext adts, %d impls in %.2fs -> %s' % (
        len(d['fns']), len(d['adts']), len(d['ext_adts']), len(d['impls']), d['_extract_s'], dest))
