"""Fact extraction: run pkv-mirdump over /repo's current working tree and load
the resulting JSON.  See DESIGN.md 3.1.

Every call compiles /repo afresh into a brand-new CARGO_TARGET_DIR (cargo's
freshness cache would otherwise skip the wrapper) which is removed afterwards.
"""
import json, os, shutil, subprocess, sys, tempfile, time

VERIF = os.path.dirname(os.path.dirname(os.path.abspath(__file__)))
REPO = os.environ.get('PKV_REPO', '/repo')
DRIVER = os.path.join(VERIF, 'driver', 'target', 'debug', 'pkv-mirdump')

# A build flavour = the compilation parameters a crate can observe through cfg / codegen behaviour.
# Every flag is passed explicitly (after cargo's own), so a [profile] section in the crate's manifest - which
# applies to the analysed root package but NOT to the crate's users - cannot move the analysed build.
FLAVOURS = {
    # what users get from `cargo build`: overflow checks + debug assertions ON (what C08 requires)
    'dev': {'opt': 0, 'da': True, 'oc': True, 'panic': 'unwind', 'features': None},
    # what users get from `cargo build --release`: differently shaped MIR, checks off
    'rel': {'opt': 1, 'da': False, 'oc': False, 'panic': 'unwind', 'features': None},
}


def flavour_name(spec):
    return 'da%d-oc%d-%s%s' % (spec['da'], spec['oc'], spec['panic'],
                               '' if spec.get('features') is None else '+feat[%s]' % ','.join(spec['features']))


def flavour_flags(spec):
    return ['-Zmir-opt-level=%d' % spec['opt'], '-Zalways-encode-mir',
            '-Cdebug-assertions=%s' % ('on' if spec['da'] else 'off'),
            '-Coverflow-checks=%s' % ('on' if spec['oc'] else 'off'),
            '-Cpanic=%s' % spec['panic'], '-Awarnings']


def cfg_predicates(repo):
    """Every cfg predicate atom the crate's sources mention: set of (name, value|None)."""
    import re
    atoms = set()
    srcdir = os.path.join(repo, 'src')
    for root, _d, files in os.walk(srcdir):
        for fn in files:
            if not fn.endswith('.rs'):
                continue
            text = open(os.path.join(root, fn), encoding='utf-8', errors='replace').read()
            for m in re.finditer(r'\bcfg(_attr)?\s*!?\s*\(', text):
                i = m.end()
                depth = 1
                j = i
                while j < len(text) and depth:
                    depth += {'(': 1, ')': -1}.get(text[j], 0)
                    j += 1
                inner = text[i:j - 1]
                if m.group(1):      # cfg_attr(predicate, attrs...): only the predicate
                    d2 = 0
                    for k, ch in enumerate(inner):
                        d2 += {'(': 1, ')': -1}.get(ch, 0)
                        if ch == ',' and d2 == 0:
                            inner = inner[:k]
                            break
                for a in re.finditer(r'([A-Za-z_][A-Za-z0-9_]*)\s*(?:=\s*"([^"]*)")?', inner):
                    if a.group(1) in ('not', 'any', 'all'):
                        continue
                    atoms.add((a.group(1), a.group(2)))
            if re.search(r'\bdebug_assert(_eq|_ne)?\s*!', text):
                atoms.add(('debug_assertions', None))     # the macro expands to `if cfg!(debug_assertions) {..}`
    return atoms


def build_time_inputs(repo):
    """Constructs through which the compiled program can depend on things other than the crate's own sources and
    flags: compile-time file inclusion from outside src/, inline/global assembly, proc-macro dependencies."""
    import re
    out = []
    srcdir = os.path.join(repo, 'src')
    for root, _d, files in os.walk(srcdir):
        for fn in files:
            if not fn.endswith('.rs'):
                continue
            path = os.path.join(root, fn)
            text = open(path, encoding='utf-8', errors='replace').read()
            for m in re.finditer(r'\b(include_bytes|include_str|include)\s*!\s*\(\s*(.*?)\)', text, re.S):
                arg = m.group(2).strip()
                lit = re.match(r'^"([^"]*)"\s*,?$', arg)
                ok = False
                if lit:
                    tgt = os.path.normpath(os.path.join(root, lit.group(1)))
                    ok = not os.path.isabs(lit.group(1)) and tgt.startswith(os.path.normpath(repo) + os.sep) and os.path.exists(tgt)
                if not ok:
                    out.append('%s!(%s) in %s reads a file that is not part of the crate' % (m.group(1), arg[:60], os.path.relpath(path, repo)))
            if re.search(r'\b(global_asm|asm|naked_asm)\s*!', text):
                out.append('assembly in %s' % os.path.relpath(path, repo))
    # dependencies: a proc-macro runs arbitrary code inside the compiler
    try:
        man = open(os.path.join(repo, 'Cargo.toml')).read()
    except OSError:
        man = ''
    for m in re.finditer(r'(?m)^\s*([A-Za-z0-9_\-]+)\s*=\s*\{[^}]*path\s*=\s*"([^"]+)"', man):
        dep_manifest = os.path.join(repo, m.group(2), 'Cargo.toml')
        try:
            if re.search(r'(?m)^\s*proc-macro\s*=\s*true', open(dep_manifest).read()):
                out.append('proc-macro dependency %s (%s)' % (m.group(1), m.group(2)))
        except OSError:
            out.append('path dependency %s whose manifest cannot be read' % m.group(1))
    return out


def manifest_features(repo):
    """(all feature names, default feature list) from Cargo.toml (tiny TOML subset reader)."""
    import re
    try:
        text = open(os.path.join(repo, 'Cargo.toml')).read()
    except OSError:
        return [], []
    m = re.search(r'(?ms)^\[features\]\s*(.*?)(?=^\[|\Z)', text)
    if not m:
        return [], []
    feats, default = [], []
    for line in m.group(1).split('\n'):
        k = re.match(r'\s*"?([A-Za-z0-9_\-]+)"?\s*=\s*\[(.*)\]', line)
        if k:
            if k.group(1) == 'default':
                default = re.findall(r'"([^"]+)"', k.group(2))
            else:
                feats.append(k.group(1))
    return feats, default


def extra_flavours(repo):
    """Additional build flavours demanded by the cfg predicates the crate uses, and the predicates that cannot be
    varied on this host (-> fail closed).  Returns (dict name->spec, unsupported list)."""
    import itertools
    atoms = cfg_predicates(repo)
    ignore = {'test', 'doc', 'doctest', 'docsrs', 'rustfmt', 'clippy', 'miri'}
    axes = {}
    unsupported = []
    feats, default = manifest_features(repo)
    for name, val in sorted(atoms, key=lambda x: (x[0], x[1] or '')):
        if name in ignore and val is None:
            continue
        if name == 'debug_assertions':
            axes['da'] = [True, False]
            axes['oc'] = [True, False]      # mixed combinations (assertions off, overflow checks on) exist too
        elif name == 'overflow_checks':
            axes['oc'] = [True, False]
        elif name == 'panic' and val in ('unwind', 'abort'):
            axes['panic'] = ['unwind', 'abort']
        elif name == 'feature' and val is not None:
            axes.setdefault('features', set()).add(val)
        else:
            unsupported.append('%s%s' % (name, '="%s"' % val if val is not None else ''))
    out = {}
    if axes:
        keys = [k for k in ('da', 'oc', 'panic') if k in axes]
        fsets = [None]
        if 'features' in axes:
            fl = sorted(axes['features'])
            fsets = []
            for r in range(len(fl) + 1):
                for c in itertools.combinations(fl, r):
                    fsets.append(sorted(set(default) - set(fl) | set(c)))
        for combo in itertools.product(*[axes[k] for k in keys]):
            for fs in fsets:
                spec = dict(FLAVOURS['dev'])
                spec.update(dict(zip(keys, combo)))
                spec['features'] = fs
                nm = flavour_name(spec)
                out[nm] = spec
        if len(out) > 24:
            unsupported.append('more than 24 build configurations (%d)' % len(out))
            out = dict(list(out.items())[:24])
    return out, unsupported


def stable_lints(repo):
    """Compile the crate with the users' (stable) toolchain and return the lints that signal that the analysed
    nightly compilation may resolve names differently (`unstable_name_collisions`)."""
    tmp = tempfile.mkdtemp(prefix='pkv-stable-')
    try:
        keep = ('PATH', 'HOME', 'CARGO_HOME', 'RUSTUP_HOME', 'TMPDIR', 'LANG', 'USER', 'TERM')
        env = {k: v for k, v in os.environ.items() if k in keep}
        env['CARGO_NET_OFFLINE'] = 'true'
        # `forbid` so that an `#[allow(unstable_name_collisions)]` in the crate cannot silence the lint (it becomes E0453)
        p = subprocess.run(['cargo', 'check', '--offline', '--lib', '--message-format=json',
                            '--config', 'build.rustflags=["-Funstable-name-collisions"]',
                            '--config', 'build.target-dir=%s' % json.dumps(os.path.join(tmp, 'tgt'))],
                           cwd=repo, env=env, capture_output=True, text=True)
        hits = []
        for line in p.stdout.split('\n'):
            if not line.startswith('{'):
                continue
            try:
                m = json.loads(line)
            except ValueError:
                continue
            msg = m.get('message') or {}
            code = (msg.get('code') or {}).get('code')
            text = msg.get('message', '')
            if code in ('unstable_name_collisions',) or (code == 'E0453' and 'unstable_name_collisions' in text):
                sp = (msg.get('spans') or [{}])[0]
                hits.append('%s at %s:%s: %s' % ('unstable_name_collisions', sp.get('file_name'), sp.get('line_start'), text[:160]))
        return hits, p.returncode
    finally:
        shutil.rmtree(tmp, ignore_errors=True)


class FactError(Exception):
    pass


def nightly_sysroot():
    out = subprocess.run(['rustc', '+nightly', '--print', 'sysroot'],
                         capture_output=True, text=True, cwd=VERIF)
    if out.returncode != 0:
        raise FactError('cannot locate nightly sysroot: ' + out.stderr)
    return out.stdout.strip()


def ensure_driver():
    if not os.path.exists(DRIVER):
        raise FactError('driver not built: run MANIFEST.setup_cmd (./setup.sh) first; missing ' + DRIVER)


def normalize_paths(raw):
    """Public types are known to users (and to the rules) by the name they are exported under at the crate root.
    If such a type is *defined* in a private module (e.g. `ps2::Ps2Decoder` re-exported as `Ps2Decoder`), rewrite its
    definition path to the exported name throughout the fact document, so that moving a type between private
    modules is invisible to the rules."""
    try:
        doc = json.loads(raw)
    except ValueError:
        return raw
    ren = {}
    for e in doc.get('exports', []):
        if e['kind'] in ('Struct', 'Enum', 'Trait') and '::' not in e['name'] and e['target'] != e['name'] and e.get('reexport'):
            ren[e['target']] = e['name']
    # longest first, and only whole path prefixes (followed by a non-identifier character)
    import re
    for tgt in sorted(ren, key=len, reverse=True):
        raw = re.sub(r'(?<![A-Za-z0-9_:])' + re.escape(tgt) + r'(?![A-Za-z0-9_])', ren[tgt], raw)
    return raw


def toolchain_skew(repo):
    """The analysed MIR comes from the nightly compiler, users build with stable.  Both compilers are asked for
    their textual MIR (`--emit=mir`, type-checked program, nothing is run) and the multiset of call targets of every
    function is compared: a call that resolves to a different method/impl under the two toolchains (library API
    surface differences, autoref 'specialisation' probes, unstable-name collisions) shows up as a difference.
    Returns a list of human-readable differences."""
    import re, glob, collections
    keep = ('PATH', 'HOME', 'CARGO_HOME', 'RUSTUP_HOME', 'TMPDIR', 'LANG', 'USER', 'TERM')
    env = {k: v for k, v in os.environ.items() if k in keep}
    env['CARGO_NET_OFFLINE'] = 'true'
    tabs = {}
    tmp = tempfile.mkdtemp(prefix='pkv-skew-')
    try:
        for tc in ('stable', 'nightly'):
            td = os.path.join(tmp, tc)
            cmd = ['cargo'] + (['+nightly'] if tc == 'nightly' else []) + [
                'rustc', '--offline', '--lib', '--quiet', '--config', 'build.target-dir=%s' % json.dumps(td),
                '--', '--emit=mir', '-Awarnings', '-Cdebug-assertions=on', '-Coverflow-checks=on']
            p = subprocess.run(cmd, cwd=repo, env=env, capture_output=True, text=True)
            files = glob.glob(os.path.join(td, 'debug', 'deps', '*.mir'))
            if p.returncode != 0 or not files:
                return ['the %s toolchain could not compile the crate: %s' % (tc, p.stderr[-300:])]
            out = collections.defaultdict(collections.Counter)
            cur = None
            for line in open(files[0], encoding='utf-8', errors='replace'):
                m = re.match(r'^fn (.+?)\((?=_\d+:|\))', line) or re.match(r'^(?:const|static(?: mut)?) (\S+?): ', line)
                if m:
                    cur = re.sub(r'src/[^>]*?:\d+:\d+: \d+:\d+', 'src', m.group(1))
                    continue
                if cur is None or line.lstrip().startswith(('//', 'debug ', 'let ', 'scope')):
                    continue
                m = re.search(r'= (.+?)\((?:.*)\) -> (?:\[return|unwind|bb)', line)
                if m:
                    out[cur]['call ' + re.sub(r'\s+', ' ', m.group(1))] += 1
                # constants the compiler evaluated (values of consts that depend on the library's types differ
                # between toolchains: sizes, layouts, trait-impl sets)
                for c in re.findall(r'const ([^;,\)\]]+)', line):
                    out[cur]['const ' + c.strip()] += 1
                m = re.search(r'switchInt\(.*?\) -> \[(.*?)\]', line)
                if m:
                    out[cur]['switch ' + re.sub(r'bb\d+', 'bb', m.group(1))] += 1
            tabs[tc] = out
    finally:
        shutil.rmtree(tmp, ignore_errors=True)
    a, b = tabs['stable'], tabs['nightly']
    diffs = []
    for f in sorted(set(a) ^ set(b)):
        diffs.append('function `%s` exists only in the %s MIR' % (f, 'stable' if f in a else 'nightly'))
    for f in sorted(set(a) & set(b)):
        if a[f] != b[f]:
            diffs.append('in `%s` the stable MIR has %s where the nightly MIR has %s' % (
                f, sorted((a[f] - b[f]).elements())[:3], sorted((b[f] - a[f]).elements())[:3]))
    return diffs


def extract(flavour='dev', repo=None, keep_json=None, spec=None, crate='pc_keyboard'):
    """Compile `repo` with the dump driver; return the parsed fact document."""
    repo = repo or REPO
    dbg = os.environ.get('PKV_FACTS_FILE')   # debugging aid only: reuse a fact file (never set by registered commands)
    if dbg and os.path.exists(dbg % flavour if '%' in dbg else dbg):
        with open(dbg % flavour if '%' in dbg else dbg) as f:
            doc = json.load(f)
        doc.setdefault('_extract_s', 0.0); doc['_flavour'] = flavour; doc['_repo'] = repo
        return doc
    ensure_driver()
    tmp = tempfile.mkdtemp(prefix='pkv-facts-')
    try:
        out = os.path.join(tmp, 'facts.json')
        # The analysed compilation must look like an ordinary one to the crate (`env!`/`option_env!` probes):
        # a minimal environment, and the driver injected through cargo --config instead of environment
        # variables.  The driver reads its own PKV_* parameters and scrubs them before compiling.
        keep = ('PATH', 'HOME', 'CARGO_HOME', 'RUSTUP_HOME', 'RUSTUP_TOOLCHAIN', 'TMPDIR', 'LANG', 'USER', 'TERM')
        env = {k: v for k, v in os.environ.items() if k in keep}
        env.update({
            'LD_LIBRARY_PATH': os.path.join(nightly_sysroot(), 'lib'),
            'CARGO_NET_OFFLINE': 'true',
            'PKV_OUT': out,
            'PKV_CRATE': crate,
        })
        spec = spec or FLAVOURS[flavour]
        flags = flavour_flags(spec)
        cfg = [
            '--config', 'build.rustc-workspace-wrapper=%s' % json.dumps(DRIVER),
            '--config', 'build.rustflags=%s' % json.dumps(flags),
            '--config', 'build.target-dir=%s' % json.dumps(os.path.join(tmp, 'tgt')),
        ]
        t0 = time.time()
        if spec.get('features') is not None:
            cfg += ['--no-default-features'] + (['--features', ','.join(spec['features'])] if spec['features'] else [])
        p = subprocess.run(['cargo', '+nightly', 'check', '--offline', '--lib', '--quiet'] + cfg,
                           cwd=repo, env=env, capture_output=True, text=True)
        if p.returncode != 0:
            raise FactError('cargo check of %s failed (the tree does not compile?):\n%s' % (repo, p.stderr[-4000:]))
        if not os.path.exists(out):
            raise FactError('driver produced no fact file (wrapper skipped?)\n' + p.stderr[-2000:])
        with open(out) as f:
            raw = f.read()
        raw = normalize_paths(raw)
        doc = json.loads(raw)
        if doc.get('crate') != crate:
            raise FactError('fact file is for crate %r' % doc.get('crate'))
        # a build script can make what is compiled depend on the build environment in ways no rustc fact shows
        doc['_build_script'] = os.path.exists(os.path.join(repo, 'build.rs')) or bool(
            __import__('re').search(r'(?m)^\s*build\s*=', open(os.path.join(repo, 'Cargo.toml')).read()))
        doc['_extract_s'] = round(time.time() - t0, 2)
        doc['_flavour'] = flavour
        doc['_repo'] = repo
        if keep_json:
            with open(keep_json, 'w') as kf:
                kf.write(raw)
        return doc
    finally:
        shutil.rmtree(tmp, ignore_errors=True)


if __name__ == '__main__':
    fl = sys.argv[1] if len(sys.argv) > 1 else 'dev'
    dest = sys.argv[2] if len(sys.argv) > 2 else os.path.join(VERIF, 'work', 'facts-%s.json' % fl)
    os.makedirs(os.path.dirname(dest), exist_ok=True)
    d = extract(fl, keep_json=dest)
    print('facts: %d fns, %d adts, %d ext adts, %d impls in %.2fs -> %s' % (
        len(d['fns']), len(d['adts']), len(d['ext_adts']), len(d['impls']), d['_extract_s'], dest))
