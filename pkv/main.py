"""Entry point:  python3 -m pkv.main <ID> [quick|thorough] [--replay FILE]"""
import json, os, sys, traceback
from .common import Report, VERIF
from .facts import extract, FactError, REPO, FLAVOURS, extra_flavours, stable_lints, toolchain_skew, build_time_inputs
from .extract import Ctx
from .mirtab import Undecided, BudgetExceeded
import signal
from . import rules_scancode as RS
from . import rules_ps2 as RP
from . import rules_event as RE
from . import rules_wiring as RW
from . import rules_layout as RL
from . import rules_panic as RPN
from . import rules_const as RC

TRUSTED_COMMON = [
    'rustc nightly: MIR construction, type checking and callee resolution (Instance::try_resolve)',
    'pkv-mirdump: faithful serialisation of MIR/ADT facts',
    'mirtab: abstract semantics of the MIR constructs that occur; the library\'s own monomorphised MIR is interpreted where available, the callee-model table (intrinsics, panic entry points, Try::branch/FromResidual/Into fallback) otherwise',
    'pkv-shims: ten safe index-based stand-ins for raw-pointer based core::slice functions (only used if the crate calls them)',
]


def c01(ctx, rep, tier):
    RS.check_decode(ctx, rep, 'C01', 'set2', ctx.facts.get('_repo') or REPO)


def c02(ctx, rep, tier):
    RS.check_decode(ctx, rep, 'C02', 'set1', ctx.facts.get('_repo') or REPO)


def c07(ctx, rep, tier):
    models = RS.check_resync(ctx, rep)
    if tier == 'thorough' and models:
        RS.count_streams(models, rep, 4)


def c13(ctx, rep, tier):
    RS.check_xlat(ctx, rep)


def c19(ctx, rep, tier):
    RS.check_pairing(ctx, rep)


def c05(ctx, rep, tier):
    RP.check_frames(ctx, rep, tier)


def c06(ctx, rep, tier):
    RP.check_bitserial(ctx, rep, tier)


def c04(ctx, rep, tier):
    RE.check_modifiers(ctx, rep, tier)


def c14(ctx, rep, tier):
    RE.check_decoding(ctx, rep, tier)


def c17(ctx, rep, tier):
    RW.check_anylayout(ctx, rep, tier)


def c18(ctx, rep, tier):
    RW.check_keyboard(ctx, rep, tier)


def c03(ctx, rep, tier):
    RL.check_characters(ctx, rep, tier)


def c09(ctx, rep, tier):
    RL.check_ctrl(ctx, rep, tier)


def c10(ctx, rep, tier):
    RL.check_caps(ctx, rep, tier)


def c11(ctx, rep, tier):
    RL.check_groups(ctx, rep, tier)


def c12(ctx, rep, tier):
    RL.check_ascii(ctx, rep, tier)


def c15(ctx, rep, tier):
    RL.check_numpad(ctx, rep, tier)


def c16(ctx, rep, tier):
    RL.check_raw(ctx, rep, tier)


def c08(ctx, rep, tier):
    RPN.check_no_panic(ctx, rep, tier)


def c20(ctx, rep, tier):
    RC.check_const(ctx, rep, tier)


LT = 'MIR decision-table extraction of every KeyboardLayout impl (value-set abstract interpretation, Us104Key fall-through and Modifiers predicates inlined); '
RULES = {
    'C20': (c20, 'proof', 'compiler facts (is_const_fn, visibility) + generated compile-only no_std probe crate (const/static initialisers, Send+Sync bounds) with a compile-fail canary'),
    'C08': (c08, 'proof', 'panic-site inventory (Assert terminators, panic entry points, unreachable) + abstract interpretation of every public operation over inputs x reachable-state invariant (fixpoint over field writers); no class ends in a trap'),
    'C03': (c03, 'other', LT + 'agreement of the level-selecting cells with frozen per-standard reference tables'),
    'C09': (c09, 'proof', LT + 'relational rule between the Map and Ignore tables and the layout\'s own letter assignment (no oracle)'),
    'C10': (c10, 'proof', LT + 'relational rule between CapsLock-on and CapsLock-off cells (no oracle)'),
    'C11': (c11, 'proof', LT + 'constancy on the 32 abstract modifier classes; truth tables of the five predicates'),
    'C12': (c12, 'proof', LT + 'coverage of U+0020..U+007E by the three plain levels'),
    'C15': (c15, 'proof', LT + 'pinned outputs of the 17 numpad and 6 editing keys in every state'),
    'C16': (c16, 'proof', LT + 'raw-key identity rule on the 52 character-less keys and on every RawKey leaf'),
    'C17': (c17, 'proof', 'call-site rule on the two delegating impls with inner layouts opaque: resolved-callee identity per variant, argument pass-through, result pass-through; sibling agreement'),
    'C18': (c18, 'proof', 'per-path wiring rule on the generic Keyboard<L,S> methods with stage calls opaque (call sequence, receivers by place identity, returned value) + mutable-footprint (isolation) check'),
    'C04': (c04, 'proof', 'per-path frame/effect rule on the generic process_keyevent MIR (one-step transition of each flag) + who-may-write scan; induction over event histories'),
    'C14': (c14, 'proof', 'per-path rule on the generic process_keyevent MIR with the layout call opaque: call-site argument provenance (live &self.modifiers, self.handle_ctrl, &self.layout) and returned value'),
    'C05': (c05, 'proof', 'MIR decision-list extraction of add_word over all 11-bit words (value-set abstract interpretation) compared with the frame specification'),
    'C06': (c06, 'proof', 'symbolic-register induction: abstract interpretation of add_bit/clear over 11 abstract states with ghost bits; post-state equality with new()'),
    'C01': (c01, 'other', 'MIR decision-table extraction (value-set abstract interpretation) + table agreement with frozen IBM/MS reference'),
    'C02': (c02, 'other', 'MIR decision-table extraction (value-set abstract interpretation) + table agreement with frozen IBM/MS reference'),
    'C07': (c07, 'proof', 'must-reset-before-return path rule on the extracted transition relation + DAG bound on Ok(None) edges (induction over histories)'),
    'C13': (c13, 'other', 'sibling-table agreement of the two extracted automata modulo the frozen i8042 translation table'),
    'C19': (c19, 'proof', 'self-consistency of each extracted automaton: make/break pairing and injectivity, no oracle'),
}


def toolchain_queries(facts):
    """Things whose answer belongs to one version of the standard library rather than to the language: the size /
    alignment / name / id of library types, and the internals of the library's opaque error types (what they contain,
    whether two of them compare equal).  The analysis interprets the nightly's `core`; users link the stable one."""
    import re
    out = []
    OPAQUE = re.compile(r'^(core|std|alloc)::(num::error::|num::(TryFromIntError|ParseIntError|IntErrorKind|ParseFloatError)|char::(CharTryFromError|'
                        r'ParseCharError|TryFromCharError|DecodeUtf16Error)|str::(Utf8Error|ParseBoolError)|array::TryFromSliceError|'
                        r'any::TypeId|panic::Location|alloc::Layout|alloc::layout::Layout)')
    QUERY = re.compile(r'^(core|std)::(mem::(size_of|align_of|size_of_val|align_of_val|discriminant|needs_drop)|any::(type_name|type_name_of_val)|'
                       r'any::TypeId::of|intrinsics::(size_of|align_of|type_name|type_id|needs_drop|variant_count))')

    def walk_ty(t, acc):
        if not isinstance(t, dict):
            return
        if t.get('k') == 'adt' and OPAQUE.match(t.get('path', '')):
            acc.add(t['path'])
        for k in ('args', 'elems', 'upvars'):
            for x in t.get(k, []) or []:
                walk_ty(x, acc)
        for k in ('to', 'elem'):
            if k in t:
                walk_ty(t[k], acc)
    items = [f for f in facts['fns'] if not f.get('derived')] + [dict(c, promoted=[]) for c in facts.get('const_bodies', [])]
    for f in items:
        types, queries = set(), set()
        for body in [f['body']] + f.get('promoted', []):
            for l in body['locals']:
                walk_ty(l['ty'], types)
            for bb in body['blocks']:
                t = bb['term']
                if t['k'] == 'call':
                    fn = t['fn'].get('fn') or {}
                    pth = (fn.get('resolved') or {}).get('path') or fn.get('path', '')
                    if QUERY.match(pth):
                        nonlocal_arg = any(a.get('k') != 'adt' or not a.get('local') for a in fn.get('args', [])) or not fn.get('args')
                        if nonlocal_arg:
                            queries.add(pth)
                for st_ in bb['stmts']:
                    if st_['k'] == 'assign' and st_['rv']['k'] == 'other' and re.search(r'\b(SizeOf|AlignOf|OffsetOf)\b', st_['rv'].get('s', '')):
                        queries.add(st_['rv']['s'][:60])
        for x in sorted(types):
            out.append(('library-internals %s in %s' % (x.split('::')[-1], f['path'].split('::')[-1]),
                        '%s (at %s) handles values of the library type %s, whose contents and equality are internal to one version of the '
                        'standard library: behaviour may differ between the analysed nightly and the users\' stable toolchain; fails closed' % (f['path'], f['sp'], x)))
        for x in sorted(queries):
            out.append(('layout-query %s in %s' % (x.split('::')[-1], f['path'].split('::')[-1]),
                        '%s (at %s) asks for %s of a non-local type: the answer belongs to the toolchain, not to the crate; fails closed' % (f['path'], f['sp'], x)))
    # constants and statics too
    return out


def shadow_hazards(facts):
    """A trait method that a downstream `value.method(..)` call binds to *instead of* the inherent method of the same
    name: method probing tries `&T` receivers (inherent, then trait methods) before `&mut T`, so a trait implemented for
    `&T` (or `T`) whose method takes `self` hides an inherent `&mut self` method as soon as the trait is in scope."""
    inherent = {}
    for f in facts['fns']:
        st = f.get('impl_self') or {}
        if st.get('k') == 'adt' and not f.get('impl_trait') and f['vis'] == 'pub' and f.get('inputs'):
            first = f['inputs'][0]
            kind = 'refmut' if first.get('k') == 'ref' and first.get('mut') else ('ref' if first.get('k') == 'ref' else 'value')
            inherent.setdefault(st['path'], {})[f['name']] = kind
    out = []
    for f in facts['fns']:
        tr = f.get('impl_trait')
        st = f.get('impl_self') or {}
        if not tr or f.get('derived') or tr.startswith('core::'):
            continue
        level = 0
        base = st
        while base.get('k') == 'ref':
            base = base['to']; level += 1
        if base.get('k') != 'adt':
            continue
        ik = inherent.get(base['path'], {}).get(f['name'])
        if ik is None:
            continue
        # the trait method is found first if it is applicable at an earlier probing step than the inherent one
        first = (f.get('inputs') or [{}])[0]
        takes = 'refmut' if first.get('k') == 'ref' and first.get('mut') and level == 0 else ('ref' if first.get('k') == 'ref' and level == 0 else 'value')
        trait_step = {('value', 0): 0, ('ref', 0): 1, ('value', 1): 1, ('refmut', 0): 2}.get((takes, level), 3)
        inherent_step = {'value': 0, 'ref': 1, 'refmut': 2}[ik]
        if trait_step < inherent_step:
            out.append(('%s::%s hidden by %s' % (base['path'].split('::')[-1], f['name'], tr.split('::')[-1]),
                        'trait %s is implemented for %s%s with a method `%s` that method resolution prefers over the inherent '
                        '`%s::%s` (which takes `&mut self`) whenever the trait is in scope: callers of the documented API silently run '
                        'different code (%s); fails closed' % (tr, '&' * level, base['path'], f['name'], base['path'], f['name'], f['sp'])))
    return out


def mutation_adequacy(prop, fn):
    """Thorough tier, non-gating meta-evidence (DESIGN 3.7 iii): apply each stored mutant of this property
    to a scratch COPY of /repo's working tree, re-extract, re-run the rule, record whether it fires."""
    import glob, shutil, subprocess, tempfile
    patches = sorted(glob.glob(os.path.join(VERIF, 'seeded', prop + '-m*', 'patch.diff'))) + \
        sorted(glob.glob(os.path.join(VERIF, 'seeded2', prop + '-*', 'patch.diff'))) + \
        sorted(glob.glob(os.path.join(VERIF, 'seeded3', prop + '-q*', 'patch.diff'))) + \
        sorted(glob.glob(os.path.join(VERIF, 'selftest', prop.lower() + '_*.diff')))
    out = {'applied': 0, 'detected': 0, 'not_applicable_to_this_tree': 0, 'details': []}
    for pt in patches:
        tmp = tempfile.mkdtemp(prefix='pkv-mut-')
        try:
            dst = os.path.join(tmp, 'repo')
            shutil.copytree(REPO, dst, ignore=shutil.ignore_patterns('target', '.git'))
            base = os.path.join(os.path.dirname(pt), 'base.diff')
            if os.path.exists(base):     # mutant of a refactored tree: apply the refactoring first
                subprocess.run(['git', 'apply', '--whitespace=nowarn', base], cwd=dst, capture_output=True, text=True)
            a = subprocess.run(['git', 'apply', '--whitespace=nowarn', pt], cwd=dst, capture_output=True, text=True)
            name = os.path.relpath(pt, VERIF)
            if a.returncode != 0:
                out['not_applicable_to_this_tree'] += 1
                out['details'].append({'mutant': name, 'result': 'patch does not apply to the current tree'})
                continue
            out['applied'] += 1
            sub = Report(prop, 'thorough', 'other', 'mutant replay')
            for fl_ in ('dev', 'rel'):
                try:
                    facts = extract(fl_, repo=dst)
                    fn(Ctx(facts), sub, 'quick')
                except Undecided as e:
                    sub.undecided(str(e))
                except FactError as e:
                    sub.finding('BUILD', str(e)[:200])
                except Exception as e:
                    sub.finding('INTERNAL', repr(e))
            from .common import load_known
            known, _ = load_known()
            new = [k for k, _d in sub.findings if (prop, k) not in known]
            if new:
                out['detected'] += 1
            out['details'].append({'mutant': name, 'result': 'detected' if new else 'NOT detected', 'first_finding': new[0] if new else None})
        finally:
            shutil.rmtree(tmp, ignore_errors=True)
    return out


def run(prop, tier):
    fn, level, technique = RULES[prop]
    rep = Report(prop, tier, level, technique)
    rep.trusted = list(TRUSTED_COMMON)
    # both build flavours in both tiers: a defect hidden behind cfg(debug_assertions) / overflow behaviour
    # passes the (debug-profile) test suite but must not pass the checks
    flavours = [('dev', FLAVOURS['dev']), ('rel', FLAVOURS['rel'])]
    # build configurations the crate itself distinguishes (cfg on debug_assertions / overflow_checks / panic / features)
    # are analysed as well; predicates that cannot be varied on this host fail closed
    try:
        extra, unsupported = extra_flavours(REPO)
    except Exception as e:
        extra, unsupported = {}, ['cfg scan failed: %r' % (e,)]
    for nm, spec in extra.items():
        if not any(spec == s_ or (spec['da'], spec['oc'], spec['panic'], spec.get('features')) == (s_['da'], s_['oc'], s_['panic'], s_.get('features'))
                   for _n, s_ in flavours):
            flavours.append((nm, spec))
    if unsupported:
        rep.finding('BUILD-CFG conditional compilation on %s' % ','.join(sorted(set(unsupported))),
                    'the crate compiles different code depending on %s, which this host analysis cannot vary: a verdict about the analysed '
                    'configuration does not carry over to the others; fails closed' % sorted(set(unsupported)))
    try:
        for b in build_time_inputs(REPO):
            rep.finding('BUILD-ENV ' + b[:100], 'what is compiled depends on something outside the crate\'s sources and flags (%s), which the '
                                                'analysed compilation need not share with the users\'; fails closed' % b)
    except Exception as e:
        rep.note('build-time input scan skipped: %r' % (e,))
    # the users' toolchain is stable, the analysed MIR comes from nightly: names that resolve differently are flagged by rustc
    try:
        hits, _rc = stable_lints(REPO)
        for h in hits:
            rep.finding('BUILD-TOOLCHAIN ' + h.split(' at ')[0] + ' ' + h.split(' at ')[1].split(':')[0],
                        'the stable toolchain warns that a call resolves to a local trait method only because the like-named library method is '
                        'still unstable there; on the analysed nightly it resolves to the library method, so the analysed program differs from '
                        'what users build: %s; fails closed' % h)
        for d in toolchain_skew(REPO)[:6]:
            rep.finding('BUILD-TOOLCHAIN call resolution differs: ' + d[:110],
                        'the stable and the nightly compiler do not resolve the crate\'s calls identically (%s): the analysed nightly MIR is not '
                        'the program users build with stable; fails closed' % d)
    except Exception as e:
        rep.note('stable-toolchain lint pass skipped: %r' % (e,))
    rep.analysed['build_flavours'] = [n for n, _ in flavours]
    for fl, spec in flavours:
        rep.flavour = fl
        try:
            facts = extract(fl, spec=spec)
        except FactError as e:
            rep.finding('BUILD ' + fl, 'fact extraction failed: %s' % e)
            continue
        sub = rep
        try:
            ctx = Ctx(facts)
            rep.analysed.setdefault('flavours', []).append({
                'flavour': fl, 'mir_bodies': len(facts['fns']), 'mir_opt_level': facts['mir_opt_level'],
                'overflow_checks': facts['overflow_checks'], 'debug_assertions': facts['debug_assertions'],
                'extract_s': facts['_extract_s']})
            linked = [f['path'] for f in facts['fns'] if f.get('link_attrs')]
            if linked:
                rep.finding('BUILD-LINK fixed-name symbols %s' % ','.join(sorted(linked))[:120],
                            'functions %s are exported under fixed symbol names (no_mangle / export_name / link_section): they can replace '
                            'compiler or runtime support routines at link time, which no MIR-level analysis sees; fails closed' % sorted(linked))
            for tq in toolchain_queries(facts):
                rep.finding('BUILD-TOOLCHAIN ' + tq[0], tq[1])
            for hz in shadow_hazards(facts):
                rep.finding('API-SHADOW ' + hz[0], hz[1])
            if facts.get('_build_script'):
                rep.finding('BUILD-ENV build script', 'the crate now has a build script: what is compiled can depend on the build environment '
                                                      '(cfg flags, generated code) in ways the extracted facts do not show; fails closed')
            probes = [e['var'] for e in facts.get('env_reads', []) if not (e['var'].startswith('CARGO_PKG_') or e['var'] == 'CARGO_CRATE_NAME')]
            if probes:
                rep.finding('BUILD-ENV compile-time dependence on %s' % ','.join(sorted(set(probes))),
                            'the crate reads build-time environment variable(s) %s (env!/option_env!): what is compiled depends on the '
                            'environment of the build, so a verdict about this compilation does not carry over to other builds; fails closed' % sorted(probes))
            # wall-clock budget per flavour: an analysis that does not terminate in reasonable time (a state space the rules were not
            # written for, e.g. a decoder that caches whole (key, modifiers, result) triples) fails closed instead of hanging
            budget = int(os.environ.get('PKV_BUDGET_S') or (900 if tier == 'quick' else 6 * 3600))
            def _over(signum, frame):
                signal.setitimer(signal.ITIMER_REAL, 5)     # re-arm in case the exception is swallowed somewhere
                raise BudgetExceeded()
            old_h = signal.signal(signal.SIGALRM, _over)
            signal.setitimer(signal.ITIMER_REAL, budget)
            try:
                fn(ctx, rep, tier)
            finally:
                signal.setitimer(signal.ITIMER_REAL, 0)
                signal.signal(signal.SIGALRM, old_h)
        except BudgetExceeded:
            rep.undecided('analysis budget of %d s exceeded: the state space of this tree is beyond what the rule explores; fails closed [%s MIR]' % (budget, fl))
        except Undecided as e:
            rep.undecided('%s [%s MIR]' % (e, fl))
        except Exception as e:   # analyser bug: fail closed, loudly
            traceback.print_exc()
            rep.finding('INTERNAL ' + type(e).__name__, 'analyser error on %s MIR: %r' % (fl, e))
    rep.flavour = None
    if tier == 'thorough':
        # engine self-consistency: the hand-written callee models (Try::branch, FromResidual, Into, count_ones)
        # must give the same verdicts as inlining the library's own monomorphised MIR
        try:
            from .mirtab import Engine
            sub = Report(prop, 'thorough', 'other', 'models-only replay')
            Engine.DEFAULT_USE_EXT = False
            try:
                fn(Ctx(extract('dev')), sub, 'quick')
            except Undecided as e:
                sub.undecided(str(e))
            finally:
                Engine.DEFAULT_USE_EXT = True
            a = sorted(k for k, _ in sub.findings)
            b = sorted(k for k, _ in rep.findings if not k.startswith('UNDECIDED') or '[rel MIR]' not in k)
            b = sorted(set(k for k in b))
            same = set(a) == set(k for k in b)
            if any(k.startswith('UNDECIDED') for k in a):
                # the models alone cannot decide this tree (it uses library functions that have no hand model):
                # the cross-check does not apply
                rep.extra['models_vs_library_mir'] = {'comparable': False, 'reason': [k for k in a if k.startswith('UNDECIDED')][:2]}
                raise StopIteration
            rep.ob('callee models agree with library MIR (verdict set)', 1, 1 if same else 0)
            rep.extra['models_vs_library_mir'] = {'same_findings': same, 'obligations_models_only': sum(o[0] for o in sub.obligations.values())}
            if not same:
                rep.finding('ENGINE model-disagreement', 'verdicts differ between library-MIR inlining and callee models: %s vs %s' % (b[:3], a[:3]))
        except StopIteration:
            pass
        except Exception as e:
            rep.note('models-only replay skipped: %r' % (e,))
        try:
            ma = mutation_adequacy(prop, fn)
            rep.extra['mutation_adequacy_non_gating'] = ma
            print('mutants of %s: %d applied, %d detected, %d not applicable to this tree' % (
                prop, ma['applied'], ma['detected'], ma['not_applicable_to_this_tree']))
        except Exception as e:
            rep.note('mutant replay skipped: %r' % (e,))
    return rep.finish()


def main(argv):
    if len(argv) >= 3 and argv[2] == '--replay' or (len(argv) >= 4 and argv[2] == '--replay'):
        path = argv[3] if len(argv) > 3 else None
        if path and os.path.exists(path):
            doc = json.load(open(path))
            print('replay of %s (%s tier):' % (doc['property'], doc['tier']))
            for v in doc['violations']:
                print('  %s\n      %s' % (v['key'], v['detail']))
        return run(argv[1], 'quick')
    prop = argv[1]
    tier = argv[2] if len(argv) > 2 else os.environ.get('VERIF_TIER', 'quick')
    if prop not in RULES:
        print('unknown property', prop)
        return 2
    return run(prop, tier)


if __name__ == '__main__':
    sys.exit(main(sys.argv))
