"""Entry point:  python3 -m pkv.main <ID> [quick|thorough] [--replay FILE]"""
import json, os, sys, traceback
from .common import Report, VERIF
from .facts import extract, FactError, REPO
from .extract import Ctx
from .mirtab import Undecided
from . import rules_scancode as RS
from . import rules_ps2 as RP
from . import rules_event as RE

TRUSTED_COMMON = [
    'rustc nightly: MIR construction, type checking and callee resolution (Instance::try_resolve)',
    'pkv-mirdump: faithful serialisation of MIR/ADT facts',
    'mirtab: abstract semantics of the MIR constructs that occur + the callee-model table (Try::branch, FromResidual, Into, count_ones, panic entry points)',
]


def c01(ctx, rep, tier):
    RS.check_decode(ctx, rep, 'C01', 'set2', REPO)


def c02(ctx, rep, tier):
    RS.check_decode(ctx, rep, 'C02', 'set1', REPO)


def c07(ctx, rep, tier):
    models = RS.check_resync(ctx, rep)
    if tier == 'thorough' and models:
        RS.count_streams(models, rep, 4)


def c13(ctx, rep, tier):
    RS.check_xlat(ctx, rep)


def c19(ctx, rep, tier):
    RS.check_pairing(ctx, rep)


def c05(ctx, rep, tier):
    RP.check_frames(ctx, rep, tier)


def c06(ctx, rep, tier):
    RP.check_bitserial(ctx, rep, tier)


def c04(ctx, rep, tier):
    RE.check_modifiers(ctx, rep, tier)


def c14(ctx, rep, tier):
    RE.check_decoding(ctx, rep, tier)


RULES = {
    'C04': (c04, 'proof', 'per-path frame/effect rule on the generic process_keyevent MIR (one-step transition of each flag) + who-may-write scan; induction over event histories'),
    'C14': (c14, 'proof', 'per-path rule on the generic process_keyevent MIR with the layout call opaque: call-site argument provenance (live &self.modifiers, self.handle_ctrl, &self.layout) and returned value'),
    'C05': (c05, 'proof', 'MIR decision-list extraction of add_word over all 11-bit words (value-set abstract interpretation) compared with the frame specification'),
    'C06': (c06, 'proof', 'symbolic-register induction: abstract interpretation of add_bit/clear over 11 abstract states with ghost bits; post-state equality with new()'),
    'C01': (c01, 'other', 'MIR decision-table extraction (value-set abstract interpretation) + table agreement with frozen IBM/MS reference'),
    'C02': (c02, 'other', 'MIR decision-table extraction (value-set abstract interpretation) + table agreement with frozen IBM/MS reference'),
    'C07': (c07, 'proof', 'must-reset-before-return path rule on the extracted transition relation + DAG bound on Ok(None) edges (induction over histories)'),
    'C13': (c13, 'other', 'sibling-table agreement of the two extracted automata modulo the frozen i8042 translation table'),
    'C19': (c19, 'proof', 'self-consistency of each extracted automaton: make/break pairing and injectivity, no oracle'),
}


def run(prop, tier):
    fn, level, technique = RULES[prop]
    rep = Report(prop, tier, level, technique)
    rep.trusted = list(TRUSTED_COMMON)
    flavours = ['dev'] + (['rel'] if tier == 'thorough' else [])
    for fl in flavours:
        try:
            facts = extract(fl)
        except FactError as e:
            rep.finding('BUILD ' + fl, 'fact extraction failed: %s' % e)
            continue
        sub = rep
        try:
            ctx = Ctx(facts)
            rep.analysed.setdefault('flavours', []).append({
                'flavour': fl, 'mir_bodies': len(facts['fns']), 'mir_opt_level': facts['mir_opt_level'],
                'overflow_checks': facts['overflow_checks'], 'debug_assertions': facts['debug_assertions'],
                'extract_s': facts['_extract_s']})
            fn(ctx, rep, tier)
        except Undecided as e:
            rep.undecided('%s [%s MIR]' % (e, fl))
        except Exception as e:   # analyser bug: fail closed, loudly
            traceback.print_exc()
            rep.finding('INTERNAL ' + type(e).__name__, 'analyser error on %s MIR: %r' % (fl, e))
    return rep.finish()


def main(argv):
    if len(argv) >= 3 and argv[2] == '--replay' or (len(argv) >= 4 and argv[2] == '--replay'):
        path = argv[3] if len(argv) > 3 else None
        if path and os.path.exists(path):
            doc = json.load(open(path))
            print('replay of %s (%s tier):' % (doc['property'], doc['tier']))
            for v in doc['violations']:
                print('  %s\n      %s' % (v['key'], v['detail']))
        return run(argv[1], 'quick')
    prop = argv[1]
    tier = argv[2] if len(argv) > 2 else os.environ.get('VERIF_TIER', 'quick')
    if prop not in RULES:
        print('unknown property', prop)
        return 2
    return run(prop, tier)


if __name__ == '__main__':
    sys.exit(main(sys.argv))
