"""Rules C17 (AnyLayout delegation) and C18 (Keyboard wiring / stage isolation)."""
from .mirtab import Engine, Undecided, check_partition, term_str
from .extract import leaf_where, value_atoms, iter_bodies
from .rules_event import find_generic_method, field_index, _St

R, O = 'core::result::Result', 'core::option::Option'


# ---------------------------------------------------------------------------
# C17

def check_anylayout(ctx, rep, tier):
    from .rules_event import check_clone_faithful
    check_clone_faithful(ctx, rep, ('AnyLayout',))     # a copy of the wrapper selects the same layout
    impls = ctx.layout_impls()
    concrete = {path: name for name, ty, path, wrapper in impls if not wrapper}
    wrappers = [(name, ty, path) for name, ty, path, wrapper in impls if wrapper]
    rep.floor('AnyLayout wrapper impls', len(wrappers), 2)
    any_adt = None
    for a in ctx.facts['adts']:
        if a['path'].split('::')[-1] == 'AnyLayout' and a['kind'] == 'enum':
            any_adt = a
    if any_adt is None:
        rep.finding('C17 anchor AnyLayout', 'enum AnyLayout not found')
        return
    nvar = len(any_adt['variants'])
    rep.floor('AnyLayout variants', nvar, 10)
    arms = 0
    noted = set()
    per_wrapper_variants = {}
    _tabs = {}

    def behavioural(wname, wpath, tag, v, inner_path):
        """True when the wrapper, with `self` fixed to variant v and nothing kept opaque, has the same dense table as the wrapped
        layout; a short description of the difference otherwise; None when it cannot be decided."""
        from .extract import extract_layout
        try:
            if inner_path not in _tabs:
                _tabs[inner_path] = extract_layout(ctx, inner_path, inner_path)
            key_ = (wpath, v)
            if key_ not in _tabs:
                _tabs[key_] = extract_layout(ctx, '%s#%d' % (wname, v), wpath, arg_doms={tag: [v]})
            a_, b_ = _tabs[key_].out, _tabs[inner_path].out
            if len(a_) != len(b_):
                return None
            diff = [i for i in range(len(a_)) if a_[i] != b_[i]]
            if not diff:
                return True
            return '%d of %d cells differ from the wrapped layout' % (len(diff), len(a_))
        except Undecided as u:
            return None
    for name, ty, path in wrappers:
        by_ref = ty['k'] == 'ref'
        eng = Engine(ctx.prog, opaque=set(concrete))
        try:
            leaves = eng.run(path, arg_names=['self', 'keycode', 'modifiers', 'handle_ctrl'])
        except Undecided as u:
            if 'ret:map_keycode' in str(u):
                rep.ob('delegation arms', 1, 0)
                rep.finding('C17 %s inspects-the-wrapped-result' % ('by-ref' if by_ref else 'by-value'),
                            'the wrapper branches on what the wrapped layout returned instead of passing it through (%s)' % u)
                continue
            raise
        check_partition(eng, leaves)
        # locate the enum value and its tag atom
        cellname = ('H', 'self^') if by_ref else ('H', 'self')
        enum0 = eng.initial_store.get(cellname)
        if enum0 is None or enum0[0] != 'se' or enum0[1] != any_adt['path']:
            raise Undecided('wrapper %s: self is not an AnyLayout value' % name)
        tag = enum0[2][1]
        seen = set()
        rep.analysed[name] = {'fn': path, 'path_classes': len(leaves), 'engine': dict(eng.stats)}
        for lf in leaves:
            vs = sorted(lf.doms[tag])
            for v in vs:
                var = any_adt['variants'][v]
                vname = var['name']
                key = 'C17 %s variant=%s' % ('by-ref' if by_ref else 'by-value', vname)
                if lf.kind != 'return':
                    rep.ob('delegation arms', 1, 0)
                    rep.finding(key + ' panics', leaf_where(lf))
                    continue
                if len(var['fields']) != 1 or var['fields'][0]['ty'].get('k') != 'adt' \
                        or ('<%s as KeyboardLayout>::map_keycode' % var['fields'][0]['ty']['path']) not in concrete:
                    # not one of the shipped layouts (an extension variant): outside the property's ten layouts
                    if (name, vname) not in noted:
                        noted.add((name, vname))
                        rep.note('AnyLayout variant %s does not wrap a shipped layout type - not judged' % vname)
                    continue
                pty = var['fields'][0]['ty']['path']
                want_callee = '<%s as KeyboardLayout>::map_keycode' % pty
                problems = []
                if len(lf.calls) != 1:
                    problems.append('%d layout calls instead of exactly one' % len(lf.calls))
                else:
                    c = lf.calls[0]
                    if c['resolved'] != want_callee:
                        problems.append('delegates to %s instead of its own payload type %s' % (c['resolved'], pty.split('::')[-1]))
                    a = c['args']
                    if len(a) != 4:
                        problems.append('wrong number of arguments')
                    else:
                        payload_adt = ctx.prog.adt(pty)
                        is_unit = payload_adt['kind'] == 'struct' and not payload_adt['variants'][0]['fields']
                        rcv_ok = a[0][0] == 'ref' and a[0][1] == cellname and tuple(a[0][2]) == (('d', v), ('f', 0))
                        if not rcv_ok and is_unit and a[0][0] == 'ref' and len(a[0]) > 3 and a[0][3] == ('adt', pty, 0, ()):
                            rcv_ok = True   # a zero-sized unit layout has a single value: any instance is the wrapped one
                        if not rcv_ok:
                            problems.append('receiver is not the wrapped value but %s' % term_str(a[0][:3]))
                        if a[1] != ('a', 'keycode', 'E:KeyCode'):
                            problems.append('key code is altered before delegation: %s' % term_str(a[1]))
                        if not (a[2][0] == 'ref' and a[2][1] == ('H', 'modifiers') and tuple(a[2][2]) == ()):
                            problems.append('modifiers argument is not the caller\'s: %s' % term_str(a[2][:3]))
                        else:
                            init = eng.deep(eng.initial_store[('H', 'modifiers')], _St(lf.doms))
                            if c['heap_before'][('H', 'modifiers')] != init:
                                problems.append('modifier set altered before delegation')
                        if a[3] != ('a', 'handle_ctrl', 'E:HandleControl'):
                            problems.append('Ctrl mode is altered before delegation: %s' % term_str(a[3]))
                    if lf.ret != c['ret'] and eng.deep(lf.ret, _St(lf.doms)) != eng.deep(c['ret'], _St(lf.doms)):
                        problems.append('result of the wrapped layout is not returned unchanged: %s' % term_str(lf.ret))
                # leaves that restrict other inputs mean the wrapper treats some inputs specially
                if vname != pty.split('::')[-1]:
                    problems.append('variant %s wraps type %s (naming contract)' % (vname, pty.split('::')[-1]))
                if problems:
                    narrowed = [n for n in ('keycode', 'handle_ctrl') if len(lf.doms[n]) != len(eng.full_doms[n])]
                    extra = ''
                    if narrowed:
                        extra = ' [for inputs %s]' % ', '.join(
                            '%s in {%s}' % (n, ','.join((ctx.keycodes[x] if n == 'keycode' else str(x)) for x in sorted(lf.doms[n])[:6]) + ('...' if len(lf.doms[n]) > 6 else ''))
                            for n in narrowed)
                    # the structural rule is a proxy: before reporting, decide the arm behaviourally - the dense table of the wrapper
                    # with `self` fixed to this variant (wrapped layout inlined) against the wrapped layout's own table
                    verdict = behavioural(name, path, tag, v, want_callee)
                    if verdict is True:
                        rep.ob('delegation arms', 1)
                        if (name, v) not in seen:
                            arms += 1
                        seen.add((name, v))
                        if (name, vname, 'beh') not in noted:
                            noted.add((name, vname, 'beh'))
                            rep.note('%s: not a plain delegation (%s) but its table equals the wrapped layout\'s in all cells' % (key, problems[0][:80]))
                        continue
                    rep.ob('delegation arms', 1, 0)
                    rep.finding('%s %s' % (key, problems[0].split(':')[0][:80]), '; '.join(problems) + extra + ('; tables compared: %s' % verdict if verdict else '') + '; ' + leaf_where(lf))
                else:
                    rep.ob('delegation arms', 1)
                    if (name, v) not in seen:
                        arms += 1
                    seen.add((name, v))
                    if len(rep.samples) < 4:
                        rep.sample({'wrapper': name, 'variant': vname, 'call': lf.calls[0]['resolved'], 'at': lf.calls[0]['sp'],
                                    'args': [term_str(a[:3]) if a[0] == 'ref' else term_str(a) for a in lf.calls[0]['args']]})
        per_wrapper_variants[name] = seen
    judged = [v for v in any_adt['variants'] if len(v['fields']) == 1 and v['fields'][0]['ty'].get('k') == 'adt'
              and ('<%s as KeyboardLayout>::map_keycode' % v['fields'][0]['ty']['path']) in concrete]
    rep.floor('AnyLayout variants wrapping shipped layouts', len(judged), 10)
    rep.floor('correct delegation arms', arms, 2 * len(judged))
    rep.nontrivial = arms
    # every shipped layout is selectable through the wrapper
    wrapped = {v['fields'][0]['ty'].get('path') for v in any_adt['variants'] if v['fields']}
    for path, nm in concrete.items():
        ty = [t for n, t, p, w in impls if p == path][0]
        if ty.get('path') not in wrapped:
            rep.note('layout %s has no AnyLayout variant' % nm)
    rep.rule = ('for each AnyLayout variant x each wrapper impl: exactly one call, resolved callee = <payload type as KeyboardLayout>::map_keycode, '
                'receiver = the payload place, other arguments = the wrapper\'s own parameters unmodified, result returned unchanged; '
                'sibling agreement of the two impls; non-trivial = correct arms')


# ---------------------------------------------------------------------------
# C18

def check_keyboard(ctx, rep, tier):
    prog = ctx.prog
    KB = 'Keyboard'
    a = prog.adt(KB)
    i_ps2 = field_index(ctx, KB, ty_path='Ps2Decoder')
    i_ed = field_index(ctx, KB, ty_path='EventDecoder')
    i_ss = field_index(ctx, KB, ty_kind='param')
    if len(i_ps2) != 1 or len(i_ed) != 1 or len(i_ss) != 1:
        raise Undecided('Keyboard no longer consists of exactly one frame decoder, one scancode set and one event decoder')
    i_ps2, i_ed, i_ss = i_ps2[0], i_ed[0], i_ss[0]
    stage_name = {i_ps2: 'frame decoder', i_ss: 'scancode decoder', i_ed: 'event decoder'}
    for i, fl in enumerate(a['variants'][0]['fields']):
        if fl['vis'] == 'pub':
            rep.finding('C18 public-stage-field %s' % fl['name'], 'Keyboard.%s became public: stages are no longer isolated' % fl['name'])
    rep.ob('stage fields private', 3)
    if len(a['variants'][0]['fields']) != 3:
        rep.note('Keyboard has %d fields besides the three stages (not judged)' % (len(a['variants'][0]['fields']) - 3))

    def m(adt, name):
        return find_generic_method(ctx, adt, name)['path']
    P_BIT, P_WORD, P_CLEAR = m('Ps2Decoder', 'add_bit'), m('Ps2Decoder', 'add_word'), m('Ps2Decoder', 'clear')
    E_PROC, E_SET, E_GET = m('EventDecoder', 'process_keyevent'), m('EventDecoder', 'set_ctrl_handling'), m('EventDecoder', 'get_ctrl_handling')
    opaque = {P_BIT, P_WORD, P_CLEAR, E_PROC, E_SET, E_GET}
    ADV = 'ScancodeSet::advance_state'

    def ref_to(field):
        return lambda v: v is not None and v[0] == 'ref' and v[1] == ('H', 'self') and tuple(v[2]) == (('f', field),)

    def run(name):
        f = find_generic_method(ctx, KB, name)
        if f['vis'] != 'pub':
            rep.finding('C18 %s not-public' % name, 'Keyboard::%s is not public' % name)
        eng = Engine(prog, opaque=opaque)
        leaves = eng.run(f['path'])
        check_partition(eng, leaves)
        init = eng.initial_store[('H', 'self')]
        rep.analysed[name] = {'fn': f['path'], 'path_classes': len(leaves), 'engine': dict(eng.stats)}
        return f, eng, leaves, init

    # observer-only fields of a stage (frame / error counters with getters: section 11) are not part of what the stage *is*: the glue
    # may feed them (`self.ps2_decoder.record(checked)` in a `Keyboard::add_word` that counts frames - refactors/FC08-p2)
    from .extract import observer_fields
    from .rules_event import KNOWN_API
    obs = {i_ps2: observer_fields(ctx, 'Ps2Decoder', KNOWN_API), i_ed: observer_fields(ctx, 'EventDecoder', KNOWN_API)}

    def norm(i, v):
        if v is not None and v[0] == 'adt' and obs.get(i):
            return v[:3] + (tuple(('c', 0, 'observer') if k in obs[i] else x for k, x in enumerate(v[3])),)
        return v

    def untouched(eng, lf, init, fields, name, what):
        fin = lf.cells[('H', 'self')]
        ini = eng.deep(init, _St(lf.doms))
        for i in fields:
            if norm(i, fin[3][i]) != norm(i, ini[3][i]):
                rep.ob('isolation', 1, 0)
                rep.finding('C18 %s touches %s' % (name, stage_name[i]),
                            'Keyboard::%s %s modifies the %s, a stage it does not feed (%s); %s' % (
                                name, what, stage_name[i],
                                ', '.join('%s at %s' % (e[0], e[3]) for e in lf.events if e[0] in ('havoc', 'write', 'mutborrow'))[:300],
                                leaf_where(lf)))
            else:
                rep.ob('isolation', 1)

    def integrity(eng, lf, init, name):
        """The stages change only THROUGH the stage calls: before every stage call each stage holds what the previous
        stage call (or the caller) left there, and at the end likewise - no direct writes by the Keyboard glue."""
        S = _St(lf.doms)
        cur = list(eng.deep(init, S)[3])
        bad = None
        for c in lf.calls:
            hb = c['heap_before'].get(('H', 'self'))
            hb = eng.deep(hb, S) if hb is not None else None
            if hb is None or hb[0] != 'adt':
                bad = 'the Keyboard value could not be followed up to the call at %s' % c['sp']
                break
            for i in (i_ps2, i_ss, i_ed):
                if norm(i, hb[3][i]) != norm(i, cur[i]):
                    bad = 'the %s is written directly before the stage call at %s' % (stage_name[i], c['sp'])
                    break
            if bad:
                break
            for cell, pth, new in c.get('havoc_after', []):
                if cell == ('H', 'self') and len(pth) == 1 and pth[0][0] == 'f' and pth[0][1] in (i_ps2, i_ss, i_ed):
                    cur[pth[0][1]] = eng.deep(new, S)
                elif cell == ('H', 'self'):
                    bad = 'a stage call receives a mutable reference to %s instead of to one whole stage' % (list(pth),)
        if bad is None:
            fin = lf.cells[('H', 'self')]
            for i in (i_ps2, i_ss, i_ed):
                if norm(i, fin[3][i]) != norm(i, cur[i]):
                    bad = 'the %s is written directly after the last stage call' % stage_name[i]
                    break
        rep.ob('stages change only through their own calls', 1, 0 if bad else 1)
        if bad:
            rep.finding('C18 %s writes-a-stage-directly' % name, 'Keyboard::%s: %s; %s' % (name, bad, leaf_where(lf)))

    def differs(eng, lf, a_, b_):
        """two values differ, once both are resolved under the path class's final constraints (a result inspected by the glue
        - `if let Ok(Some(ev)) = &result` - is the same result, merely seen with its variant decided)"""
        S = _St(lf.doms)
        try:
            return eng.deep(a_, S) != eng.deep(b_, S)
        except Undecided:
            return a_ != b_

    def call_is(c, callee, argchecks):
        if (c['resolved'] or c['callee']) != callee:
            return 'calls %s where %s is expected' % (c['resolved'] or c['callee_inst'], callee)
        if len(c['args']) != len(argchecks):
            return 'call to %s has %d arguments' % (callee, len(c['args']))
        for i, (a_, chk) in enumerate(zip(c['args'], argchecks)):
            if not chk(a_):
                return 'argument %d of the call to %s is %s' % (i, callee.split('::')[-1], term_str(a_[:3] if a_ and a_[0] == 'ref' else a_))
        return None

    def wiring(name, ok, why, lf):
        rep.ob('wiring', 1, 1 if ok else 0)
        if not ok:
            rep.finding('C18 %s %s' % (name, why.split(' (')[0][:100]), 'Keyboard::%s: %s; %s' % (name, why, leaf_where(lf) if lf else ''))

    def is_atom(n):
        return lambda v: v is not None and v[0] == 'a' and v[1] == n

    def eq(x):
        return lambda v: v == x

    # ---- new(): the three stages start in their own initial conditions, parameters are installed as given
    fnew = find_generic_method(ctx, KB, 'new')
    e0 = Engine(prog)
    lv0 = e0.run(fnew['path'])
    okn = len(lv0) == 1 and lv0[0].kind == 'return' and lv0[0].ret is not None and lv0[0].ret[0] == 'adt'
    why = ''
    if okn:
        kb = lv0[0].ret
        argv = [e0.deep(e0.initial_store[('L', 0, i)], _St(lv0[0].doms)) for i in (1, 2, 3)]
        eps = Engine(prog); ps0 = eps.run(m('Ps2Decoder', 'new'))[0].ret
        if kb[3][i_ps2] != ps0:
            okn, why = False, 'frame decoder does not start as Ps2Decoder::new() (%s)' % term_str(kb[3][i_ps2])
        elif kb[3][i_ss] not in argv:
            okn, why = False, 'scancode set given to new() is not installed unchanged'
        else:
            eed = Engine(prog)
            ed0 = eed.run(find_generic_method(ctx, 'EventDecoder', 'new')['path'])[0].ret
            ed = kb[3][i_ed]
            # compare field-wise: constants must agree, parameters must be new()'s parameters
            for a_, b_ in zip(ed[3], ed0[3]):
                if b_[0] in ('c',) or (b_[0] in ('adt', 'arr') and not value_atoms(b_)):
                    if a_ != b_:
                        okn, why = False, 'event decoder does not start as EventDecoder::new(..) (%s)' % term_str(ed)
                elif a_ not in argv:
                    okn, why = False, 'layout / Ctrl mode given to new() is not installed unchanged (%s)' % term_str(a_)
    else:
        why = 'not a single straight path'
    rep.ob('wiring', 1, 1 if okn else 0)
    if not okn:
        rep.finding('C18 new %s' % why.split(' (')[0][:80], 'Keyboard::new: %s; %s' % (why, leaf_where(lv0[0]) if lv0 else ''))
    # ---- add_byte ----------------------------------------------------------
    f, eng, leaves, init = run('add_byte')
    for lf in leaves:
        if lf.kind != 'return':
            wiring('add_byte', False, 'can panic', lf); continue
        why = None
        if len(lf.calls) != 1:
            why = '%d stage calls instead of one' % len(lf.calls)
        else:
            why = call_is(lf.calls[0], ADV, [ref_to(i_ss), is_atom('byte')])
            if why is None and differs(eng, lf, lf.ret, lf.calls[0]['ret']):
                why = 'does not return the scancode decoder\'s result unchanged (%s)' % term_str(lf.ret)
        wiring('add_byte', why is None, why or '', lf)
        untouched(eng, lf, init, [i_ps2, i_ed], 'add_byte', '')
        integrity(eng, lf, init, 'add_byte')
    # ---- add_word ----------------------------------------------------------
    f, eng, leaves, init = run('add_word')
    kinds = set()
    for lf in leaves:
        if lf.kind != 'return':
            wiring('add_word', False, 'can panic', lf); continue
        why = None
        if not lf.calls:
            why = 'the frame check is not consulted'
        else:
            c0 = lf.calls[0]
            why = call_is(c0, P_WORD, [ref_to(i_ps2), is_atom('word')])
            if why is None:
                tag = c0['ret'][2][1]
                tv = sorted(lf.doms[tag])
                if tv == [1]:     # Err(e): dropped, no scancode call
                    kinds.add('err')
                    if len(lf.calls) != 1:
                        why = 'a frame rejected by the frame check still reaches the scancode decoder'
                    elif differs(eng, lf, lf.ret, ('adt', R, 1, c0['ret'][3][1])):
                        why = 'a framing error is not returned as that error (%s)' % term_str(lf.ret)
                    untouched(eng, lf, init, [i_ps2, i_ss, i_ed], 'add_word', 'on a rejected frame')
                elif tv == [0]:
                    kinds.add('ok')
                    if len(lf.calls) != 2:
                        why = 'an accepted frame leads to %d stage calls instead of frame check + scancode decoder' % len(lf.calls)
                    else:
                        byte = c0['ret'][3][0][0]
                        why = call_is(lf.calls[1], ADV, [ref_to(i_ss), eq(byte)])
                        if why is None and differs(eng, lf, lf.ret, lf.calls[1]['ret']):
                            why = 'does not return the scancode decoder\'s result unchanged'
                    untouched(eng, lf, init, [i_ps2, i_ed], 'add_word', 'on an accepted frame')
                else:
                    why = 'does not distinguish accepted from rejected frames'
        wiring('add_word', why is None, why or '', lf)
        integrity(eng, lf, init, 'add_word')
    wiring('add_word', kinds == {'err', 'ok'}, 'accepted/rejected paths found: %s' % sorted(kinds), None)
    # ---- add_bit -----------------------------------------------------------
    f, eng, leaves, init = run('add_bit')
    kinds = set()
    for lf in leaves:
        if lf.kind != 'return':
            wiring('add_bit', False, 'can panic', lf); continue
        why = None
        if not lf.calls:
            why = 'the frame decoder is not fed'
        else:
            c0 = lf.calls[0]
            why = call_is(c0, P_BIT, [ref_to(i_ps2), is_atom('bit')])
            if why is None:
                tag = c0['ret'][2][1]
                tv = sorted(lf.doms[tag])
                if tv == [1]:
                    kinds.add('err')
                    if len(lf.calls) != 1:
                        why = 'a framing error still reaches the scancode decoder'
                    elif differs(eng, lf, lf.ret, ('adt', R, 1, c0['ret'][3][1])):
                        why = 'a framing error from the bit decoder is not returned as that error (returns %s)' % term_str(lf.ret)
                    untouched(eng, lf, init, [i_ss, i_ed], 'add_bit', 'on a framing error')
                elif tv == [0]:
                    opt = c0['ret'][3][0][0]
                    otag = opt[2][1]
                    ov = sorted(lf.doms[otag])
                    if ov == [0]:
                        kinds.add('none')
                        if len(lf.calls) != 1:
                            why = 'an incomplete frame reaches the scancode decoder'
                        elif differs(eng, lf, lf.ret, ('adt', R, 0, (('adt', O, 0, ()),))):
                            why = 'an incomplete frame does not return Ok(None) (returns %s)' % term_str(lf.ret)
                        untouched(eng, lf, init, [i_ss, i_ed], 'add_bit', 'on an incomplete frame')
                    elif ov == [1]:
                        kinds.add('some')
                        if len(lf.calls) != 2:
                            why = 'a completed frame leads to %d stage calls' % len(lf.calls)
                        else:
                            byte = opt[3][1][0]
                            why = call_is(lf.calls[1], ADV, [ref_to(i_ss), eq(byte)])
                            if why is None and differs(eng, lf, lf.ret, lf.calls[1]['ret']):
                                why = 'does not return the scancode decoder\'s result unchanged'
                        untouched(eng, lf, init, [i_ed], 'add_bit', 'on a completed frame')
                    else:
                        why = 'does not distinguish complete from incomplete frames'
                else:
                    why = 'does not distinguish framing errors from progress'
        wiring('add_bit', why is None, why or '', lf)
        integrity(eng, lf, init, 'add_bit')
    wiring('add_bit', kinds == {'err', 'none', 'some'}, 'paths found: %s' % sorted(kinds), None)
    # ---- single forwarding methods -----------------------------------------
    for name, callee, args, touched, returns_call in (
            ('process_keyevent', E_PROC, [ref_to(i_ed), None], [i_ps2, i_ss], True),
            ('clear', P_CLEAR, [ref_to(i_ps2)], [i_ss, i_ed], False),
            ('set_ctrl_handling', E_SET, [ref_to(i_ed), None], [i_ps2, i_ss], False),
            ('get_ctrl_handling', E_GET, [ref_to(i_ed)], [i_ps2, i_ss, i_ed], True)):
        f, eng, leaves, init = run(name)
        for lf in leaves:
            if lf.kind != 'return':
                wiring(name, False, 'can panic', lf); continue
            why = None
            if len(lf.calls) != 1:
                why = '%d stage calls instead of one' % len(lf.calls)
            else:
                chks = []
                for i, ck in enumerate(args):
                    if ck is None:
                        argv = eng.deep(eng.initial_store[('L', 0, i + 1)], _St(lf.doms))
                        chks.append(eq(argv))
                    else:
                        chks.append(ck)
                why = call_is(lf.calls[0], callee, chks)
                if why is None and returns_call and differs(eng, lf, lf.ret, lf.calls[0]['ret']):
                    why = 'does not return the stage\'s result unchanged'
            wiring(name, why is None, why or '', lf)
            untouched(eng, lf, init, touched, name, '')
            integrity(eng, lf, init, name)
    # ---- the stages themselves cannot reach beyond their own state ----------
    statics = [s['path'] for s in ctx.facts.get('statics', []) if s.get('mutable') or not s.get('freeze', False)]
    unsafe_fns = [f['path'] for f in ctx.facts['fns'] if f['unsafe']]
    unsafe_calls = []
    for f in ctx.facts['fns']:
        if f.get('derived'):
            continue
        for body in iter_bodies(f):
            for bb in body['blocks']:
                t = bb['term']
                if t['k'] == 'call' and t['fn'].get('fn', {}).get('unsafe') and not t['x']:
                    unsafe_calls.append('%s -> %s' % (f['path'], t['fn']['fn']['path']))
    rep.ob('no shared mutable state outside the stage objects', 1, 0 if (statics or unsafe_fns or unsafe_calls) else 1)
    if statics or unsafe_fns or unsafe_calls:
        rep.finding('C18 shared-state', 'static items / unsafe code found: %s %s %s' % (statics, unsafe_fns, unsafe_calls[:5]))
    # unknown public methods: report (not judged)
    known = {'new', 'get_modifiers', 'set_ctrl_handling', 'get_ctrl_handling', 'clear', 'add_word', 'add_byte', 'add_bit', 'process_keyevent'}
    for f in ctx.facts['fns']:
        st = f.get('impl_self')
        if st and st.get('path') == KB and not f.get('impl_trait') and f['vis'] == 'pub' and f['name'] not in known:
            rep.note('Keyboard has a public method the property does not list: %s (not judged)' % f['name'])
    rep.nontrivial = sum(v[0] for k, v in rep.obligations.items() if k == 'wiring')
    rep.sample({'add_bit': 'Ps2Decoder::add_bit(&mut self.ps2_decoder, bit) -> Err(e): return Err(e) | Ok(None): return Ok(None) | Ok(Some(b)): S::advance_state(&mut self.scancode_set, b)'})
    rep.sample({'add_word': 'Ps2Decoder::add_word(&self.ps2_decoder, word) -> Err(e): return Err(e), no scancode call | Ok(b): S::advance_state(&mut self.scancode_set, b)'})
    rep.rule = ('per path class of each generic Keyboard<L,S> method with stage calls opaque: the sequence of stage calls, their receivers/arguments '
                '(by place identity) and the returned value match the three-stages-in-sequence wiring; fields of stages the method does not feed are '
                'structurally unchanged (mutable footprint); stage integrity: before every stage call and at the end each stage field holds exactly what '
                'the previous stage call (its havoc value) or the caller left there - the glue never writes a stage directly; no statics / unsafe; '
                'non-trivial = wiring obligations')
