"""Shared extraction helpers built on mirtab: program context, layout tables,
scancode automata, footprint scans."""
import itertools, time
from .mirtab import (INT_TYPES as INT_TYPES_, Program, Engine, Undecided, atoms_in, ev, term_str, check_partition,
                     is_scalar, C)

KL_TRAIT = 'KeyboardLayout'
SS_TRAIT = 'ScancodeSet'

PANIC = -1          # table cell: this input class ends in a panic / unreachable
RAW_BASE = 0x200000  # table cell encoding: RawKey(k) = RAW_BASE + k ; Unicode(c) = c


class Ctx:
    def __init__(self, facts):
        self.facts = facts
        self.prog = Program(facts)
        p = self.prog
        self.keycodes = [v['name'] for v in p.adt('KeyCode')['variants']]
        self.kc = {n: i for i, n in enumerate(self.keycodes)}
        self.keystates = [v['name'] for v in p.adt('KeyState')['variants']]
        self.ks = {n: i for i, n in enumerate(self.keystates)}
        self.errors = [v['name'] for v in p.adt('Error')['variants']]
        self.err = {n: i for i, n in enumerate(self.errors)}
        ds_adt = [a for a in facts['adts'] if a['path'].split('::')[-1] == 'DecodeState']
        self.dstates = [v['name'] for v in ds_adt[0]['variants']] if ds_adt else []   # display only
        self.ds = {n: i for i, n in enumerate(self.dstates)}
        KNOWN_FLAGS = ('lshift', 'rshift', 'lctrl', 'rctrl', 'numlock', 'capslock', 'lalt', 'ralt', 'rctrl2')
        self.allmodfields = [f['name'] for f in p.adt('Modifiers')['variants'][0]['fields']]   # struct order
        self.allmf = {n: i for i, n in enumerate(self.allmodfields)}
        # the nine flags the properties talk about (table bit positions follow their order in the struct);
        # a flag added later is carried along but must not influence anything the properties constrain
        self.modfields = [n for n in self.allmodfields if n in KNOWN_FLAGS]
        self.extra_modfields = [n for n in self.allmodfields if n not in KNOWN_FLAGS]
        missing = [n for n in KNOWN_FLAGS if n not in self.allmodfields]
        if missing:
            raise Undecided('Modifiers lost the public flag(s) %s' % missing)
        self.mf = {n: i for i, n in enumerate(self.modfields)}
        self.hc = {v['name']: v['idx'] for v in p.adt('HandleControl')['variants']}
        self.dk = {v['name']: v['idx'] for v in p.adt('DecodedKey')['variants']}

    # ---- impl index --------------------------------------------------------
    TRAIT_METHOD = {'KeyboardLayout': 'map_keycode', 'ScancodeSet': 'advance_state'}

    def trait_impls(self, trait):
        """[(self_str, self_ty, method path)] for every impl of the (local) trait - the method the properties speak about
        (a trait may grow further methods; they are not that method)."""
        out = []
        want = self.TRAIT_METHOD.get(trait.split('::')[-1])
        for im in self.facts['impls']:
            if im.get('trait') == trait:
                for it in im['items']:
                    if it['is_fn'] and (want is None or it['name'] == want):
                        out.append((im['self_str'], im['self_ty'], it['path'], im['sp']))
        return out

    def layout_impls(self):
        """All KeyboardLayout impls: (short name, self_ty, fn path, is_wrapper)."""
        out = []
        generic = []
        for self_str, ty, path, sp in self.trait_impls(KL_TRAIT):
            if Program.has_param(ty):
                generic.append((self_str, ty, path))      # a blanket impl (`impl<L: KeyboardLayout + ?Sized> KeyboardLayout for &L`)
                continue
            short = self_str.split('::')[-1]
            wrapper = 'AnyLayout' in self_str
            out.append((self_str if wrapper else short, ty, path, wrapper))
        # `&AnyLayout` as a layout: its own impl, or the instance of a blanket impl for references
        byval = [ty for n, ty, p, w in out if w and ty.get('k') == 'adt']
        if byval and not any(w and ty.get('k') == 'ref' for n, ty, p, w in out):
            want = {'k': 'ref', 'mut': False, 'to': byval[0]}
            for self_str, ty, path in generic:
                binds = {}
                if Program.unify_ty(ty, want, binds):
                    tp = self.prog.fns.get(path, {}).get('tparams') or []
                    if all(n in binds for n in tp):
                        if not hasattr(self.prog, 'entry_targs'):
                            self.prog.entry_targs = {}
                        self.prog.entry_targs[path] = {n: binds[n] for n in tp}
                        out.append(('&AnyLayout', want, path, True))
                        break
        return out

    def fn(self, path):
        f = self.prog.fns.get(path)
        if f is None:
            raise Undecided('anchor function %s not found in the crate' % path)
        return f


# ---------------------------------------------------------------------------
# native (python) form of resolved values

def conc(v, asg=None):
    """Concrete python form of a deep-resolved value under assignment asg."""
    if v is None:
        return None
    k = v[0]
    if k == 'c':
        return v[1]
    if k in ('a', 't'):
        if asg is None:
            raise Undecided('value depends on inputs: ' + term_str(v))
        return ev(v, asg)
    if k == 'adt':
        return (v[1], v[2], tuple(conc(x, asg) for x in v[3]))
    if k == 'arr':
        return ('arr', tuple(conc(x, asg) for x in v[1]))
    if k == 'ref':
        return ('ref', v[1], v[2])
    if k == 'op':
        return ('op', v[1])
    if k == 'se':
        return ('se', v[1])
    return v


def value_atoms(v, acc=None):
    if acc is None:
        acc = []
    if v is None:
        return acc
    k = v[0]
    if k in ('a', 't'):
        atoms_in(v, acc)
    elif k == 'adt':
        for x in v[3]:
            value_atoms(x, acc)
    elif k == 'arr':
        for x in v[1]:
            value_atoms(x, acc)
    elif k == 'se':
        atoms_in(v[2], acc)
    elif k == 'ref' and len(v) > 3:
        value_atoms(v[3], acc)
    return acc


def span_line(sp):
    """'src/lib.rs:594:9-594:27' -> 'src/lib.rs:594'"""
    if not sp:
        return '?'
    parts = sp.split(':')
    return parts[0] + ':' + parts[1] if len(parts) > 1 else sp


def leaf_where(lf):
    """Human-readable provenance of a leaf: arm that produced the result + last decisions."""
    bits = []
    if lf.panic:
        bits.append('panics at %s in %s (%s)' % (span_line(lf.panic[2]), lf.panic[3], lf.panic[0]))
    if lf.ret_span:
        bits.append('result built at %s in %s' % (span_line(lf.ret_span[1]), lf.ret_span[0]))
    if lf.trace:
        last = lf.trace[-3:]
        bits.append('via branches ' + ' > '.join(span_line(t[1]) for t in last))
    return '; '.join(bits)


# ---------------------------------------------------------------------------
# layouts

class LayoutTable:
    """Dense decision table of one `map_keycode` over keycode x 9 flags x mode."""

    def __init__(self, ctx, name, fn_path, leaves, engine):
        self.ctx = ctx
        self.name = name
        self.fn_path = fn_path
        self.leaves = leaves
        nk = len(ctx.keycodes)
        self.nk = nk
        # one slot per Ctrl-handling mode the enum has (the properties speak about two; a mode added later gets cells too,
        # which no rule reads)
        self.nm = nm = max(2, len(ctx.hc))
        self.stride = 512 * nm
        self.out = [None] * (nk * self.stride)
        self.leaf_of = [None] * (nk * self.stride)
        self.n_classes = len(leaves)
        names = ['keycode'] + ['modifiers.' + f for f in ctx.modfields] + ['handle_ctrl']
        self.engine_stats = dict(engine.stats)
        for lf in leaves:
            for x in ctx.extra_modfields:
                d = lf.doms.get('modifiers.' + x)
                if d is not None and len(d) != 2:
                    raise Undecided('layout %s depends on the modifier flag `%s`, which the properties do not know' % (name, x))
        for li, lf in enumerate(leaves):
            if lf.kind == 'return':
                r = lf.ret
                if value_atoms(r):
                    code = None  # per-cell
                else:
                    code = self.encode(conc(r))
            else:
                code = PANIC
            doms = [sorted(lf.doms[n]) for n in names]
            mods_iter = list(itertools.product(*doms[1:10]))
            mod_idx = [sum(b << i for i, b in enumerate(m)) for m in mods_iter]
            for k in doms[0]:
                base = k * self.stride
                for mi, m in zip(mod_idx, mods_iter):
                    for h in doms[10]:
                        idx = base + mi * nm + h
                        if self.out[idx] is not None:
                            raise Undecided('layout classes overlap at cell %d' % idx)
                        if code is None:
                            asg = {'keycode': k, 'handle_ctrl': h}
                            for f, b in zip(ctx.modfields, m):
                                asg['modifiers.' + f] = b
                            self.out[idx] = self.encode(conc(r, asg))
                        else:
                            self.out[idx] = code
                        self.leaf_of[idx] = li
        missing = sum(1 for x in self.out if x is None)
        if missing:
            raise Undecided('layout table of %s has %d uncovered cells' % (name, missing))

    def encode(self, native):
        ctx = self.ctx
        if not (isinstance(native, tuple) and native[0] == 'DecodedKey'):
            raise Undecided('layout returned a non-DecodedKey value %r' % (native,))
        if native[1] == ctx.dk['Unicode']:
            return native[2][0]
        return RAW_BASE + native[2][0]

    def get(self, key, mods, mode):
        return self.out[key * self.stride + mods * self.nm + mode]

    def leaf(self, key, mods, mode):
        return self.leaves[self.leaf_of[key * self.stride + mods * self.nm + mode]]

    def where(self, key, mods, mode):
        return leaf_where(self.leaf(key, mods, mode))


def show_out(ctx, code):
    if code is None:
        return 'None'
    if code == PANIC:
        return 'PANIC'
    if code >= RAW_BASE:
        return 'RawKey(%s)' % ctx.keycodes[code - RAW_BASE]
    c = chr(code)
    if code < 0x20 or code == 0x7f:
        return 'Unicode(U+%04X)' % code
    return "Unicode('%s' U+%04X)" % (c, code)


def mods_str(ctx, mods):
    on = [f for i, f in enumerate(ctx.modfields) if mods >> i & 1]
    return '+'.join(on) if on else 'none'


def extract_layout(ctx, name, fn_path, opaque=(), arg_doms=None):
    eng = Engine(ctx.prog, opaque=opaque)
    f = ctx.fn(fn_path)
    if f['body']['arg_count'] != 4:
        raise Undecided('%s does not take 4 arguments' % fn_path)
    leaves = eng.run(fn_path, arg_names=['self', 'keycode', 'modifiers', 'handle_ctrl'], arg_doms=arg_doms)
    check_partition(eng, leaves)
    return LayoutTable(ctx, name, fn_path, leaves, eng)


def public_names(ctx, type_path):
    """names under which a type is exported from the crate (e.g. 'layouts::Us104Key')"""
    return sorted({e['name'] for e in ctx.facts.get('exports', []) if e['target'] == type_path and e['kind'] == 'Struct'})


def extract_all_layouts(ctx, include_wrappers=False):
    """{public name: LayoutTable} for every concrete layout impl found in the program.  A layout is known to its users
    by the name it is exported under, so that is the key (falls back to the type's own name if it is not exported)."""
    out = {}
    import json as _json, os as _os
    try:
        shipped = set(_json.load(open(_os.path.join(_os.path.dirname(_os.path.dirname(_os.path.abspath(__file__))), 'reference', 'keys.json')))['shipped_layouts'])
    except Exception:
        shipped = set()
    for name, ty, path, wrapper in ctx.layout_impls():
        if wrapper and not include_wrappers:
            continue
        names = [n.split('::')[-1] for n in public_names(ctx, ty.get('path', ''))] if not wrapper else []
        if shipped and not wrapper and not (set(names or [name]) & shipped):
            # a layout type added to the crate: tabulated like the others when it is a pure function of (key, modifiers, mode);
            # one that is configured through its own fields is outside the ten layouts the properties quantify over
            try:
                t = extract_layout(ctx, name, path)
            except Undecided as u:
                if not hasattr(ctx, 'skipped_layouts'):
                    ctx.skipped_layouts = []
                ctx.skipped_layouts.append((name, str(u)[:120]))
                continue
        else:
            t = extract_layout(ctx, name, path)
        t.type_name = name
        for n in (names or [name]):
            if n in out and out[n] is not t:
                raise Undecided('two layout types are exported under the name %s' % n)
            out[n] = t
            t.name = n if len(names) == 1 else name
    return out


def inherent_layout_shadows(ctx):
    """[(type name, self_ty, inherent fn, trait fn)] : inherent `map_keycode` methods on types that implement
    KeyboardLayout - these are what a direct `layout.map_keycode(..)` call resolves to."""
    out = []
    for name, ty, path, wrapper in ctx.layout_impls():
        base = ty['to'] if ty.get('k') == 'ref' else ty
        for f in ctx.facts['fns']:
            st = f.get('impl_self') or {}
            if f['name'] == 'map_keycode' and not f.get('impl_trait') and st.get('k') == 'adt' and st.get('path') == base.get('path') \
                    and ty.get('k') != 'ref':
                out.append((name, ty, f['path'], path))
    return out


# ---------------------------------------------------------------------------
# scancode automata

def flat_scalars(v, out=None):
    """Depth-first list of the scalar leaves of a (resolved) value."""
    if out is None:
        out = []
    if v is None:
        raise Undecided('uninitialised state field')
    k = v[0]
    if k in ('c', 'a', 't'):
        out.append(v)
    elif k == 'adt':
        for x in v[3]:
            flat_scalars(x, out)
    elif k == 'arr':
        for x in v[1]:
            flat_scalars(x, out)
    else:
        raise Undecided('decoder state contains a %s value' % k)
    return out


DEAD = ('dead',)


def flat_typed(prog, ty, v, out=None):
    """Type-directed, fixed-shape flattening of a decoder state: one slot per scalar, and for a data-carrying enum field
    (`last_byte: Option<u8>`) the variant tag followed by the payload slots of EVERY variant (those of the inactive variants
    hold 0).  Symbolic and concrete values of one type therefore flatten to tuples of the same length."""
    if out is None:
        out = []
    tk = prog.tk(ty)
    if tk is not None:
        if v is DEAD:
            out.append(('c', 0, tk))
        elif v is not None and v[0] in ('c', 'a', 't'):
            out.append(v)
        else:
            raise Undecided('decoder state field of scalar type holds a %s value' % (v[0] if v else 'missing'))
        return out
    k = ty.get('k')
    if k == 'adt' and ty['path'] in prog.adts:
        a = prog.adt(ty['path'])
        if a['kind'] == 'struct':
            ftys = prog.variant_field_tys(ty, 0)
            for i, ft in enumerate(ftys):
                flat_typed(prog, ft, DEAD if v is DEAD else (v[3][i] if v is not None and v[0] == 'adt' else None), out)
            return out
        if a['kind'] == 'enum':
            if v is not DEAD and (v is None or v[0] not in ('se', 'adt')):
                raise Undecided('decoder state field of enum type holds a %s value' % (v[0] if v else 'missing'))
            out.append(('c', 0, 'isize') if v is DEAD else (v[2] if v[0] == 'se' else ('c', v[2], 'isize')))
            for var in a['variants']:
                ftys = prog.variant_field_tys(ty, var['idx'])
                if any(prog.uninhabited(t) for t in ftys):
                    continue
                for j, ft in enumerate(ftys):
                    if v is DEAD:
                        x = DEAD
                    elif v[0] == 'se':
                        x = v[3][var['idx']][j] if v[3][var['idx']] is not None else DEAD
                    else:
                        x = v[3][j] if v[2] == var['idx'] else DEAD
                    flat_typed(prog, ft, x, out)
            return out
    if k == 'tuple':
        for i, ft in enumerate(ty['elems']):
            flat_typed(prog, ft, DEAD if v is DEAD else v[3][i], out)
        return out
    if k == 'array' and ty.get('len') is not None:
        for i in range(ty['len']):
            flat_typed(prog, ty['elem'], DEAD if v is DEAD else v[1][i], out)
        return out
    raise Undecided('decoder state contains a field of type %s' % k)


class ScanTable:
    """(state, byte) -> (result, post_state) for one ScancodeSet impl.  A state is the tuple of the scalar
    fields of the decoder object (whatever they are), so the table survives a change of representation.
    result: ('none',) | ('ev', keycode_idx, keystate_idx) | ('err', error_idx) | ('panic', what)"""

    def __init__(self, ctx, self_str, fn_path):
        self.ctx = ctx
        self.name = self_str.split('::')[-1]
        self.fn_path = fn_path
        eng = Engine(ctx.prog)
        self.leaves = eng.run(fn_path, arg_names=['self', 'code'])
        check_partition(eng, self.leaves)
        self.engine_stats = dict(eng.stats)
        init_cell = eng.initial_store[('H', 'self')]
        self.self_ty = {'k': 'adt', 'path': self_str, 'local': True, 'args': []}
        self.state_atoms = []
        self.state_tks = []
        for v in flat_typed(ctx.prog, self.self_ty, init_cell):
            if v[0] != 'a':
                raise Undecided('decoder state field is not a plain input')
            self.state_atoms.append(v[1])
            self.state_tks.append(v[2])
        self.full = {n: eng.full_doms.get(n) for n in self.state_atoms + ['code']}
        for lf in self.leaves:
            for n in lf.doms:
                if n not in self.full:
                    raise Undecided('%s depends on input other than (decoder state, byte): %s' % (fn_path, n))
        # Fields that only OBSERVE the decoding (a byte counter, the last byte seen, ...) are not part of the decoder's state:
        # a field is relevant iff some path class is selected by it, or a result mentions it, or the next value of a relevant
        # field mentions it (least fixpoint).  Everything else is projected away - exactly, since by construction it can
        # influence neither a result nor a relevant field.
        nall = len(self.state_atoms)
        rel = set()
        for lf in self.leaves:
            for i, n in enumerate(self.state_atoms):
                if lf.doms.get(n) != self.full[n]:
                    rel.add(i)
            if lf.kind == 'return':
                for a_ in value_atoms(lf.ret):
                    if a_ in self.state_atoms:
                        rel.add(self.state_atoms.index(a_))
        changed = True
        while changed:
            changed = False
            for lf in self.leaves:
                if lf.kind != 'return':
                    continue
                post = flat_typed(ctx.prog, self.self_ty, lf.cells[('H', 'self')])
                if len(post) != nall:
                    raise Undecided('decoder state changes shape')
                for i in list(rel):
                    for a_ in value_atoms(post[i]):
                        if a_ in self.state_atoms and self.state_atoms.index(a_) not in rel:
                            rel.add(self.state_atoms.index(a_))
                            changed = True
        self.nall = nall
        self.keep = sorted(rel)
        self.observer_fields = [self.state_atoms[i] for i in range(nall) if i not in rel]
        self.state_atoms = [self.state_atoms[i] for i in self.keep]
        self.state_tks = [self.state_tks[i] for i in self.keep]
        for n in self.state_atoms + ['code']:
            if self.full.get(n) is None:
                raise Undecided('decoder state field %s has an unbounded domain' % n)
        self.cells = {}     # cache (state, byte) -> (res, post, leaf index)
        # index leaves by byte for fast lookup
        self._by_byte = {}
        for li, lf in enumerate(self.leaves):
            for c in lf.doms['code']:
                self._by_byte.setdefault(c, []).append(li)

    def proj(self, s):
        """A state given over all scalar fields -> the relevant ones."""
        if s is not None and len(s) == self.nall and self.nall != len(self.keep):
            return tuple(s[i] for i in self.keep)
        return s

    def cell(self, s, c):
        s = self.proj(s)
        key = (s, c)
        r = self.cells.get(key)
        if r is not None:
            return r
        hit = None
        for li in self._by_byte.get(c, ()):
            lf = self.leaves[li]
            if all(v in lf.doms[n] for n, v in zip(self.state_atoms, s)):
                if hit is not None:
                    raise Undecided('scancode classes overlap')
                hit = li
        if hit is None:
            raise Undecided('scancode table has no class for state %s byte %02X' % (s, c))
        lf = self.leaves[hit]
        asg = dict(zip(self.state_atoms, s))
        asg['code'] = c
        R = 'core::result::Result'
        if lf.kind != 'return':
            res, post = ('panic', lf.panic[0]), None
        else:
            r = conc(lf.ret, asg)
            if r[0] != R:
                raise Undecided('advance_state returned non-Result')
            if r[1] == 1:
                res = ('err', r[2][0])
            else:
                o = r[2][0]
                if o[1] == 0:
                    res = ('none',)
                else:
                    kev = o[2][0]
                    res = ('ev', kev[2][0], kev[2][1])
            pf = flat_typed(self.ctx.prog, self.self_ty, lf.cells[('H', 'self')])
            post = tuple(ev(pf[i], asg) if pf[i][0] != 'c' else pf[i][1] for i in self.keep)
        out = (res, post, hit)
        self.cells[key] = out
        return out

    def where(self, s, c):
        return leaf_where(self.leaves[self.cell(s, c)[2]])

    def state_str(self, s):
        if s is None:
            return '-'
        parts = []
        for v, tk, n in zip(s, self.state_tks, self.state_atoms):
            if tk.startswith('E:'):
                parts.append(self.ctx.prog.variant_name(tk[2:], v))
            else:
                parts.append('%s=%d' % (n.split('.', 1)[-1], v))
        return parts[0] if len(parts) == 1 else '(' + ', '.join(parts) + ')'

    def reachable(self, init):
        """States reachable from `init` over the extracted transition relation (never continuing
        through a panicking cell)."""
        init = self.proj(init)
        seen = {init}
        work = [init]
        while work:
            s = work.pop()
            for c in range(256):
                res, post, _ = self.cell(s, c)
                if post is not None and post not in seen:
                    if len(seen) > 20000:
                        raise Undecided('scancode decoder state space too large')
                    seen.add(post)
                    work.append(post)
        return seen

    def all_states(self):
        import itertools
        n = 1
        for a in self.state_atoms:
            n *= len(self.full[a])
        if n > 65536:
            return None
        return list(itertools.product(*[sorted(self.full[a]) for a in self.state_atoms]))

    def trap_states(self):
        """state cubes in which some byte traps (from the panic leaves)"""
        out = []
        for lf in self.leaves:
            if lf.kind != 'return':
                out.append({n: sorted(lf.doms[n]) for n in self.state_atoms})
        return out


def scancode_impls(ctx):
    return [(s, p) for s, _ty, p, _sp in ctx.trait_impls(SS_TRAIT)]


def initial_state_of(ctx, self_str):
    """The decoder state a `new()` of this scancode-set type constructs (from its const fn body)."""
    path = None
    for f in ctx.facts['fns']:
        if f['name'] == 'new' and f.get('impl_self_str') == self_str and not f.get('impl_trait'):
            path = f['path']
    if path is None:
        raise Undecided('no inherent new() for ' + self_str)
    eng = Engine(ctx.prog)
    leaves = eng.run(path)
    if len(leaves) != 1 or leaves[0].kind != 'return':
        raise Undecided('new() of %s is not a single straight path' % self_str)
    fl = flat_typed(ctx.prog, {'k': 'adt', 'path': self_str, 'local': True, 'args': []}, leaves[0].ret)
    if any(x[0] != 'c' for x in fl):
        raise Undecided('new() of %s does not construct a constant state' % self_str)
    return tuple(x[1] for x in fl), path


def other_constructors(ctx, self_str, new_path):
    """Every other argument-less function that produces a value of this type (Default::default, ...):
    [(path, state tuple or None if not constant)].  A decoder obtained from any of them must start in the
    same condition as one from new()."""
    out = []
    short = self_str.split('::')[-1]
    for f in ctx.facts['fns']:
        if f['path'] == new_path or f.get('kind') == 'Closure':
            continue
        if f['body']['arg_count'] != 0:
            continue
        o = f.get('output') or {}
        if o.get('k') != 'adt' or o.get('path', '').split('::')[-1] != short:
            continue
        eng = Engine(ctx.prog)
        try:
            leaves = eng.run(f['path'])
            if len(leaves) == 1 and leaves[0].kind == 'return':
                fl = flat_typed(ctx.prog, {'k': 'adt', 'path': self_str, 'local': True, 'args': []}, leaves[0].ret)
                out.append((f['path'], tuple(x[1] for x in fl) if all(x[0] == 'c' for x in fl) else None, f['sp']))
            else:
                out.append((f['path'], None, f['sp']))
        except Undecided:
            out.append((f['path'], None, f['sp']))
    return out


def show_res(ctx, res):
    if res[0] == 'none':
        return 'Ok(None)'
    if res[0] == 'ev':
        return 'Ok(Some(%s %s))' % (ctx.keycodes[res[1]], ctx.keystates[res[2]])
    if res[0] == 'err':
        return 'Err(%s)' % ctx.errors[res[1]]
    return 'PANIC(%s)' % res[1]


# ---------------------------------------------------------------------------
# footprint scan (who may write)

def iter_bodies(f):
    yield f['body']
    for p in f['promoted']:
        yield p


def place_field_chain(pl, body, prog):
    """For a place, list of (adt path, field index) crossed by its field projections."""
    ty = body['locals'][pl['l']]['ty']
    chain = []
    for e in pl['p']:
        if e['k'] == 'deref':
            ty = ty.get('to', ty)
        elif e['k'] == 'field':
            if ty['k'] == 'adt':
                chain.append((ty['path'], e['i']))
            ty = e['ty']
    return chain, ty


def _rv_places(rv):
    """places read by an rvalue (shallow JSON walk)"""
    out = []

    def op(o):
        if isinstance(o, dict) and o.get('k') in ('copy', 'move') and 'pl' in o:
            out.append(o['pl'])
    k = rv.get('k')
    if k in ('use', 'cast', 'repeat'):
        op(rv.get('op'))
    elif k == 'un':
        op(rv.get('a'))
    elif k == 'bin':
        op(rv.get('a')); op(rv.get('b'))
    elif k == 'agg':
        for o in rv.get('ops', []):
            op(o)
    elif k in ('ref', 'rawptr', 'discr'):
        out.append(rv['pl'])
    elif k == 'other':
        out.append(None)      # unknown rvalue: be conservative
    return out


PURE_ARITH = ('wrapping_add', 'wrapping_sub', 'wrapping_mul', 'saturating_add', 'saturating_sub', 'wrapping_neg', 'min', 'max')


def observer_fields(ctx, adt_path, api_names):
    """Scalar fields of a state struct that only OBSERVE (a frame counter, ...): flow-insensitive taint analysis over the
    MIR of every hand-written function.  A field is an observer iff every value read from it flows only (a) through plain
    arithmetic / wrapping-saturating helpers, (b) back into the same field, or (c) into the return value of a public
    function that is not one of the operations the properties speak about (a getter).  Anything else - a branch, an
    assertion, another field, another call, a reference to the field - makes it part of the state.  -> set of field indices"""
    prog = ctx.prog
    a = prog.adts.get(adt_path)
    if a is None or a['kind'] != 'struct':
        return set()
    # any field can be an observer (a counter, `last_error: Option<Error>`, a small statistics struct): what matters is where
    # the values read from it flow
    cand = set(range(len(a['variants'][0]['fields'])))
    if not cand:
        return set()
    relevant = set()
    # a derived comparison / hash of the struct reads every field: if hand-written code uses one, nothing is a mere observer
    cmp_fns = {f['path'] for f in ctx.facts['fns'] if f.get('derived') and (f.get('impl_self') or {}).get('path') == adt_path
               and (f.get('impl_trait') or '').split('::')[-1] not in ('Clone', 'Debug', 'Default', 'Copy')}
    if cmp_fns:
        for f in ctx.facts['fns']:
            if f.get('derived'):
                continue
            for body in iter_bodies(f):
                for bb in body['blocks']:
                    t = bb['term']
                    if t['k'] == 'call' and (((t['fn'].get('fn') or {}).get('resolved') or {}).get('path') in cmp_fns):
                        return set()

    def through(pl, body):
        """field indices of adt_path this place goes through (directly on the ADT)"""
        chain, _ty = place_field_chain(pl, body, prog)
        return [fi for ap, fi in chain if ap == adt_path]

    def whole(pl, body):
        chain, ty = place_field_chain(pl, body, prog)
        return ty.get('k') == 'adt' and ty.get('path') == adt_path

    fn_by_path = {f['path']: f for f in ctx.facts['fns']}

    def field_local(callee_path, argi, depth=0):
        """Is the local function `callee_path`, given a reference to (part of) the field as its argument number `argi` (1-based
        local), self-contained with respect to it: values read through the reference flow only through plain arithmetic back into
        the referent, are never branched on, never returned, never passed on (except to functions that are themselves
        field-local)?  Then calling it with `&mut self.field` keeps the field an observer (`self.stats.record_error(e)`)."""
        g = fn_by_path.get(callee_path)
        if g is None or g.get('derived') or depth > 3 or 'body' not in g:
            return False
        gb = g['body']

        def tracked(pl):
            return pl['l'] == argi and pl['p'] and pl['p'][0]['k'] == 'deref'
        taint, refs = set(), {argi}
        changed = True
        while changed:
            changed = False
            for bb in gb['blocks']:
                for st_ in bb['stmts']:
                    if st_['k'] != 'assign':
                        continue
                    rv, dest = st_['rv'], st_['pl']
                    if rv['k'] in ('ref', 'rawptr') and (tracked(rv['pl']) or (rv['pl']['l'] in refs and rv['pl']['p'])):
                        if dest['p']:
                            return False
                        if dest['l'] not in refs:
                            refs.add(dest['l']); changed = True
                        continue
                    srcs = [pl for pl in _rv_places(rv) if pl is not None]
                    if any((not pl['p']) and pl['l'] in refs for pl in srcs):
                        # the reference itself is copied / moved / reborrowed
                        if dest['p'] or rv['k'] not in ('use',):
                            return False
                        if dest['l'] not in refs:
                            refs.add(dest['l']); changed = True
                        continue
                    reads = any((pl['l'] in refs and pl['p'] and pl['p'][0]['k'] == 'deref') or pl['l'] in taint for pl in srcs)
                    if not reads:
                        continue
                    if rv['k'] == 'discr':
                        return False
                    if dest['l'] in refs and dest['p'] and dest['p'][0]['k'] == 'deref':
                        continue                        # written back into the referent
                    if not dest['p']:
                        if dest['l'] == 0:
                            return False                # returned
                        if dest['l'] not in taint:
                            taint.add(dest['l']); changed = True
                    elif dest['l'] in taint:
                        pass
                    else:
                        return False
                t = bb['term']
                k = t['k']
                ops = [t['op']] if k == 'switch' else [t['cond']] if k == 'assert' else list(t['args']) if k == 'call' else []
                used_val = used_ref = None
                for ai, o in enumerate(ops):
                    if isinstance(o, dict) and o.get('k') in ('copy', 'move') and 'pl' in o:
                        pl = o['pl']
                        if pl['l'] in taint or (pl['l'] in refs and pl['p']):
                            used_val = ai
                        elif pl['l'] in refs:
                            used_ref = ai
                if used_val is None and used_ref is None:
                    continue
                if k in ('switch', 'assert'):
                    return False
                fnr = t['fn'].get('fn') or {}
                if used_ref is not None:
                    cp = (fnr.get('resolved') or {}).get('path')
                    if not (cp and (fnr.get('resolved') or {}).get('local') and field_local(cp, used_ref + 1, depth + 1)):
                        return False
                    continue
                nm = (fnr.get('path') or '').split('::')[-1]
                pure = (fnr.get('path') or '').startswith('core::num::') and nm in PURE_ARITH
                if not pure or t['dest']['p']:
                    return False
                if t['dest']['l'] == 0:
                    return False
                if t['dest']['l'] not in taint:
                    taint.add(t['dest']['l']); changed = True
        return True

    # functions whose RESULT carries a value read from field fi (getters, direct or through other getters): a call to one
    # of them is a read of the field in the caller (the analysis is interprocedural through this set)
    getters = {fi: set() for fi in cand}
    outer = True
    rounds = 0
    while outer and rounds < 20:
      outer = False
      rounds += 1
      for f in ctx.facts['fns']:
        if f.get('derived'):
            continue
        is_fmt = (f.get('impl_trait') or '').startswith('core::fmt::')
        getter_ok = f['vis'] == 'pub' and not f.get('impl_trait') and f['name'] not in api_names and not f.get('closure_of')
        for body in iter_bodies(f):
            for fi in sorted(cand - relevant):
                taint = set()
                mrefs = set()       # locals holding `&mut` into the field: may only be handed to field-local functions
                bad = False
                changed = True
                while changed and not bad:
                    changed = False
                    for bb in body['blocks']:
                        for st_ in bb['stmts']:
                            if st_['k'] != 'assign':
                                continue
                            rv, dest = st_['rv'], st_['pl']
                            srcs = _rv_places(rv)
                            reads = False
                            for pl in srcs:
                                if pl is None:
                                    continue
                                if (fi in through(pl, body)) or (not pl['p'] and pl['l'] in taint):
                                    reads = True
                                elif pl['p'] and pl['l'] in taint:
                                    reads = True
                                elif pl['p'] and pl['l'] in mrefs:
                                    reads = True        # a read through a `&mut` into the field
                            if rv['k'] in ('ref', 'rawptr') and fi in through(rv['pl'], body):
                                if rv['k'] == 'ref' and rv.get('mut') and not dest['p']:
                                    if dest['l'] not in mrefs:
                                        mrefs.add(dest['l']); changed = True
                                    continue            # judged where it is used (call arguments below)
                                if rv['k'] == 'ref' and not rv.get('mut') and not dest['p']:
                                    pass                # a shared reference: reading through it is reading the field (tainted like a copy)
                                else:
                                    bad = True          # a raw pointer / a reference stored in memory escapes the analysis
                            if rv['k'] == 'use' and any(pl is not None and not pl['p'] and pl['l'] in mrefs for pl in srcs):
                                if dest['p']:
                                    bad = True
                                elif dest['l'] not in mrefs:
                                    mrefs.add(dest['l']); changed = True
                                continue
                            if rv['k'] in ('ref', 'rawptr') and rv['pl']['l'] in mrefs:
                                if dest['p'] or rv['k'] != 'ref':
                                    bad = True
                                elif dest['l'] not in mrefs:
                                    mrefs.add(dest['l']); changed = True
                                continue
                            if any(pl is not None and pl['l'] in mrefs and not pl['p'] for pl in srcs):
                                bad = True              # anything else done with a `&mut` into the field
                            if not reads:
                                continue
                            if rv['k'] == 'discr':
                                bad = True
                            dthru = through(dest, body)
                            if not dest['p']:
                                if dest['l'] == 0 and not (getter_ok or is_fmt):
                                    bad = True          # returned by an operation the properties describe
                                if dest['l'] not in taint:
                                    taint.add(dest['l']); changed = True
                            elif dthru == [fi] or (dthru and dthru[-1] == fi) or (dest['p'] and dest['l'] in mrefs):
                                pass                    # written back into the same field (directly or through a `&mut` into it)
                            elif dest['l'] in taint or (dest['l'] == 0 and (getter_ok or is_fmt)):
                                pass                    # part of an already tainted temporary (e.g. the pair of a checked op)
                            else:
                                bad = True              # flows into other memory
                        t = bb['term']
                        k = t['k']
                        ops = []
                        if k == 'switch':
                            ops = [t['op']]
                        elif k == 'assert':
                            ops = [t['cond']]
                        elif k == 'call':
                            ops = list(t['args'])
                        used = False
                        mref_arg = None
                        for ai_, o in enumerate(ops):
                            if isinstance(o, dict) and o.get('k') in ('copy', 'move') and 'pl' in o:
                                pl = o['pl']
                                if pl['l'] in mrefs and not pl['p']:
                                    mref_arg = ai_
                                elif fi in through(pl, body) or pl['l'] in taint or pl['l'] in mrefs:
                                    used = True
                        if mref_arg is not None:
                            fnr_ = t['fn'].get('fn') or {}
                            cp_ = (fnr_.get('resolved') or {}).get('path')
                            if k != 'call' or used or not (cp_ and (fnr_.get('resolved') or {}).get('local') and field_local(cp_, mref_arg + 1)):
                                bad = True
                            continue
                        if k == 'call' and not used:
                            callee_p = ((t['fn'].get('fn') or {}).get('resolved') or {}).get('path')
                            if callee_p in getters[fi]:
                                # the call returns the field's value: its destination is tainted like a direct read
                                if t['dest']['p']:
                                    bad = True
                                elif t['dest']['l'] not in taint:
                                    if t['dest']['l'] == 0 and not (getter_ok or is_fmt):
                                        bad = True
                                    taint.add(t['dest']['l']); changed = True
                            continue
                        if not used:
                            continue
                        if k in ('switch', 'assert'):
                            bad = True
                        elif k == 'call':
                            fnr = t['fn'].get('fn') or {}
                            nm = (fnr.get('path') or '').split('::')[-1]
                            pure = (fnr.get('path') or '').startswith('core::num::') and nm in PURE_ARITH
                            if not pure or t['dest']['p']:
                                bad = True
                            elif t['dest']['l'] not in taint:
                                if t['dest']['l'] == 0 and not (getter_ok or is_fmt):
                                    bad = True
                                taint.add(t['dest']['l']); changed = True
                if 0 in taint and f['path'] not in getters[fi]:
                    getters[fi].add(f['path'])
                    outer = True
                if bad:
                    relevant.add(fi)
    return cand - relevant


def writers_of(ctx, adt_path):
    """Functions (hand-written or derived) whose MIR assigns to, or mutably borrows, a field of
    `adt_path` (or the whole value through a deref), or constructs the ADT.  -> {fn: set(kinds)}"""
    out = {}
    for f in ctx.facts['fns']:
        kinds = set()
        for body in iter_bodies(f):
            for bb in body['blocks']:
                for s in bb['stmts']:
                    if s['k'] != 'assign':
                        continue
                    chain, ty = place_field_chain(s['pl'], body, ctx.prog)
                    if any(a == adt_path for a, _ in chain):
                        kinds.add('assign-field')
                    elif ty['k'] == 'adt' and ty['path'] == adt_path and any(e['k'] == 'deref' for e in s['pl']['p']):
                        kinds.add('assign-whole')
                    rv = s['rv']
                    if rv['k'] == 'ref' and rv['mut']:
                        chain2, ty2 = place_field_chain(rv['pl'], body, ctx.prog)
                        if any(a == adt_path for a, _ in chain2):
                            kinds.add('mutborrow-field')
                        elif ty2['k'] == 'adt' and ty2['path'] == adt_path and rv['pl']['p']:
                            kinds.add('mutborrow-whole')
                    if rv['k'] == 'agg' and rv.get('path') == adt_path:
                        kinds.add('construct')
        if kinds:
            out[f['path']] = kinds
    return out


def caller_map(ctx):
    """resolved local call graph, reversed: callee path -> set(caller paths); closures belong to their parent"""
    callers = {}
    for g in ctx.facts['fns']:
        for body in iter_bodies(g):
            for bb in body['blocks']:
                t = bb['term']
                if t['k'] == 'call':
                    r = (t['fn'].get('fn') or {}).get('resolved') or {}
                    if r.get('local') and r.get('path'):
                        callers.setdefault(r['path'], set()).add(g['path'])
        if g.get('closure_of'):
            callers.setdefault(g['path'], set()).add(g['closure_of'])
    return callers


def public_roots(ctx, p, allowed=(), callers=None):
    """The externally callable functions (pub or trait-impl methods) through which `p` can be reached;
    a private helper is only ever entered through them.  Chains that pass through a function in
    `allowed` end there (that function is analysed in its own right, helper inlined)."""
    if callers is None:
        callers = caller_map(ctx)
    seen, work, roots = set(), [p], set()
    while work:
        x = work.pop()
        if x in seen:
            continue
        seen.add(x)
        fx = ctx.prog.fns.get(x)
        if fx is None:
            continue
        if x in allowed:
            continue
        if fx['vis'] == 'pub' or fx.get('impl_trait'):
            roots.add(x)
            continue
        for c in callers.get(x, ()):
            work.append(c)
    return roots


def returns_mut_ref_to(ctx, adt_paths):
    """Functions whose signature returns a `&mut` to one of the ADTs (or anything containing one)."""
    def has(ty):
        if ty['k'] == 'ref':
            if ty['mut'] and ty['to']['k'] == 'adt' and ty['to']['path'] in adt_paths:
                return True
            return has(ty['to'])
        if ty['k'] == 'adt':
            return any(has(a) for a in ty['args'])
        if ty['k'] == 'tuple':
            return any(has(a) for a in ty['elems'])
        return False
    return [f['path'] for f in ctx.facts['fns'] if has(f['output'])]
