"""Pretty printer for dumped MIR (debug aid; also used in violation reports)."""
import json, sys

def pl(p):
    s = '_%d' % p['l']
    for e in p['p']:
        if e['k'] == 'deref': s = '(*%s)' % s
        elif e['k'] == 'field': s += '.%d' % e['i']
        elif e['k'] == 'downcast': s = '(%s as v%d)' % (s, e['v'])
        else: s += '?' + e['s']
    return s

def tyname(t):
    k = t['k']
    if k == 'int': return t['name']
    if k == 'adt': return t['path'] + ('<%s>' % ','.join(tyname(a) for a in t['args']) if t['args'] else '')
    if k == 'ref': return ('&mut ' if t['mut'] else '&') + tyname(t['to'])
    if k == 'tuple': return '(%s)' % ','.join(tyname(a) for a in t['elems'])
    if k == 'param': return t['name']
    if k == 'other': return t['s']
    return k

def op(o):
    if o['k'] in ('copy', 'move'): return o['k'] + ' ' + pl(o['pl'])
    if 'fn' in o:
        r = o['fn']['resolved']
        return 'fn ' + o['fn']['path_inst'] + ' => ' + (r['path_inst'] + ('[local]' if r['local'] else '') if r else 'UNRESOLVED')
    if 'int' in o: return 'const %d:%s' % (o['int'], tyname(o['ty']))
    if 'promoted' in o: return 'promoted[%d]' % o['promoted']
    if 'zst' in o: return 'zst ' + tyname(o['ty'])
    return 'const? ' + o.get('other', '')

def rv(r):
    k = r['k']
    if k == 'use': return op(r['op'])
    if k == 'ref': return ('&mut ' if r['mut'] else '&') + pl(r['pl'])
    if k == 'bin': return '%s(%s, %s)' % (r['op'], op(r['a']), op(r['b']))
    if k == 'un': return '%s(%s)' % (r['op'], op(r['a']))
    if k == 'cast': return '%s as %s [%s]' % (op(r['op']), tyname(r['ty']), r['kind'])
    if k == 'discr': return 'discriminant(%s)' % pl(r['pl'])
    if k == 'agg': return 'agg %s v%s [%s]' % (r.get('path', r['kind']), r.get('variant'), ', '.join(op(o) for o in r['ops']))
    return 'OTHER ' + r.get('s', '')

def show(f, body=None, out=sys.stdout):
    b = body or f['body']
    print('fn', f['path'], 'args', b['arg_count'], file=out)
    for i, l in enumerate(b['locals']):
        print('  let _%d: %s %s' % (i, tyname(l['ty']), l['name'] or ''), file=out)
    for i, bb in enumerate(b['blocks']):
        print(' bb%d%s:' % (i, ' (cleanup)' if bb['cleanup'] else ''), file=out)
        for s in bb['stmts']:
            if s['k'] == 'assign':
                print('   %s = %s   // %s' % (pl(s['pl']), rv(s['rv']), s['sp'].split('/')[-1]), file=out)
            else:
                print('   OTHER', s['s'], file=out)
        t = bb['term']; k = t['k']
        if k == 'goto': print('   goto bb%d' % t['t'], file=out)
        elif k == 'switch': print('   switch %s [%s] else bb%d' % (op(t['op']), ', '.join('%d->bb%d' % (v, g) for v, g in zip(t['vals'], t['tgts'])), t['otherwise']), file=out)
        elif k == 'call': print('   %s = call %s(%s) -> %s' % (pl(t['dest']), op(t['fn']), ', '.join(op(a) for a in t['args']), t['t']), file=out)
        elif k == 'assert': print('   assert(%s == %s, %s) -> bb%d' % (op(t['cond']), t['expected'], t['msg_full'][:60], t['t']), file=out)
        elif k == 'drop': print('   drop %s -> bb%d' % (pl(t['pl']), t['t']), file=out)
        else: print('   ' + k, t.get('s', ''), file=out)

if __name__ == '__main__':
    d = json.load(open(sys.argv[1]))
    F = {f['path']: f for f in d['fns']}
    for n in sys.argv[2:]:
        if n.startswith('@'):
            for k in F:
                if n[1:] in k: print(k)
            continue
        show(F[n])
        for i, p in enumerate(F[n]['promoted']):
            print('--- promoted[%d]' % i); show(F[n], p)
