"""Rules C01, C02, C07, C13, C19 over the extracted scancode automata."""
import json, os, re
from .common import VERIF
from .extract import (ScanTable, scancode_impls, initial_state_of, other_constructors, show_res, Undecided, span_line)

REF = os.path.join(VERIF, 'reference')


def load_ref():
    with open(os.path.join(REF, 'scancodes.json')) as f:
        sc = json.load(f)
    with open(os.path.join(REF, 'i8042_xlat.json')) as f:
        xl = json.load(f)
    return sc, {int(k, 16): int(v, 16) for k, v in xl['xlat'].items()}


def parse_readme(repo):
    """Rows of the README 'Conversion Table' -> {key: {'set1': hex|None, 'set2': hex|None}}"""
    rows = {}
    intable = False
    try:
        lines = open(os.path.join(repo, 'README.md'), encoding='utf-8').read().split('\n')
    except OSError:
        return None
    for line in lines:
        if line.startswith('| Symbolic Key'):
            intable = True
            continue
        if intable:
            if not line.startswith('|'):
                break
            c = [x.strip() for x in line.strip().strip('|').split('|')]
            if len(c) != 3 or set(c[0]) <= set('-'):
                continue
            cv = lambda x: None if x == '--' else x[2:].upper()
            rows[c[0]] = {'set1': cv(c[1]), 'set2': cv(c[2])}
    return rows


def readme_drift(rep, repo, sc):
    rows = parse_readme(repo)
    if not rows:
        rep.note('README conversion table not found/parsable; frozen reference used alone')
        return
    errata = {(e['key'], e['column']): e for e in sc['errata']}
    n = 0
    for k, v in sc['keys'].items():
        r = rows.get(k)
        if r is None:
            rep.note('README has no row for %s' % k)
            continue
        for col in ('set1', 'set2'):
            n += 1
            if r[col] != v[col]:
                e = errata.get((k, col))
                if e and r[col] == e['readme']:
                    continue  # known README typo
                rep.note('README drift (documentation only): %s %s README=%s reference=%s' % (k, col, r[col], v[col]))
    for k in rows:
        if k not in sc['keys']:
            rep.note('README row %s is not in the frozen reference' % k)
    rep.analysed['readme_cells_compared'] = n


def effective_keys(sc, repo, rep=None):
    """Frozen reference rows, plus README rows for key names the frozen reference does not know
    (a key added to the crate together with its documented codes is judged against the README, as the
    property says; existing keys stay pinned to the frozen table)."""
    keys = dict(sc['keys'])
    rows = parse_readme(repo) or {}
    used = {}
    for k, v in keys.items():
        for col in ('set1', 'set2'):
            if v[col]:
                used[(col, v[col])] = k
    for k, r in rows.items():
        if k in keys or not re.match(r'^[A-Za-z][A-Za-z0-9]*$', k):
            continue
        ok = True
        for col in ('set1', 'set2'):
            h = r[col]
            if h is not None and (not re.match(r'^(E0|E1)?[0-9A-F]{2}$', h) or (col, h) in used):
                ok = False
        if ok:
            keys[k] = r
            if rep is not None:
                rep.note('key %s is not in the frozen reference; judged against its README row %s' % (k, r))
                # the README row of a NEW key is written by whoever adds the key; where the specification names the
                # function, the key's name must go with the codes the specification gives that function
                low = k.lower()
                mine = [e for e in sc.get('spec_extra', []) if any(w in low for w in e['keywords'])]
                at = [e for e in sc.get('spec_extra', []) if e['set1'] == r['set1'] or e['set2'] == r['set2']]
                if mine and at and not any(e in mine for e in at):
                    rep.finding('%s new-key %s has-the-codes-of %s' % (rep.prop, k, at[0]['label'].replace(' ', '')),
                                'key %s is documented with Set 1 %s / Set 2 %s, which the scan code specification assigns to %s; %s is %s / %s' % (
                                    k, r['set1'], r['set2'], at[0]['label'], mine[0]['label'], mine[0]['set1'], mine[0]['set2']))
    return keys


def ref_tables(sc, which, keys=None):
    """{prefix: {code: keyname}} for 'set1' / 'set2' from the reference."""
    t = {'': {}, 'E0': {}, 'E1': {}}
    for k, v in (keys or sc['keys']).items():
        h = v[which]
        if h is None:
            continue
        pfx, code = h[:-2], int(h[-2:], 16)
        if code in t[pfx]:
            raise Undecided('reference table has two keys at %s %s' % (which, h))
        t[pfx][code] = k
    return t


class SetModel:
    """The automaton of one ScancodeSet impl seen through prefix contexts (identified by the
    history that reaches them from new(), not by variant names)."""

    def __init__(self, ctx, self_str, fn_path):
        self.ctx = ctx
        self.self_str = self_str
        self.name = self_str.split('::')[-1]
        self.tab = ScanTable(ctx, self_str, fn_path)
        self.init_full, self.new_path = initial_state_of(ctx, self_str)
        self.init = self.tab.proj(self.init_full)      # observer-only fields (counters, ...) are not decoder state
        self.kind = 'set1' if self.name == 'ScancodeSet1' else ('set2' if self.name == 'ScancodeSet2' else None)
        self.reach = self.tab.reachable(self.init)
        self.ctxs = {'': self.init}
        self.ctx_problems = []

        def follow(frm, byte, name):
            s = self.ctxs.get(frm)
            if s is None:
                return
            res, post, _ = self.tab.cell(s, byte)
            if res != ('none',) or post is None:
                self.ctx_problems.append((name, frm, byte, res))
                return
            self.ctxs[name] = post
        follow('', 0xE0, 'E0')
        follow('', 0xE1, 'E1')
        if self.kind == 'set2':
            follow('', 0xF0, 'F0')
            follow('E0', 0xF0, 'E0 F0')
            follow('E1', 0xF0, 'E1 F0')

    def cell(self, cname, byte):
        return self.tab.cell(self.ctxs[cname], byte)

    def state_name(self, s):
        if s is None:
            return '-'
        names = [k or 'start' for k, v in self.ctxs.items() if v == s]
        return '/'.join(names) if names else 'state[%s]' % self.tab.state_str(s)


def build_models(ctx, rep):
    models = []
    for self_str, path in scancode_impls(ctx):
        models.append(SetModel(ctx, self_str, path))
    rep.floor('ScancodeSet impls', len(models), 2)
    # an inherent method with the trait method's name shadows it for direct `set.advance_state(b)` calls: it must
    # behave identically
    for m in models:
        for f in ctx.facts['fns']:
            if f['name'] == 'advance_state' and f.get('impl_self_str') == m.self_str and not f.get('impl_trait'):
                try:
                    t2 = ScanTable(ctx, m.self_str, f['path'])
                    bad = None
                    for s_ in sorted(m.reach):
                        for b in range(256):
                            if t2.cell(s_, b)[:2] != m.tab.cell(s_, b)[:2]:
                                bad = (s_, b)
                                break
                        if bad:
                            break
                    rep.ob('inherent method agrees with the trait method', 1, 0 if bad else 1)
                    if bad:
                        rep.finding('%s %s inherent-advance_state-shadows-trait-method' % (rep.prop, m.name),
                                    'inherent %s (at %s) is what `set.advance_state(..)` calls; in state %s byte 0x%02X it gives %s where the '
                                    'ScancodeSet impl gives %s' % (f['path'], f['sp'], m.tab.state_str(bad[0]), bad[1],
                                                                  show_res(ctx, t2.cell(*bad)[0]), show_res(ctx, m.tab.cell(*bad)[0])))
                except Undecided as u:
                    rep.finding('%s %s inherent-advance_state undecided' % (rep.prop, m.name), 'inherent method shadowing the trait method could not be analysed: %s' % u)
    # every way of obtaining a decoder (Default::default, ...) must give the same initial condition as new()
    for m in models:
        for path, st, sp in other_constructors(ctx, m.self_str, m.new_path):
            ok = st == m.init_full
            rep.ob('constructors agree with new()', 1, 1 if ok else 0)
            if not ok:
                rep.finding('%s %s constructor %s initial-state' % (rep.prop, m.name, path.split('::')[-1]),
                            '%s (at %s) constructs a decoder in state %s, new() in state %s: byte streams decode differently from the start' % (
                                path, sp, m.tab.state_str(m.tab.proj(st)) if st else '<not constant>', m.tab.state_str(m.init)))
    rep.analysed['scancode_impls'] = [m.self_str for m in models]
    for m in models:
        rep.analysed[m.name] = {
            'fn': m.tab.fn_path, 'path_classes': len(m.tab.leaves), 'state_fields': m.tab.state_atoms, 'observer_only_fields': m.tab.observer_fields,
            'initial_state': m.tab.state_str(m.init), 'reachable_states': sorted(m.tab.state_str(s) for s in m.reach),
            'contexts': {k or '(none)': m.tab.state_str(v) for k, v in m.ctxs.items()},
            'engine': m.tab.engine_stats,
        }
    return models


def oracle_cell(kind, ctxname, byte, tables, single_shot):
    """Set of accepted (result, next context) for one cell, per the property statement."""
    UNK = ('err', 'UnknownKeyCode')
    if kind == 'set2':
        if ctxname in ('', 'E0', 'E1'):
            if ctxname == '' and byte in (0xE0, 0xE1):
                return [(('none',), 'E0' if byte == 0xE0 else 'E1')]
            if byte == 0xF0:
                return [(('none',), (ctxname + ' F0').strip())]
            k = tables[ctxname].get(byte)
            if k is None:
                return [(UNK, '')]
            if k in single_shot:
                return [(('ev', k, 'SingleShot'), '')]
            return [(('ev', k, 'Down'), '')]
        pfx = ctxname[:-2].strip()
        k = tables[pfx].get(byte)
        if k is None:
            return [(UNK, '')]
        if k in single_shot:   # "F0 00" / "F0 AA": left open by the statement
            return [(('ev', k, 'Up'), ''), (UNK, '')]
        return [(('ev', k, 'Up'), '')]
    else:
        if ctxname == '' and byte in (0xE0, 0xE1):
            return [(('none',), 'E0' if byte == 0xE0 else 'E1')]
        k = tables[ctxname].get(byte & 0x7F)
        if k is None:
            return [(UNK, '')]
        return [(('ev', k, 'Up' if byte & 0x80 else 'Down'), '')]


def named(ctx, res):
    if res[0] == 'ev':
        return ('ev', ctx.keycodes[res[1]], ctx.keystates[res[2]])
    if res[0] == 'err':
        return ('err', ctx.errors[res[1]])
    return res


def show_named(r):
    if r[0] == 'none':
        return 'Ok(None)'
    if r[0] == 'ev':
        return '%s(%s)' % (r[2], r[1])
    if r[0] == 'err':
        return 'Err(%s)' % r[1]
    return 'PANIC(%s)' % (r[1],)


def check_decode(ctx, rep, prop, kind, repo):
    from .rules_event import check_eq_structural
    check_eq_structural(ctx, rep, ('KeyCode', 'KeyState', 'KeyEvent', 'Error'))   # what 'the same key' / 'distinct keys' mean
    """C01 (kind='set2') / C02 (kind='set1')."""
    sc, _xl = load_ref()
    readme_drift(rep, repo, sc)
    tables = ref_tables(sc, kind, effective_keys(sc, repo, rep))
    single = set(sc['single_shot'])
    models = [m for m in build_models(ctx, rep) if m.kind == kind]
    if len(models) != 1:
        rep.finding('ANCHOR no-%s-impl' % kind, 'expected exactly one ScancodeSet impl for %s, found %d' % (kind, len(models)))
        return
    m = models[0]
    want_ctx = ['', 'E0', 'E1'] + (['F0', 'E0 F0', 'E1 F0'] if kind == 'set2' else [])
    for name, frm, byte, res in m.ctx_problems:
        rep.finding('%s %s ctx=%s byte=0x%02X expected=Ok(None) got=%s' % (prop, kind, frm or '-', byte, show_res(ctx, res)),
                    'prefix byte does not lead to a prefix context: ' + m.tab.where(m.ctxs[frm], byte))
    # every reachable state must be one of the contexts the statement describes
    inv = {}
    for n in want_ctx:
        if n in m.ctxs:
            inv.setdefault(m.ctxs[n], []).append(n)
    for s, names in inv.items():
        if len(names) > 1:
            rep.finding('%s %s contexts-alias %s' % (prop, kind, '|'.join(names)),
                        'distinct prefix histories %r lead to the same decoder state %s' % (names, m.tab.state_str(s)))
    for s in sorted(m.reach):
        if s not in inv:
            rep.finding('%s %s reachable-extra-state %s' % (prop, kind, m.tab.state_str(s)),
                        'state %s is reachable but corresponds to no prefix context of the statement' % m.tab.state_str(s))
    ncell = 0
    nontriv = set()
    for cname in want_ctx:
        if cname not in m.ctxs:
            continue
        for byte in range(256):
            res, post, li = m.cell(cname, byte)
            got = named(ctx, res)
            acc = oracle_cell(kind, cname, byte, tables, single)
            ncell += 1
            okres = [a for a in acc if a[0] == got]
            if not okres:
                rep.ob('cells', 1, 0)
                rep.finding('%s %s ctx=%s byte=0x%02X expected=%s got=%s' % (
                    prop, kind, cname or '-', byte, '|'.join(show_named(a[0]) for a in acc), show_named(got)),
                    m.tab.where(m.ctxs[cname], byte))
                continue
            exp_next = okres[0][1]
            if post != m.ctxs.get(exp_next):
                rep.ob('cells', 1, 0)
                rep.finding('%s %s ctx=%s byte=0x%02X next-context expected=%s got=%s' % (
                    prop, kind, cname or '-', byte, exp_next or '-', m.state_name(post)),
                    'after this byte the decoder is left in the wrong context; ' + m.tab.where(m.ctxs[cname], byte))
                continue
            rep.ob('cells', 1)
            if got[0] == 'ev':
                nontriv.add((cname, byte))
            if got[0] == 'ev' and len(rep.samples) < 6 and byte % 37 == 0:
                rep.sample({'context': cname or '-', 'byte': '0x%02X' % byte, 'decodes_to': show_named(got),
                            'next_context': exp_next or '-', 'where': m.tab.where(m.ctxs[cname], byte)})
    rep.nontrivial = len(nontriv)
    rep.floor('%s cells' % kind, ncell, 1536 if kind == 'set2' else 768)
    rep.analysed['cells_compared'] = ncell
    rep.analysed['reference_keys'] = sum(len(t) for t in tables.values())
    rep.rule = ('every (prefix context, byte) cell of the extracted %s automaton compared with the frozen IBM/Microsoft table; '
                'non-trivial = cells that decode to a key event' % kind)
    return m


def check_resync(ctx, rep):
    from .rules_event import check_clone_faithful
    check_clone_faithful(ctx, rep, ('ScancodeSet1', 'ScancodeSet2', 'KeyEvent', 'KeyCode', 'KeyState', 'Error'))   # a copy in another state / of another key is not the same decoder / event
    """C07"""
    models = build_models(ctx, rep)
    bounds = {'set1': 1, 'set2': 2}
    for m in models:
        t = m.tab
        nontriv = 0
        for s in sorted(m.reach):
            for byte in range(256):
                res, post, li = t.cell(s, byte)
                if res[0] in ('ev', 'err'):
                    if post != m.init:
                        rep.ob('resync', 1, 0)
                        rep.finding('C07 %s state=%s byte=0x%02X result=%s leaves-state=%s' % (
                            m.name, m.state_name(s), byte, show_res(ctx, res), m.state_name(post)),
                            'an event/error is reported but the decoder is not back in its initial state; ' + t.where(s, byte))
                    else:
                        rep.ob('resync', 1)
                        nontriv += 1 if s != m.init else 0
                elif res[0] == 'panic':
                    rep.ob('resync', 1, 0)
                    rep.finding('C07 %s state=%s byte=0x%02X panics' % (m.name, m.state_name(s), byte), t.where(s, byte))
                else:
                    rep.ob('resync', 1)
        # Ok(None) edges must form a DAG of bounded depth from init
        none_edges = {}
        for s in m.reach:
            for byte in range(256):
                res, post, _ = t.cell(s, byte)
                if res == ('none',):
                    none_edges.setdefault(s, set()).add((post, byte))
        depth = {}

        def longest(s, stack):
            if s in stack:
                return None
            if s in depth:
                return depth[s]
            best = 0
            for post, byte in none_edges.get(s, ()):
                d = longest(post, stack | {s})
                if d is None:
                    return None
                best = max(best, 1 + d)
            depth[s] = best
            return best
        worst = 0
        cyc = False
        for s in m.reach:
            d = longest(s, frozenset())
            if d is None:
                cyc = True
                break
            worst = max(worst, d)
        bound = bounds.get(m.kind)
        if cyc:
            rep.ob('silence-bound', 1, 0)
            rep.finding('C07 %s silent-cycle' % m.name,
                        "'no event yet' can be returned forever: the Ok(None) edges of the extracted automaton contain a cycle")
        elif bound is not None and worst > bound:
            rep.ob('silence-bound', 1, 0)
            rep.finding('C07 %s silent-run=%d bound=%d' % (m.name, worst, bound),
                        "'no event yet' can be returned for %d consecutive bytes (allowed: %d)" % (worst, bound))
        else:
            rep.ob('silence-bound', 1)
        rep.analysed[m.name]['max_consecutive_none'] = None if cyc else worst
        rep.nontrivial += nontriv
        rep.sample({'impl': m.name, 'reachable_states': [m.state_name(s) for s in sorted(m.reach)],
                    'ok_none_edges': sorted('%s --0x%02X--> %s' % (m.state_name(s), b, m.state_name(p))
                                            for s, e in none_edges.items() for p, b in e)})
    rep.rule = ('for every reachable decoder state x byte: an event or error implies post-state = initial state; '
                'Ok(None) edges acyclic with depth <= 2 (Set 2) / 1 (Set 1); non-trivial = cells in a prefix context')
    return models


def count_streams(models, rep, n=4):
    """Thorough tier: aggregate all 256^n byte streams over the extracted automaton (DP on state
    distributions) and confirm that after every event/error the state is initial at every position."""
    for m in models:
        dist = {m.init: 1}
        total_viol = 0
        longest_silence = {m.init: 0}
        for pos in range(n):
            nd = {}
            for s, cnt in dist.items():
                for byte in range(256):
                    res, post, _ = m.tab.cell(s, byte)
                    if post is None:
                        continue
                    if res[0] in ('ev', 'err') and post != m.init:
                        total_viol += cnt
                    nd[post] = nd.get(post, 0) + cnt
            dist = nd
        streams = sum(dist.values())
        rep.analysed[m.name]['streams_%d_bytes' % n] = streams
        rep.analysed[m.name]['streams_violating'] = total_viol
        rep.ob('byte-streams(len=%d) aggregated' % n, 1, 1 if total_viol == 0 and streams == 256 ** n else 0)
        if streams != 256 ** n:
            rep.finding('C07 %s stream-count' % m.name, 'aggregated stream count %d != 256^%d (some stream panics)' % (streams, n))


def tables_of(m, ctx):
    """{prefix: {code: keyname}} of make (Down / SingleShot) events from the automaton."""
    out = {}
    for p in ('', 'E0', 'E1'):
        t = {}
        if p in m.ctxs:
            rng = range(256) if m.kind == 'set2' else range(128)
            for c in rng:
                res, post, _ = m.cell(p, c)
                if res[0] == 'ev' and ctx.keystates[res[2]] in ('Down', 'SingleShot'):
                    t[c] = (ctx.keycodes[res[1]], ctx.keystates[res[2]])
        out[p] = t
    return out


def brk_of(m, ctx, p, c):
    """result of the break form of (prefix p, code c)"""
    if m.kind == 'set2':
        cn = (p + ' F0').strip()
        if cn not in m.ctxs:
            return ('missing',)
        return named(ctx, m.cell(cn, c)[0])
    return named(ctx, m.cell(p, c | 0x80)[0])


def check_xlat(ctx, rep):
    from .rules_event import check_eq_structural
    check_eq_structural(ctx, rep, ('KeyCode', 'KeyState', 'KeyEvent', 'Error'))   # what 'the same key' / 'distinct keys' mean
    """C13"""
    sc, xl = load_ref()
    single = set(sc['single_shot'])
    models = {m.kind: m for m in build_models(ctx, rep) if m.kind}
    if set(models) != {'set1', 'set2'}:
        rep.finding('ANCHOR sets', 'need ScancodeSet1 and ScancodeSet2 impls, found %s' % sorted(models))
        return
    m1, m2 = models['set1'], models['set2']
    t1, t2 = tables_of(m1, ctx), tables_of(m2, ctx)
    # cross-validate the translation table against the reference rows
    nval = 0
    for k, v in sc['keys'].items():
        if v['set1'] and v['set2']:
            p1, c1 = v['set1'][:-2], int(v['set1'][-2:], 16)
            p2, c2 = v['set2'][:-2], int(v['set2'][-2:], 16)
            nval += 1
            if p1 != p2 or xl.get(c2) != c1:
                raise Undecided('reference tables inconsistent with the i8042 translation at ' + k)
    rep.analysed['xlat_rows_cross_validated'] = nval
    pre = {}
    for c2, c1 in xl.items():
        pre.setdefault(c1, []).append(c2)
    nt = 0
    for p in ('', 'E0', 'E1'):
        for c2 in sorted(xl):
            if c2 == 0x00:
                continue
            c1 = xl[c2]
            e2 = t2[p].get(c2)
            if e2 is None:
                continue
            k2, st2 = e2
            if k2 in single:
                continue
            nt += 1
            e1 = t1[p].get(c1)
            lbl = '%s%02X' % (p, c2)
            if e1 is not None and e1[0] == k2 and e1[1] != st2:
                rep.ob('set2->set1 make', 1, 0)
                rep.finding('C13 prefix=%s set2=0x%02X key=%s set1=0x%02X state-mismatch set2=%s set1=%s' % (
                    p or '-', c2, k2, c1, st2, e1[1]),
                    'the same key is reported as %s by Set 2 (%s) but as %s by Set 1 (%s)' % (
                        st2, m2.tab.where(m2.ctxs[p], c2), e1[1], m1.tab.where(m1.ctxs[p], c1)))
                continue
            if e1 is None or e1[0] != k2:
                rep.ob('set2->set1 make', 1, 0)
                rep.finding('C13 prefix=%s set2=0x%02X key=%s set1=0x%02X got=%s' % (
                    p or '-', c2, k2, c1, e1[0] if e1 else 'undefined'),
                    'Set 2 decodes %s %02X as %s (%s) but the translated Set 1 sequence %s %02X decodes as %s (%s)' % (
                        p, c2, k2, m2.tab.where(m2.ctxs[p], c2), p, c1, e1[0] if e1 else 'UnknownKeyCode',
                        m1.tab.where(m1.ctxs[p], c1)))
            else:
                rep.ob('set2->set1 make', 1)
            # break forms
            b2 = brk_of(m2, ctx, p, c2)
            b1 = brk_of(m1, ctx, p, c1)
            if b2 != b1 or b2 != ('ev', k2, 'Up'):
                if not (e1 is None or e1[0] != k2):   # do not double-report the same misplaced key
                    rep.ob('set2->set1 break', 1, 0)
                    rep.finding('C13 prefix=%s set2=F0,0x%02X key=%s set1=0x%02X break-mismatch' % (p or '-', c2, k2, c1 | 0x80),
                                'release forms disagree: Set 2 gives %s, Set 1 gives %s' % (show_named(b2), show_named(b1)))
                else:
                    rep.ob('set2->set1 break', 1, 0)
            else:
                rep.ob('set2->set1 break', 1)
        # converse
        for c1, e1 in sorted(t1[p].items()):
            k1 = e1[0]
            cands = pre.get(c1, [])
            defined = [(c2, t2[p][c2][0]) for c2 in cands if c2 in t2[p]]
            if not defined:
                rep.ob('set1->set2 preimage', 1, 0)
                rep.finding('C13 prefix=%s set1=0x%02X key=%s no-set2-preimage' % (p or '-', c1, k1),
                            'Set 1 decodes %s %02X as %s (%s) but no Set 2 code that the i8042 translates to it is defined (candidates: %s)' % (
                                p, c1, k1, m1.tab.where(m1.ctxs[p], c1), ', '.join('%02X' % c for c in cands) or 'none'))
            elif any(k != k1 for _, k in defined):
                rep.ob('set1->set2 preimage', 1, 0)
                rep.finding('C13 prefix=%s set1=0x%02X key=%s preimage-names-other-key' % (p or '-', c1, k1),
                            'Set 2 pre-images %s' % defined)
            else:
                rep.ob('set1->set2 preimage', 1)
    # ---- paired histories: both decoders are driven by every well-formed translated sequence from every pair of
    #      states reachable that way (an error in one set must not desynchronise it from the other)
    def feed(m, s, bytes_):
        last = None
        for b in bytes_:
            res, post, _ = m.tab.cell(s, b)
            if post is None:
                return ('panic',), None
            last, s = res, post
        return last, s
    seen = {(m1.init, m2.init)}
    work = [(m1.init, m2.init, '')]
    npairs = 0
    while work:
        s1, s2, hist = work.pop()
        npairs += 1
        reported = False
        for p in ('', 'E0', 'E1'):
            pb = [] if not p else [int(p, 16)]
            for brk in (False, True):
                for c2 in sorted(xl):
                    if c2 == 0x00:
                        continue
                    c1 = xl[c2]
                    seq2 = pb + ([0xF0] if brk else []) + [c2]
                    seq1 = pb + [c1 | 0x80 if brk else c1]
                    if seq1[-1] in (0xE0, 0xE1):
                        continue      # the translation of this (undefined) code collides with a Set 1 prefix byte:
                                      # not a well-formed Set 1 sequence, no key sends it
                    r2, n2 = feed(m2, s2, seq2)
                    r1, n1 = feed(m1, s1, seq1)
                    if n1 is None or n2 is None:
                        continue
                    if (n1, n2) not in seen and len(seen) < 400:
                        seen.add((n1, n2))
                        work.append((n1, n2, ' '.join('%02X' % b for b in seq2)))
                    if (s1, s2) == (m1.init, m2.init):
                        continue      # the pair of initial states is what the table comparison above decides
                    a, b = named(ctx, r2), named(ctx, r1)
                    if a[0] == 'ev' and a[1] not in single and a != b:
                        rep.ob('paired histories', 1, 0)
                        if not reported:
                            reported = True
                            rep.finding('C13 after-history states=(set1:%s,set2:%s)' % (m1.state_name(s1), m2.state_name(s2)),
                                        'after the Set 2 history "... %s" (and its translation) the decoders are in states set1=%s / set2=%s, '
                                        'where Set 2 decodes %s as %s but Set 1 decodes %s as %s' % (
                                            hist, m1.state_name(s1), m2.state_name(s2),
                                            ' '.join('%02X' % x for x in seq2), show_named(a),
                                            ' '.join('%02X' % x for x in seq1), show_named(b)))
                    else:
                        rep.ob('paired histories', 1)
    rep.analysed['paired_state_pairs_explored'] = npairs
    rep.nontrivial = nt
    rep.sample({'set2': 'E0 5A', 'xlat': '5A->1C', 'set1': 'E0 1C', 'key': t2['E0'].get(0x5A, ('?',))[0]})
    rep.sample({'set2': '1C', 'xlat': '1C->%02X' % xl[0x1C], 'set1': '%02X' % xl[0x1C], 'key': t2[''].get(0x1C, ('?',))[0]})
    rep.rule = ('for each prefix and each translatable Set 2 code defined by the Set 2 automaton, the Set 1 automaton must decode the '
                'translated code to the same key (make and break); conversely each Set 1 entry needs a defined, agreeing Set 2 pre-image')


def check_pairing(ctx, rep):
    from .rules_event import check_eq_structural
    check_eq_structural(ctx, rep, ('KeyCode', 'KeyState', 'KeyEvent', 'Error'))   # what 'the same key' / 'distinct keys' mean
    """C19"""
    sc, _ = load_ref()
    single = set(sc['single_shot'])
    models = [m for m in build_models(ctx, rep) if m.kind]
    rep.floor('recognised scancode sets', len(models), 2)
    for m in models:
        t = tables_of(m, ctx)
        seen = {}
        for p in ('', 'E0', 'E1'):
            if p not in m.ctxs:
                continue
            rng = range(256) if m.kind == 'set2' else range(128)
            for c in rng:
                res, post, _ = m.cell(p, c)
                if res == ('none',):
                    continue   # prefix byte, not a complete sequence
                mk = named(ctx, res)
                bk = brk_of(m, ctx, p, c)
                if m.kind == 'set1' and m.cell(p, c | 0x80)[0] == ('none',):
                    bk = ('prefix',)
                is_down = mk[0] == 'ev' and mk[2] == 'Down'
                is_up = bk[0] == 'ev' and bk[2] == 'Up'
                if mk[0] == 'ev' and mk[2] == 'SingleShot' and mk[1] in single:
                    rep.ob('pairing', 1)
                    continue
                if is_down != is_up or (is_down and mk[1] != bk[1]):
                    if is_up and not is_down and bk[1] in single:
                        rep.ob('pairing', 1)
                        continue
                    rep.ob('pairing', 1, 0)
                    rep.finding('C19 %s prefix=%s code=0x%02X make=%s break=%s' % (m.name, p or '-', c, show_named(mk), show_named(bk)),
                                'make and break forms of one sequence disagree; make: %s' % m.tab.where(m.ctxs[p], c))
                else:
                    rep.ob('pairing', 1)
                if mk[0] == 'ev':
                    rep.nontrivial += 1
                    prev = seen.get(mk[1])
                    if prev is not None:
                        rep.ob('injective', 1, 0)
                        rep.finding('C19 %s key=%s sequences=%s|%s' % (m.name, mk[1], prev, ('%s %02X' % (p, c)).strip()),
                                    'two distinct complete sequences decode to the same key')
                    else:
                        rep.ob('injective', 1)
                        seen[mk[1]] = ('%s %02X' % (p, c)).strip()
        rep.analysed[m.name]['distinct_keys'] = len(seen)
        rep.sample({'impl': m.name, 'example': 'A', 'sequence': seen.get('A')})
    rep.rule = ('per set: every complete (prefix, code) sequence decodes as Down(K) iff its break form decodes as Up(K); '
                'keys are the image of at most one sequence; no reference table involved')
