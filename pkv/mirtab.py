"""mirtab - abstract interpreter over dumped MIR that extracts decision tables.

See DESIGN.md 3.2.  Inputs are *atoms* with finite value sets; values are
constants, terms over atoms, ADT values, references into a tree-shaped store,
or opaque symbols.  At a `switchInt` / `Assert` the current value set of the
atom(s) the condition mentions is partitioned by successor (powerset-domain
transfer function; Shannon expansion when several atoms are involved).  The
result for a function is a list of *leaves* (path classes): a cube of atom value
sets -> return value / final store / opaque calls / panic, with the spans of
every branch decision on the way.

Nothing of the analysed crate is executed: what is evaluated are MIR terms over
abstract inputs.  Anything outside the modelled construct set raises
`Undecided` (fail closed).
"""
import json
import itertools
from fractions import Fraction

# --------------------------------------------------------------------------
# scalar types

INT_TYPES = {
    'u8': (8, False), 'u16': (16, False), 'u32': (32, False), 'u64': (64, False),
    'u128': (128, False), 'usize': (64, False),
    'i8': (8, True), 'i16': (16, True), 'i32': (32, True), 'i64': (64, True),
    'i128': (128, True), 'isize': (64, True),
    'bool': (1, False), 'char': (32, False),
}


class BudgetExceeded(BaseException):
    """Raised by the wall-clock budget (pkv.main installs the SIGALRM handler); deliberately not an Exception so that no
    `except Undecided` / `except Exception` inside the engine swallows it."""


class soft_budget:
    """`with soft_budget(120, 'why')`: a tighter wall-clock budget for one exploration that is known to be risky; when it runs out
    the block fails closed with Undecided(why).  A no-op when no budget handler is installed (tools that import the engine)."""
    def __init__(self, seconds, why):
        self.seconds, self.why = seconds, why
    def __enter__(self):
        import signal, time
        self.active = callable(signal.getsignal(signal.SIGALRM))
        if self.active:
            self.prev = signal.getitimer(signal.ITIMER_REAL)[0]
            self.t0 = time.time()
            self.mine = self.prev == 0 or self.prev > self.seconds
            if self.mine:
                signal.setitimer(signal.ITIMER_REAL, self.seconds)
        return self
    def __exit__(self, et, ev, tb):
        import signal, time
        if not self.active:
            return False
        if self.mine:
            left = (self.prev - (time.time() - self.t0)) if self.prev else 0
            signal.setitimer(signal.ITIMER_REAL, max(left, 1) if self.prev else 0)
        if et is BudgetExceeded and self.mine:
            raise Undecided(self.why)
        return False


class Undecided(Exception):
    """A construct the abstract semantics cannot decide (fail closed)."""

    def __init__(self, what, where=None):
        Exception.__init__(self, what)
        self.what = what
        self.where = where

    def __str__(self):
        return 'UNDECIDED: %s%s' % (self.what, (' at ' + self.where) if self.where else '')


class NeedFrame(Exception):
    """Evaluating an operand needs a body to be run first (a promoted constant whose initialiser calls a const fn):
    the frame is pushed, and the interrupted statement / terminator is re-executed when it returns."""

    def __init__(self, fn, body, store_key):
        Exception.__init__(self, 'need frame')
        self.fn, self.body, self.store_key = fn, body, store_key


class NeedSplit(Exception):
    """An array index (or similar) is not yet a constant: the state must be split on it first."""

    def __init__(self, value):
        Exception.__init__(self, 'need split')
        self.value = value


def C(v, tk):
    return ('c', v, tk)


def is_const(v):
    return v is not None and v[0] == 'c'


def is_scalar(v):
    return v is not None and v[0] in ('c', 'a', 't')


def tk_of(v):
    if v[0] == 'c' or v[0] == 'a':
        return v[2]
    if v[0] == 't':
        return v[3]
    raise Undecided('tk_of non-scalar %r' % (v[0],))


DISCR = {}   # enum path -> list of discriminant values by variant index (only non-positional ones)


def wrap(val, tk):
    """Normalise python int to the value range of scalar type tk."""
    if tk.startswith('E:'):
        return val
    bits, signed = INT_TYPES[tk]
    val &= (1 << bits) - 1
    if signed and val >> (bits - 1):
        val -= 1 << bits
    return val


_WHITE_SPACE = {9, 10, 11, 12, 13, 32, 0x85, 0xA0, 0x1680, 0x2028, 0x2029, 0x202F, 0x205F, 0x3000} | set(range(0x2000, 0x200B))
UNICODE_MODEL_LIMIT = 0x250      # the model is validated exhaustively against rustc below this code point (enginetest u_*)
UNICODE_MODEL_EXTRA = {0x20AC, 0x2C7}   # plus individually validated characters that keyboard layouts use


def unicode_model(what, cp):
    """Unicode properties / case mappings of `char` methods whose tables live in non-inlinable library functions.
    Python's unicodedata stands in for core's tables only where the two were compared exhaustively."""
    import unicodedata
    limit = 0x100 if what.startswith('to_') else UNICODE_MODEL_LIMIT   # new capitals keep being added for old small letters (U+019B got one in Unicode 16)
    if not (0 <= cp < limit or cp in UNICODE_MODEL_EXTRA):
        raise Undecided('Unicode property of U+%04X is outside the validated range of the model' % cp)
    ch = chr(cp)
    cat = unicodedata.category(ch)
    if what == 'alphabetic':
        return int(cat in ('Lu', 'Ll', 'Lt', 'Lm', 'Lo', 'Nl'))
    if what == 'lowercase':
        return int(ch.islower())
    if what == 'uppercase':
        return int(ch.isupper())
    if what == 'n':
        return int(cat in ('Nd', 'Nl', 'No'))
    if what == 'white_space':
        return int(cp in _WHITE_SPACE)
    if what == 'cc':
        return int(cat == 'Cc')
    if what.startswith('to_upper') or what.startswith('to_lower'):
        m = ch.upper() if what.startswith('to_upper') else ch.lower()
        i = int(what[-1])
        return ord(m[i]) if i < len(m) else 0
    raise Undecided('Unicode property %s is not modelled' % what)


def apply_op(op, xs, tks, rtk):
    """Concrete semantics of one term operator on python ints."""
    if op == 'Cast':
        x = xs[0]
        return wrap(x, rtk)
    if op == 'Not':
        if tks[0] == 'bool':
            return 1 - xs[0]
        return wrap(~xs[0], rtk)
    if op == 'Neg':
        return wrap(-xs[0], rtk)
    if op == 'Discr':
        return DISCR[tks[0][2:]][xs[0]]
    if op == 'CountOnes':
        bits, _ = INT_TYPES[tks[0]]
        return bin(xs[0] & ((1 << bits) - 1)).count('1')
    if op.startswith('Uni:'):
        return unicode_model(op[4:], xs[0])
    if op in ('Ctlz', 'Cttz', 'Bswap', 'BitRev'):
        bits, _ = INT_TYPES[tks[0]]
        u = xs[0] & ((1 << bits) - 1)
        bs = format(u, '0%db' % bits)
        if op == 'Ctlz':
            return bits if u == 0 else len(bs) - len(bs.lstrip('0'))
        if op == 'Cttz':
            return bits if u == 0 else len(bs) - len(bs.rstrip('0'))
        if op == 'BitRev':
            return wrap(int(bs[::-1], 2), rtk)
        return wrap(int.from_bytes(u.to_bytes(bits // 8, 'big'), 'little'), rtk)
    a, b = xs
    if op in ('RotL', 'RotR'):
        bits, _ = INT_TYPES[tks[0]]
        u = a & ((1 << bits) - 1)
        k = b % bits
        if op == 'RotR':
            k = (bits - k) % bits
        return wrap(((u << k) | (u >> (bits - k))) & ((1 << bits) - 1), rtk)
    if op in ('SatAdd', 'SatSub'):
        bits, signed = INT_TYPES[tks[0]]
        lo, hi = (-(1 << (bits - 1)), (1 << (bits - 1)) - 1) if signed else (0, (1 << bits) - 1)
        r = a + b if op == 'SatAdd' else a - b
        return max(lo, min(hi, r))
    if op == 'Add': return wrap(a + b, rtk)
    if op == 'Sub': return wrap(a - b, rtk)
    if op == 'Mul': return wrap(a * b, rtk)
    if op in ('AddOvf', 'SubOvf', 'MulOvf'):
        r = {'AddOvf': a + b, 'SubOvf': a - b, 'MulOvf': a * b}[op]
        return 0 if wrap(r, tks[0]) == r else 1
    if op == 'BitAnd': return wrap(a & b, rtk)
    if op == 'BitOr': return wrap(a | b, rtk)
    if op == 'BitXor': return wrap(a ^ b, rtk)
    if op in ('Shl', 'Shr', 'ShlUnchecked', 'ShrUnchecked'):
        bits, _ = INT_TYPES[rtk]
        sh = b % bits  # MIR Shl/Shr mask the shift amount; the overflow Assert (if any) is separate
        return wrap(a << sh, rtk) if op.startswith('Shl') else wrap(a >> sh, rtk)
    if op == 'Cmp':   # index into core::cmp::Ordering {Less, Equal, Greater}
        return 0 if a < b else (1 if a == b else 2)
    if op == 'Eq': return int(a == b)
    if op == 'Ne': return int(a != b)
    if op == 'Lt': return int(a < b)
    if op == 'Le': return int(a <= b)
    if op == 'Gt': return int(a > b)
    if op == 'Ge': return int(a >= b)
    if op == 'Rem':
        if b == 0: raise Undecided('Rem by zero in term')
        r = abs(a) % abs(b)
        return wrap(-r if a < 0 else r, rtk)
    if op == 'Div':
        if b == 0: raise Undecided('Div by zero in term')
        q = abs(a) // abs(b)
        return wrap(-q if (a < 0) != (b < 0) else q, rtk)
    raise Undecided('term operator %s' % op)


def T(op, args, rtk):
    """Build a term with constant folding and a few boolean identities."""
    if all(a[0] == 'c' for a in args):
        return C(apply_op(op, [a[1] for a in args], [a[2] for a in args], rtk), rtk)
    if rtk == 'bool' and op in ('BitOr', 'BitAnd'):
        a, b = args
        for x, y in ((a, b), (b, a)):
            if x[0] == 'c':
                if op == 'BitOr':
                    return C(1, 'bool') if x[1] else y
                return y if x[1] else C(0, 'bool')
    if rtk == 'bool' and op == 'BitXor':
        a, b = args
        for x, y in ((a, b), (b, a)):
            if x[0] == 'c':
                return T('Not', (y,), 'bool') if x[1] else y
    if op == 'Not' and args[0][0] == 't' and args[0][1] == 'Not' and rtk == 'bool':
        return args[0][2][0]
    return ('t', op, tuple(args), rtk)


def atoms_in(v, acc=None):
    if acc is None:
        acc = []
    if v[0] == 'a':
        if v[1] not in acc:
            acc.append(v[1])
    elif v[0] == 't':
        for a in v[2]:
            atoms_in(a, acc)
    return acc


def ev(v, asg):
    """Evaluate scalar value under a complete assignment atom-name -> int."""
    k = v[0]
    if k == 'c':
        return v[1]
    if k == 'a':
        return asg[v[1]]
    xs = [ev(a, asg) for a in v[2]]
    return apply_op(v[1], xs, [tk_of(a) for a in v[2]], v[3])


def subst(v, asg):
    """Substitute atoms that have a value in asg; fold."""
    k = v[0]
    if k == 'c':
        return v
    if k == 'a':
        return C(asg[v[1]], v[2]) if v[1] in asg else v
    args = tuple(subst(a, asg) for a in v[2])
    return T(v[1], args, v[3])


def term_str(v):
    if v is None:
        return '<uninit>'
    k = v[0]
    if k == 'c':
        return '%s:%s' % (v[1], v[2])
    if k == 'a':
        return v[1]
    if k == 't':
        return '%s(%s)' % (v[1], ', '.join(term_str(a) for a in v[2]))
    if k == 'adt':
        return '%s#%d(%s)' % (v[1], v[2], ', '.join(term_str(a) for a in v[3]))
    if k == 'arr':
        return '[%s]' % ', '.join(term_str(a) for a in v[1])
    if k == 'se':
        return '%s?%s' % (v[1], term_str(v[2]))
    if k == 'ref':
        return '&%s%s' % (v[1], ''.join('.%s%s' % (p[0], '_'.join(str(q) for q in p[1:])) for p in v[2]))
    if k == 'op':
        return 'opaque<%s>' % v[1]
    if k == 'dyn':
        return 'dyn(%s)' % term_str(v[1])
    if k == 'fn':
        return 'fn(%s)' % (v[1] if isinstance(v[1], str) else v[1].get('path_inst') or v[1].get('path'))
    return repr(v)


# --------------------------------------------------------------------------
# program facts

SHIM_MAP = {
    # library function (generic def path) -> safe stand-in in /verif/shims/src/lib.rs
    'core::slice::<impl [T]>::iter': 'slice_iter',
    "core::slice::Iter::<'a, T>::new": 'slice_iter',
    "core::array::<impl core::iter::IntoIterator for &'a [T; N]>::into_iter": 'slice_iter',
    "core::slice::iter::<impl core::iter::IntoIterator for &'a [T]>::into_iter": 'slice_iter',
    "<core::slice::Iter<'a, T> as core::iter::Iterator>::next": 'iter_next',
    "<core::slice::Iter<'a, T> as core::iter::Iterator>::find": 'iter_find',
    "<core::slice::Iter<'a, T> as core::iter::Iterator>::find_map": 'iter_find_map',
    "<core::slice::Iter<'a, T> as core::iter::Iterator>::position": 'iter_position',
    "<core::slice::Iter<'a, T> as core::iter::Iterator>::any": 'iter_any',
    "<core::slice::Iter<'a, T> as core::iter::Iterator>::all": 'iter_all',
    "<core::slice::Iter<'a, T> as core::iter::DoubleEndedIterator>::next_back": 'iter_next_back',
    "<core::slice::Iter<'a, T> as core::iter::Iterator>::size_hint": 'iter_size_hint',
    "<core::slice::Iter<'a, T> as core::iter::ExactSizeIterator>::len": 'iter_len',
    "<core::slice::Iter<'_, T> as core::iter::ExactSizeIterator>::len": 'iter_len',
    "<core::slice::Iter<'_, T> as core::iter::ExactSizeIterator>::is_empty": 'iter_is_empty',
    "<core::array::IntoIter<T, N> as core::iter::ExactSizeIterator>::is_empty": 'arr_iter_is_empty',
    "<core::slice::Iter<'a, T> as core::iter::Iterator>::count": 'iter_count',
    "<core::slice::Iter<'a, T> as core::iter::Iterator>::last": 'iter_last',
    "<core::slice::Iter<'a, T> as core::iter::Iterator>::nth": 'iter_nth',
    "<core::slice::Iter<'a, T> as core::iter::DoubleEndedIterator>::nth_back": 'iter_nth_back',
    "<core::slice::Iter<'a, T> as core::iter::Iterator>::fold": 'iter_fold',
    "<core::slice::Iter<'a, T> as core::iter::Iterator>::for_each": 'iter_for_each',
    "<core::slice::Iter<'a, T> as core::iter::Iterator>::rposition": 'iter_rposition',
    "<core::slice::Iter<'a, T> as core::iter::Iterator>::__iterator_get_unchecked": 'iter_get_unchecked',
    "core::slice::Iter::<'a, T>::as_slice": 'iter_as_slice',
    'core::slice::<impl [T]>::iter_mut': 'slice_iter_mut',
    "core::slice::IterMut::<'a, T>::new": 'slice_iter_mut',
    "core::array::<impl core::iter::IntoIterator for &'a mut [T; N]>::into_iter": 'slice_iter_mut',
    "core::slice::iter::<impl core::iter::IntoIterator for &'a mut [T]>::into_iter": 'slice_iter_mut',
    "<core::slice::IterMut<'a, T> as core::iter::Iterator>::next": 'iter_mut_next',
    'core::array::iter::<impl core::iter::IntoIterator for [T; N]>::into_iter': 'array_into_iter',
    'core::char::CaseMappingIter::new': 'case_mapping_iter_new',
    'core::slice::<impl [T]>::windows': 'slice_windows',
    "<core::slice::Windows<'a, T> as core::iter::Iterator>::next": 'windows_next',
    'core::slice::<impl [T]>::chunks': 'slice_chunks',
    "<core::slice::Chunks<'a, T> as core::iter::Iterator>::next": 'chunks_next',
    'core::slice::<impl [T]>::chunks_exact': 'slice_chunks_exact',
    "<core::slice::ChunksExact<'a, T> as core::iter::Iterator>::next": 'chunks_exact_next',
    "core::slice::ChunksExact::<'a, T>::remainder": 'chunks_exact_remainder',
    'core::str::<impl str>::chars': 'str_chars',
    "<core::str::Chars<'a> as core::iter::Iterator>::nth": 'chars_nth',
    "<core::str::Chars<'a> as core::iter::Iterator>::count": 'chars_count',
    "<core::str::Chars<'a> as core::iter::Iterator>::advance_by": 'chars_advance_by',
    'core::str::<impl str>::bytes': 'str_bytes',
    'core::str::<impl str>::char_indices': 'str_char_indices',
    '<core::array::IntoIter<T, N> as core::iter::Iterator>::next': 'arr_iter_next',
    '<core::array::IntoIter<T, N> as core::iter::DoubleEndedIterator>::next_back': 'arr_iter_next_back',
    '<core::array::IntoIter<T, N> as core::iter::Iterator>::size_hint': 'arr_iter_size_hint',
    '<core::array::IntoIter<T, N> as core::iter::ExactSizeIterator>::len': 'arr_iter_len',
    '<core::array::IntoIter<T, N> as core::iter::Iterator>::count': 'arr_iter_count',
    '<core::array::IntoIter<T, N> as core::iter::Iterator>::last': 'arr_iter_last',
    '<core::array::IntoIter<T, N> as core::iter::Iterator>::fold': 'arr_iter_fold',
    '<core::array::IntoIter<T, N> as core::iter::DoubleEndedIterator>::rfold': 'arr_iter_rfold',
    '<core::array::IntoIter<T, N> as core::iter::Iterator>::nth': 'arr_iter_nth',
    '<core::char::ToUppercase as core::iter::Iterator>::next': 'case_next',
    '<core::char::ToUppercase as core::iter::DoubleEndedIterator>::next_back': 'case_next_back',
    '<core::char::ToUppercase as core::iter::Iterator>::size_hint': 'case_size_hint',
    '<core::char::ToUppercase as core::iter::ExactSizeIterator>::len': 'case_len',
    '<core::char::ToUppercase as core::iter::Iterator>::count': 'case_count',
    '<core::char::ToUppercase as core::iter::Iterator>::last': 'case_last',
    '<core::char::ToUppercase as core::iter::Iterator>::fold': 'case_fold',
    '<core::char::ToLowercase as core::iter::Iterator>::next': 'case_next',
    '<core::char::ToLowercase as core::iter::DoubleEndedIterator>::next_back': 'case_next_back',
    '<core::char::ToLowercase as core::iter::Iterator>::size_hint': 'case_size_hint',
    '<core::char::ToLowercase as core::iter::ExactSizeIterator>::len': 'case_len',
    '<core::char::ToLowercase as core::iter::Iterator>::count': 'case_count',
    '<core::char::ToLowercase as core::iter::Iterator>::last': 'case_last',
    '<core::char::ToLowercase as core::iter::Iterator>::fold': 'case_fold',
    '<usize as core::slice::SliceIndex<[T]>>::get': 'slice_get_usize',
    'core::slice::<impl [T]>::contains': 'slice_contains',
    'core::slice::<impl [T]>::binary_search_by': 'binary_search_by',
}
# provided `Iterator` methods (generic def path shared by every iterator) on a particular iterator type
SHIM_MAP_SELF = {
    ('core::iter::Iterator::any', 'core::array::IntoIter'): 'arr_iter_any',
    ('core::iter::Iterator::all', 'core::array::IntoIter'): 'arr_iter_all',
    ('core::iter::Iterator::find', 'core::array::IntoIter'): 'arr_iter_find',
    ('core::iter::Iterator::find_map', 'core::array::IntoIter'): 'arr_iter_find_map',
    ('core::iter::Iterator::position', 'core::array::IntoIter'): 'arr_iter_position',
}
_SHIM_FACTS = None
import re as _re
CELL_MODELS = {'core::cell::Cell::<T>::get', 'core::cell::Cell::<T>::set', 'core::cell::Cell::<T>::replace'}
UNICODE_FN = _re.compile(r'^core::unicode::unicode_data::(\w+)::lookup(?:_slow)?$|^core::unicode::(?:unicode_data::)?conversions::(to_upper|to_lower)$')
# slice / pointer APIs that core implements with raw pointers; modelled on the interpreter's array values
SLICE_MODELS = {
    'core::ptr::swap', 'core::ptr::swap_nonoverlapping',
    'core::slice::<impl [T]>::split_at', 'core::slice::<impl [T]>::split_at_mut',
    'core::slice::<impl [T]>::split_at_checked', 'core::slice::<impl [T]>::split_at_mut_checked',
    'core::slice::<impl [T]>::split_at_unchecked', 'core::slice::<impl [T]>::split_at_mut_unchecked',
    'core::slice::<impl [T]>::copy_from_slice', 'core::slice::<impl [T]>::clone_from_slice',
    'core::slice::<impl [T]>::reverse', 'core::slice::<impl [T]>::fill', 'core::slice::<impl [T]>::swap',
    'core::slice::<impl [T]>::starts_with', 'core::slice::<impl [T]>::ends_with',
    'core::slice::cmp::<impl core::cmp::PartialEq<[U]> for [T]>::eq', 'core::slice::cmp::<impl core::cmp::PartialEq<[U]> for [T]>::ne',
    'core::array::equality::<impl core::cmp::PartialEq<[U; N]> for [T; N]>::eq', 'core::array::equality::<impl core::cmp::PartialEq<[U; N]> for [T; N]>::ne',
    'core::str::<impl str>::as_bytes', 'core::str::<impl str>::len', 'core::str::<impl str>::is_empty',
    'core::str::traits::<impl core::cmp::PartialEq for str>::eq', 'core::str::traits::<impl core::cmp::PartialEq for str>::ne',
}
# `slice[a..b]` and friends: modelled as a window onto the same storage (core implements them with raw pointers)
RANGE_INDEX = _re.compile(r'^<core::ops::(Range|RangeTo|RangeFrom|RangeInclusive|RangeToInclusive)<usize> as core::slice::SliceIndex<\[T\]>>::(index|index_mut|get|get_mut)$'
                          r'|^<core::ops::(RangeFull) as core::slice::SliceIndex<\[T\]>>::(index|index_mut|get|get_mut)$')


def load_shim_facts():
    global _SHIM_FACTS
    if _SHIM_FACTS is None:
        import json, os
        p = os.path.join(os.path.dirname(os.path.dirname(os.path.abspath(__file__))), 'shims', 'facts.json')
        try:
            with open(p) as f:
                _SHIM_FACTS = json.load(f)
        except OSError:
            _SHIM_FACTS = {}
    return _SHIM_FACTS


class Program:
    def __init__(self, facts):
        self.facts = facts
        sh = load_shim_facts()
        self.shim_fns = {f['path']: dict(f, path='shim::' + f['path'], shim=True) for f in sh.get('fns', [])}
        self.fns = {}
        for f in facts['fns']:
            if f['path'] in self.fns:
                raise Undecided('duplicate function path ' + f['path'])
            self.fns[f['path']] = f
        self.statics = {x['path']: x for x in facts.get('statics', [])}
        self.ext_fns = {}
        self.ext_generic = {}
        for f in facts.get('ext_fns', []):
            if f.get('generic'):
                self.ext_generic.setdefault(f['path'], f)
            else:
                self.ext_fns.setdefault(f['path_inst'], f)
        self.ext_by_path = {}
        for f in list(self.ext_fns.values()):
            self.ext_by_path.setdefault(f['path'], []).append(f)
        for f in sh.get('ext_fns', []):      # library callees of the shims themselves
            if f.get('generic'):
                self.ext_generic.setdefault(f['path'], f)
            else:
                self.ext_fns.setdefault(f['path_inst'], f)
        self.adts = {}
        for a in sh.get('adts', []) + sh.get('ext_adts', []):
            self.adts.setdefault(a['path'], a)
        for a in facts['adts'] + facts.get('ext_adts', []):
            self.adts[a['path']] = a
        self._fieldless = {}

    def find_drop_impl(self, adt_path):
        for im in self.facts.get('impls', []):
            if im.get('trait') in ('core::ops::Drop', 'Drop') and im['self_ty'].get('k') == 'adt' and im['self_ty'].get('path') == adt_path:
                for it in im['items']:
                    if it['name'] == 'drop' and it['is_fn'] and it['path'] in self.fns:
                        return it['path']
        return None

    def find_impl_method(self, trait, self_ty, method):
        """path of `<self_ty as trait>::method` among the crate's impls (dyn dispatch resolution)"""
        if trait is None or self_ty is None:
            return None
        for im in self.facts.get('impls', []):
            if im.get('trait') == trait.split('::')[-1] or im.get('trait') == trait:
                if im['self_ty'] == self_ty:
                    for it in im['items']:
                        if it['name'] == method and it['is_fn']:
                            return it['path']
                    # the impl does not override it: the trait's provided (default) body, generic over Self
                    for tr in self.facts.get('traits', []):
                        if tr['path'] == trait or tr['path'].split('::')[-1] == trait.split('::')[-1]:
                            dflt = tr['path'] + '::' + method
                            if method in tr.get('items', []) and dflt in self.fns:
                                return dflt
        return None

    @staticmethod
    def unify_ty(pat, ty, binds):
        """Match an impl's Self type pattern (may mention the impl's type parameters) against a concrete type."""
        if not isinstance(pat, dict) or not isinstance(ty, dict):
            return pat == ty
        if pat.get('k') == 'param':
            if pat['name'] in binds:
                return binds[pat['name']] == ty
            binds[pat['name']] = ty
            return True
        if not Program.has_param(pat):
            return pat == ty
        if pat.get('k') != ty.get('k'):
            return False
        k = pat['k']
        if k == 'adt':
            return pat['path'] == ty['path'] and len(pat['args']) == len(ty['args']) and \
                all(Program.unify_ty(a, b, binds) for a, b in zip(pat['args'], ty['args']))
        if k in ('ref', 'ptr'):
            return bool(pat.get('mut')) == bool(ty.get('mut')) and Program.unify_ty(pat['to'], ty['to'], binds)
        if k == 'tuple':
            return len(pat['elems']) == len(ty['elems']) and all(Program.unify_ty(a, b, binds) for a, b in zip(pat['elems'], ty['elems']))
        if k in ('array', 'slice'):
            return pat.get('len') == ty.get('len') and Program.unify_ty(pat['elem'], ty['elem'], binds)
        return False

    def resolve_impl(self, trait, self_ty, method, trait_args=None):
        """`<self_ty as trait>::method` through the crate's impl index, generic (blanket) impls included.
        -> (fn path, type arguments aligned with that function's `tparams` or None) or None."""
        if trait is None or self_ty is None:
            return None
        def targs_ok(im):
            ta = im.get('trait_args')
            if not ta or trait_args is None or len(trait_args) < len(ta):
                return True
            b_ = {}
            Program.unify_ty(im['self_ty'], self_ty, b_)
            return all(Program.has_param(x) or Program.unify_ty(p_, x, b_) for p_, x in zip(ta, trait_args))
        matching = [im for im in self.facts.get('impls', [])
                    if (im.get('trait') == trait.split('::')[-1] or im.get('trait') == trait) and Program.unify_ty(im['self_ty'], self_ty, {})
                    and targs_ok(im)]
        if len(matching) > 1:
            # rustc tells such impls apart by their where-clauses, which the interpreter does not evaluate
            raise Undecided('several impls of %s match %s structurally' % (trait, self_ty.get('path') or self_ty.get('k')))
        for im in matching:
            binds = {}
            Program.unify_ty(im['self_ty'], self_ty, binds)
            for it in im['items']:
                if it['name'] == method and it['is_fn'] and it['path'] in self.fns:
                    tp = self.fns[it['path']].get('tparams') or []
                    return it['path'], ([binds[n] for n in tp] if all(n in binds for n in tp) else None)
            for tr in self.facts.get('traits', []):
                if tr['path'] == trait or tr['path'].split('::')[-1] == trait.split('::')[-1]:
                    dflt = tr['path'] + '::' + method
                    if method in tr.get('items', []) and dflt in self.fns:
                        tp = self.fns[dflt].get('tparams') or []
                        return dflt, ([self_ty] if tp == ['Self'] else None)
            return None
        return None

    def ty_is_copy(self, ty, depth=0):
        """Is the type `Copy`?  True / False / None (cannot tell)."""
        if ty is None or depth > 8:
            return None
        k = ty.get('k')
        if k in ('int', 'bool', 'char', 'float', 'never', 'fndef', 'fnptr', 'rawptr', 'ptr'):
            return True
        if k == 'ref':
            return not ty.get('mut')
        if k == 'tuple':
            rs = [self.ty_is_copy(x, depth + 1) for x in ty['elems']]
        elif k == 'closure':
            rs = [self.ty_is_copy(x, depth + 1) for x in ty.get('upvars', [])]
        elif k == 'array':
            rs = [self.ty_is_copy(ty['elem'], depth + 1)]
        elif k == 'adt':
            if ty['path'] in ('core::option::Option', 'core::result::Result', 'core::ops::ControlFlow'):
                rs = [self.ty_is_copy(x, depth + 1) for x in ty['args']]
            elif ty['path'] == 'core::cmp::Ordering':
                return True
            elif self.adts.get(ty['path'], {}).get('local'):
                for im in self.facts.get('impls', []):
                    if im.get('trait') in ('core::marker::Copy', 'Copy') and im['self_ty'].get('k') == 'adt' and im['self_ty'].get('path') == ty['path']:
                        return True
                return False
            else:
                return None
        else:
            return None
        if any(r is False for r in rs):
            return False
        if any(r is None for r in rs):
            return None
        return True

    def clone_shim(self, self_ty):
        """Synthesised MIR of rustc's CloneShim for a non-Copy tuple / closure / array: clone field by field through each field's
        own `Clone::clone` (Copy fields are copied), then build the aggregate."""
        key = json.dumps(self_ty, sort_keys=True)
        if not hasattr(self, '_clone_shims'):
            self._clone_shims = {}
        if key in self._clone_shims:
            return self._clone_shims[key]
        k = self_ty.get('k')
        if k == 'tuple':
            ftys = list(self_ty['elems'])
        elif k == 'closure':
            ftys = list(self_ty.get('upvars', []))
        elif k == 'array' and self_ty.get('len') is not None and self_ty['len'] <= 64:
            ftys = [self_ty['elem']] * self_ty['len']
        else:
            self._clone_shims[key] = None
            return None
        sp = '<clone shim of %s>' % k
        locals_ = [{'ty': self_ty, 'name': None}, {'ty': {'k': 'ref', 'mut': False, 'to': self_ty}, 'name': 'self'}]
        blocks = []
        ops = []

        def field_place(i, fty):
            if k == 'array':
                return {'l': 1, 'p': [{'k': 'deref'}, {'k': 'cindex', 'i': i, 'min_length': i + 1, 'from_end': False}]}
            return {'l': 1, 'p': [{'k': 'deref'}, {'k': 'field', 'i': i, 'ty': fty}]}
        cur_stmts = []
        for i, fty in enumerate(ftys):
            cp = self.ty_is_copy(fty)
            if cp is None:
                self._clone_shims[key] = None
                return None
            if cp:
                ops.append({'k': 'copy', 'pl': field_place(i, fty)})
                continue
            r = len(locals_); locals_.append({'ty': {'k': 'ref', 'mut': False, 'to': fty}, 'name': None})
            c = len(locals_); locals_.append({'ty': fty, 'name': None})
            cur_stmts.append({'k': 'assign', 'pl': {'l': r, 'p': []}, 'rv': {'k': 'ref', 'mut': False, 'pl': field_place(i, fty)}, 'sp': sp, 'x': True})
            nested = fty.get('k') in ('tuple', 'closure', 'array')
            fnref = {'path': 'core::clone::Clone::clone', 'path_inst': '<field %d as Clone>::clone' % i, 'crate': 'core', 'local': False,
                     'args': [fty], 'unsafe': False, 'intrinsic': False, 'self_kind': 'ref', 'trait': 'core::clone::Clone', 'method': 'clone',
                     'resolved': ({'path': 'core::clone::Clone::clone', 'path_inst': '<field %d as Clone>::clone' % i, 'local': False, 'kind': 'shim',
                                   'args': [fty]} if nested else None)}
            blocks.append({'stmts': cur_stmts, 'term': {'k': 'call', 'fn': {'k': 'const', 'fn': fnref}, 'args': [{'k': 'move', 'pl': {'l': r, 'p': []}}],
                                                        'dest': {'l': c, 'p': []}, 't': len(blocks) + 1, 'sp': sp, 'x': True}})
            cur_stmts = []
            ops.append({'k': 'move', 'pl': {'l': c, 'p': []}})
        agg = {'k': 'agg', 'kind': 'array' if k == 'array' else k, 'ops': ops}
        if k == 'closure':
            agg['path'] = self_ty['path']
            if self_ty.get('inst'):
                agg['path_inst'] = self_ty['inst']
        cur_stmts.append({'k': 'assign', 'pl': {'l': 0, 'p': []}, 'rv': agg, 'sp': sp, 'x': True})
        blocks.append({'stmts': cur_stmts, 'term': {'k': 'return', 'sp': sp, 'x': True}})
        f = {'path': 'clone-shim:' + key[:80], 'path_inst': 'clone-shim:' + key, 'vis': 'shim', 'kind': 'Fn', 'name': 'clone', 'derived': True,
             'body': {'arg_count': 1, 'locals': locals_, 'blocks': blocks}, 'promoted': [], 'sp': sp, 'generics': [], 'tparams': []}
        self._clone_shims[key] = f
        return f

    def adt(self, path):
        a = self.adts.get(path)
        if a is None:
            raise Undecided('unknown ADT ' + path)
        return a

    def is_fieldless_enum(self, path):
        r = self._fieldless.get(path)
        if r is None:
            a = self.adt(path)
            r = a['kind'] == 'enum' and len(a['variants']) > 0 and all(not v['fields'] for v in a['variants'])
            if r and any(v['discr'] != v['idx'] for v in a['variants']):
                # mathematical values (-1 for Ordering::Less); switchInt normalises to the raw bits of the operand type
                DISCR[path] = [v['discr'] for v in a['variants']]
            self._fieldless[path] = r
        return r

    def variant_index(self, path, name):
        for v in self.adt(path)['variants']:
            if v['name'] == name:
                return v['idx']
        raise KeyError(name)

    def variant_name(self, path, idx):
        return self.adt(path)['variants'][idx]['name']

    def tk(self, ty):
        k = ty['k']
        if k in ('bool', 'char'):
            return k
        if k == 'int':
            return ty['name']
        if k == 'adt' and self.is_fieldless_enum(ty['path']):
            return 'E:' + ty['path']
        return None

    def subst_ty(self, ty, env):
        k = ty['k']
        if k == 'param':
            return env.get(ty['name'], ty)
        if k == 'adt':
            return dict(ty, args=[self.subst_ty(a, env) for a in ty['args']])
        if k in ('ref', 'ptr'):
            return dict(ty, to=self.subst_ty(ty['to'], env))
        if k == 'tuple':
            return dict(ty, elems=[self.subst_ty(a, env) for a in ty['elems']])
        if k in ('array', 'slice') and 'elem' in ty:
            out = dict(ty, elem=self.subst_ty(ty['elem'], env))
            if k == 'array' and out.get('len') is None and out.get('len_param') and (env.get(out['len_param']) or {}).get('k') == 'cval':
                out['len'] = env[out['len_param']]['int']
                out['len_param'] = None
            return out
        return ty

    @staticmethod
    def has_param(ty):
        if not isinstance(ty, dict):
            return False
        if ty.get('k') in ('param', 'alias', 'other', 'opaque'):
            return True
        if ty.get('k') == 'array' and ty.get('len') is None:
            return True
        return any(Program.has_param(x) for key in ('args', 'elems', 'upvars') for x in (ty.get(key) or [])) or \
            any(Program.has_param(ty[key]) for key in ('to', 'elem') if key in ty)

    def variant_field_tys(self, ty, vidx):
        a = self.adt(ty['path'])
        env = dict(zip(a['generics'], ty['args']))
        return [self.subst_ty(f['ty'], env) for f in a['variants'][vidx]['fields']]

    def uninhabited(self, ty):
        if ty['k'] == 'never':
            return True
        if ty['k'] == 'adt':
            a = self.adts.get(ty['path'])
            if a is not None and a['kind'] == 'enum' and not a['variants']:
                return True
        return False


def full_domain(prog, tk):
    if tk.startswith('E:'):
        return range(len(prog.adt(tk[2:])['variants']))
    bits, signed = INT_TYPES[tk]
    if tk == 'char' or bits > 16:
        return None
    if signed:
        return range(-(1 << (bits - 1)), 1 << (bits - 1))
    return range(1 << bits)


# --------------------------------------------------------------------------
# interpreter state

class Frame:
    __slots__ = ('uid', 'fn', 'body', 'bb', 'dest', 'ret_to', 'depth', 'pc', 'sub', 'targs')

    def __init__(self):
        self.targs = None   # type-parameter name -> concrete type, when this generic body runs for a known instantiation

    def copy(self):
        f = Frame()
        f.uid, f.fn, f.body, f.bb, f.dest, f.ret_to, f.depth, f.pc, f.sub = \
            self.uid, self.fn, self.body, self.bb, self.dest, self.ret_to, self.depth, self.pc, self.sub
        f.targs = self.targs
        return f

    def goto(self, bb):
        self.bb = bb
        self.pc = 0    # index of the next statement of the block to execute
        self.sub = 0   # progress inside a multi-step terminator (drop glue)


class State:
    __slots__ = ('frames', 'store', 'doms', 'trace', 'calls', 'ret_span', 'next_uid', 'steps', 'events')

    def fork(self):
        s = State()
        s.frames = [f.copy() for f in self.frames]
        s.store = dict(self.store)
        s.doms = dict(self.doms)
        s.trace = list(self.trace)
        s.calls = list(self.calls)
        s.events = list(self.events)
        s.ret_span = self.ret_span
        s.next_uid = self.next_uid
        s.steps = self.steps
        return s


class Leaf:
    """One path class."""
    __slots__ = ('kind', 'doms', 'ret', 'cells', 'calls', 'trace', 'ret_span', 'panic', 'events')

    def atoms_cube(self, names):
        return [self.doms[n] for n in names]


class Engine:
    DEFAULT_USE_EXT = True   # inline monomorphised library MIR in preference to the hand-written callee models

    def __init__(self, prog, opaque=(), max_steps=2_000_000, max_depth=12, use_ext=None):
        self.prog = prog
        self.use_ext = Engine.DEFAULT_USE_EXT if use_ext is None else use_ext
        self.opaque = set(opaque)
        self.max_steps = max_steps
        self.max_depth = max_depth
        self.sym_counter = 0
        self.arg_doms = {}
        self.full_doms = {}  # atom name -> full domain (for weights)
        self.stats = {'stmts': 0, 'forks': 0, 'leaves': 0, 'inlined_calls': 0, 'opaque_calls': 0}

    # ---------------------------------------------------------------- symbols
    def fresh(self, base):
        self.sym_counter += 1
        return '%s#%d' % (base, self.sym_counter)

    def mk_sym(self, ty, name, st, dom=None):
        """Fresh symbolic value of type `ty`; registers atoms (and heap cells) in st."""
        prog = self.prog
        tk = prog.tk(ty)
        if tk is not None:
            if dom is None:
                dom = self.arg_doms.get(name)
            d = dom if dom is not None else full_domain(prog, tk)
            st.doms[name] = frozenset(d) if d is not None else None
            self.full_doms[name] = st.doms[name]
            return ('a', name, tk)
        k = ty['k']
        if k == 'tuple':
            return ('adt', '(tuple)', 0, tuple(self.mk_sym(t, '%s.%d' % (name, i), st) for i, t in enumerate(ty['elems'])))
        if k == 'array' and ty.get('len') is not None and ty['len'] <= 512:
            return ('arr', tuple(self.mk_sym(ty['elem'], '%s[%d]' % (name, i), st) for i in range(ty['len'])))
        if k == 'ref':
            cell = ('H', name)
            if cell in st.store:
                raise Undecided('heap cell name clash: ' + name)
            st.store[cell] = None
            st.store[cell] = self.mk_sym(ty['to'], name + '^' if ty['to']['k'] == 'ref' else name, st)
            return ('ref', cell, ())
        if k == 'adt' and ty['path'] in prog.adts:
            a = prog.adt(ty['path'])
            if a['kind'] == 'struct':
                ftys = prog.variant_field_tys(ty, 0)
                return ('adt', ty['path'], 0, tuple(
                    self.mk_sym(t, '%s.%s' % (name, a['variants'][0]['fields'][i]['name']), st)
                    for i, t in enumerate(ftys)))
            if a['kind'] == 'enum':
                variants = []
                live = []
                for v in a['variants']:
                    ftys = prog.variant_field_tys(ty, v['idx'])
                    if any(prog.uninhabited(t) for t in ftys):
                        variants.append(None)
                        continue
                    live.append(v['idx'])
                    variants.append(tuple(self.mk_sym(t, '%s.%s.%d' % (name, v['name'], i), st)
                                          for i, t in enumerate(ftys)))
                tagname = name + '.tag'
                if tagname in self.arg_doms:
                    live = [x for x in live if x in set(self.arg_doms[tagname])]
                st.doms[tagname] = frozenset(live)
                self.full_doms[tagname] = st.doms[tagname]
                return ('se', ty['path'], ('a', tagname, 'isize'), tuple(variants))
        return ('op', name, ty)

    def declare_atom(self, st, name, tk, dom):
        """Register an input atom with an explicit value set (used by rules that build their own
        abstract pre-states, e.g. ghost bits of the shift register)."""
        st.doms[name] = frozenset(dom)
        if name not in self.full_doms:
            self.full_doms[name] = frozenset(dom)
        return ('a', name, tk)

    # ---------------------------------------------------------------- values
    def simp(self, v, st):
        """Substitute atoms whose current value set is a singleton."""
        if v is None:
            return v
        k = v[0]
        if k == 'c':
            return v
        if k == 'a':
            d = st.doms.get(v[1])
            if d is not None and len(d) == 1:
                return C(next(iter(d)), v[2])
            return v
        if k == 't':
            return T(v[1], tuple(self.simp(a, st) for a in v[2]), v[3])
        if k == 'se':
            tag = self.simp(v[2], st)
            if tag[0] == 'c':
                return ('adt', v[1], tag[1], v[3][tag[1]])
            return v
        return v

    def deep(self, v, st, seen=()):
        """Fully resolved copy of a value for reporting (refs keep their target and get a snapshot)."""
        if v is None:
            return None
        k = v[0]
        if k in ('c', 'a', 't'):
            return self.simp(v, st)
        if k == 'adt':
            return ('adt', v[1], v[2], tuple(self.deep(x, st, seen) for x in v[3]))
        if k == 'arr':
            return ('arr', tuple(self.deep(x, st, seen) for x in v[1]))
        if k == 'dyn':
            return ('dyn', self.deep(v[1], st, seen), v[2])
        if k == 'fn':
            return ('fn', v[1].get('path_inst') or v[1].get('path'))
        if k == 'se':
            s = self.simp(v, st)
            if s[0] == 'adt':
                return self.deep(s, st, seen)
            return ('se', v[1], v[2], tuple(None if fs is None else tuple(self.deep(x, st, seen) for x in fs) for fs in v[3]))
        if k == 'ref':
            cell, path = v[1], v[2]
            if (cell, path) in seen:
                return ('ref', cell, path, None)
            try:
                tgt = self.get_path(st.store.get(cell), path, st)
            except Undecided:
                tgt = None
            return ('ref', cell, path, self.deep(tgt, st, seen + ((cell, path),)))
        return v

    def get_path(self, v, path, st):
        for step in path:
            if v is None:
                raise Undecided('read through uninitialised value')
            if v[0] == 'se':
                v = self.simp(v, st)
            if step[0] == 'f':
                if v[0] != 'adt':
                    raise Undecided('field projection on %s' % v[0])
                v = v[3][step[1]]
            elif step[0] == 'i':
                if v[0] != 'arr':
                    raise Undecided('index projection on %s' % v[0])
                if not 0 <= step[1] < len(v[1]):
                    raise Undecided('array index %d out of bounds (%d) without a bounds check' % (step[1], len(v[1])))
                v = v[1][step[1]]
            elif step[0] == 's':   # sub-slice window [a, b)
                if v[0] != 'arr' or not 0 <= step[1] <= step[2] <= len(v[1]):
                    raise Undecided('sub-slice window outside its array')
                v = ('arr', v[1][step[1]:step[2]])
            else:  # downcast
                if v[0] == 'se':
                    d = st.doms.get(v[2][1]) if v[2][0] == 'a' else None
                    if d is None or d != frozenset([step[1]]):
                        raise Undecided('downcast of enum value whose variant is not decided')
                    v = ('adt', v[1], step[1], v[3][step[1]])
                elif v[0] == 'adt':
                    if v[2] != step[1]:
                        raise Undecided('downcast to variant %d of a value that is variant %d' % (step[1], v[2]))
                else:
                    raise Undecided('downcast on %s' % v[0])
        return v

    def set_path(self, v, path, new, st):
        if not path:
            return new
        step = path[0]
        if v is None:
            raise Undecided('partial write into uninitialised value')
        if v[0] == 'se':
            v = self.simp(v, st)
        if step[0] == 'i':
            if v[0] != 'arr' or not 0 <= step[1] < len(v[1]):
                raise Undecided('indexed write outside an array')
            elems = list(v[1])
            elems[step[1]] = self.set_path(elems[step[1]], path[1:], new, st)
            return ('arr', tuple(elems))
        if step[0] == 's':
            if v[0] != 'arr' or not 0 <= step[1] <= step[2] <= len(v[1]):
                raise Undecided('sub-slice write outside its array')
            sub = self.set_path(('arr', v[1][step[1]:step[2]]), path[1:], new, st)
            if sub[0] != 'arr' or len(sub[1]) != step[2] - step[1]:
                raise Undecided('sub-slice write changes the length')
            return ('arr', v[1][:step[1]] + tuple(sub[1]) + v[1][step[2]:])
        if v[0] != 'adt':
            raise Undecided('projection write on %s' % v[0])
        if step[0] == 'd':
            if v[2] != step[1]:
                raise Undecided('write through wrong downcast')
            return self.set_path(v, path[1:], new, st)
        fields = list(v[3])
        fields[step[1]] = self.set_path(fields[step[1]], path[1:], new, st)
        return ('adt', v[1], v[2], tuple(fields))

    def unique_value(self, v, st, limit=70000):
        """If scalar v takes the same value for every valuation in the current class, that value."""
        import itertools
        names = atoms_in(v)
        n = 1
        for a in names:
            d = st.doms.get(a)
            if d is None:
                return None
            n *= len(d)
            if n > limit:
                return None
        seen = None
        for vals in itertools.product(*[sorted(st.doms[a]) for a in names]):
            r = ev(v, dict(zip(names, vals)))
            if seen is None:
                seen = r
            elif r != seen:
                return None
        return seen

    # ---------------------------------------------------------------- places
    def resolve_place(self, pl, st, fr):
        cell = ('L', fr.uid, pl['l'])
        path = ()
        for e in pl['p']:
            k = e['k']
            if k == 'deref':
                v = self.get_path(st.store.get(cell), path, st)
                if v is not None and v[0] == 'dyn':
                    v = v[1]
                if v is None or v[0] != 'ref':
                    raise Undecided('deref of non-reference %s' % (term_str(v),))
                cell, path = v[1], v[2]
            elif k == 'field':
                path = path + (('f', e['i']),)
            elif k == 'downcast':
                path = path + (('d', e['v']),)
            elif k == 'index':
                iv = self.simp(st.store.get(('L', fr.uid, e['l'])), st)
                if iv is None or not is_scalar(iv):
                    raise Undecided('array index is not a scalar')
                if iv[0] != 'c':
                    only = self.unique_value(iv, st)
                    if only is None:
                        raise NeedSplit(iv)
                    iv = C(only, tk_of(iv))
                path = path + (('i', iv[1]),)
            elif k == 'cindex' and not e.get('from_end'):
                path = path + (('i', e['i']),)
            elif k in ('cindex', 'subslice'):
                cur = self.get_path(st.store.get(cell), path, st)
                if cur is None or cur[0] != 'arr':
                    raise Undecided('slice pattern on %s' % (cur[0] if cur else 'nothing'))
                n = len(cur[1])
                if k == 'cindex':
                    path = path + (('i', n - e['i']),)
                else:
                    path = path + (('s', e['from'], (n - e['to']) if e.get('from_end') else e['to']),)
            else:
                raise Undecided('place projection ' + e.get('s', k))
        return cell, path

    def load(self, pl, st, fr):
        cell, path = self.resolve_place(pl, st, fr)
        if cell not in st.store or (st.store[cell] is None and cell[0] == 'L' and cell[1] == fr.uid):
            z = None
            if cell[0] == 'L' and cell[1] == fr.uid and cell[2] < len(fr.body['locals']):
                lty = fr.body['locals'][cell[2]]['ty']
                z = self.zst_of(self.prog.subst_ty(lty, fr.targs) if fr.targs else lty)
            if z is None and cell not in st.store:
                raise Undecided('read of unassigned local _%s' % (cell[2] if cell[0] == 'L' else cell,))
            if z is not None:
                st.store[cell] = z
        return self.get_path(st.store[cell], path, st)

    def storev(self, pl, v, st, fr, span=None):
        cell, path = self.resolve_place(pl, st, fr)
        if path:
            st.store[cell] = self.set_path(st.store.get(cell), path, v, st)
        else:
            st.store[cell] = v
        if cell[0] == 'H':
            st.events.append(('write', cell, path, span, fr.fn['path']))

    # ---------------------------------------------------------------- operands
    def const_val(self, o, st, fr):
        ty = o['ty']
        tk = self.prog.tk(ty)
        if 'int' in o:
            if tk is None:
                raise Undecided('scalar constant of non-scalar type')
            return C(wrap(o['int'], tk), tk)
        if 'promoted' in o:
            return self.eval_promoted(o['promoted'], st, fr)
        if 'cparam' in o:
            # a const generic parameter used as a value: known when the frame runs for a known instantiation
            a = (fr.targs or {}).get(o['cparam'])
            if a is None or a.get('k') != 'cval' or tk is None:
                raise Undecided('value of the const parameter %s is not known here' % o['cparam'])
            return C(wrap(a['int'], tk), tk)
        if 'assoc' in o and 'int' not in o and 'val' not in o and fr.targs and o['assoc'].get('args'):
            # `<T as Trait>::CONST` in generic code running for a known instantiation
            ac = o['assoc']
            self_ty = self.prog.subst_ty(ac['args'][0], fr.targs)
            for im in self.prog.facts.get('impls', []):
                if im.get('trait') in (ac['trait'], ac['trait'].split('::')[-1]) and im['self_ty'] == self_ty:
                    for it in im['items']:
                        if it['name'] == ac['name'] and not it['is_fn'] and 'val' in it:
                            return self.structured_const(it['val'], st)
        if 'val' in o:
            return self.structured_const(o['val'], st)
        if 'zst' in o:
            if ty['k'] == 'tuple':
                return ('adt', '(tuple)', 0, ())
            if ty['k'] == 'closure':
                return self.zst_value(ty)
            return ('adt', ty['path'], 0, ())
        if 'fn' in o:
            return self.fn_value(o['fn'])
        if ty.get('k') == 'ref' and ty['to'].get('k') == 'str':
            # a string literal: a reference to text the interpreter never looks into (panic messages)
            cell = ('K', 'str:' + o.get('other', '?'))
            if cell not in st.store:
                st.store[cell] = ('op', 'str-data', ty['to'])
            return ('ref', cell, ())
        return ('op', 'const:' + o.get('other', '?')[:60], ty)

    def zst_value(self, ty):
        """The only value of a zero-sized type (a closure capturing only fn items / other such closures, a fn item, unit)."""
        k = ty.get('k')
        if k == 'closure':
            return ('adt', '(closure)' + ty['path'] + ('\t' + ty['inst'] if ty.get('inst') and ty['path'] not in self.prog.fns else ''), 0,
                    tuple(self.zst_value(u) for u in ty.get('upvars', [])))
        if k == 'fndef' and 'fn' in ty:
            return self.fn_value(ty['fn'])
        if k == 'tuple' and not ty['elems']:
            return ('adt', '(tuple)', 0, ())
        if k == 'adt' and ty['path'] in self.prog.adts and self.prog.adts[ty['path']]['kind'] == 'struct' \
                and not self.prog.adts[ty['path']]['variants'][0]['fields']:
            return ('adt', ty['path'], 0, ())
        if k == 'ref':
            raise Undecided('zero-sized constant containing a reference')
        raise Undecided('zero-sized constant of type %s' % k)

    def zst_of(self, ty, depth=0):
        """The only value of `ty` if it is a zero-sized struct / tuple (recursively), else None."""
        k = ty.get('k') if isinstance(ty, dict) else None
        if depth > 6:
            return None
        if k == 'tuple':
            fs = [self.zst_of(e, depth + 1) for e in ty['elems']]
            return None if any(f is None for f in fs) else ('adt', '(tuple)', 0, tuple(fs))
        if k == 'adt' and ty['path'] in self.prog.adts and self.prog.adts[ty['path']]['kind'] == 'struct':
            try:
                ftys = self.prog.variant_field_tys(ty, 0)
            except Exception:
                return None
            fs = [self.zst_of(e, depth + 1) for e in ftys]
            return None if any(f is None for f in fs) else ('adt', ty['path'], 0, tuple(fs))
        return None

    def static_cell(self, path, st):
        cell = ('S', path)
        if cell not in st.store:
            sx = self.prog.statics.get(path)
            if sx is None or 'val' not in sx:
                raise Undecided('static %s has no decodable initialiser' % path)
            if sx.get('mutable') or not sx.get('freeze', True):
                raise Undecided('read of mutable / interior-mutable static %s' % path)
            st.store[cell] = None
            st.store[cell] = self.structured_const(sx['val'], st)
        return cell

    def structured_const(self, j, st):
        ty = j['ty']
        if 'ref' in j:
            key = ('K', id(j))
            if key not in st.store:
                st.store[key] = None
                st.store[key] = self.structured_const(j['ref'], st)
            if j.get('dyn_of'):
                return ('dyn', ('ref', key, ()), j['dyn_of'])      # a trait object in a constant: the vtable names the concrete type
            return ('ref', key, ())
        if 'static_ref' in j:
            if j.get('offset'):
                raise Undecided('pointer into the middle of a static')
            return ('ref', self.static_cell(j['static_ref'], st), ())
        if 'fnptr' in j:
            return self.fn_value(j['fnptr'])
        if 'int' in j:
            tk = self.prog.tk(ty)
            if tk is None:
                raise Undecided('constant scalar of unknown type')
            return C(wrap(j['int'], tk), tk)
        if 'elems' in j:
            elems = tuple(self.structured_const(x, st) for x in j['elems'])
            if ty['k'] == 'array':
                return ('arr', elems)
            return ('adt', '(tuple)', 0, elems)
        if 'fields' in j:
            if self.prog.tk(ty) is not None:
                return C(j['variant'], 'E:' + j['path'])
            return ('adt', j['path'], j['variant'], tuple(self.structured_const(x, st) for x in j['fields']))
        raise Undecided('structured constant')

    def fn_value(self, fnref):
        """Function pointer / fn item as a first-class value.  A pointer to a non-capturing closure arrives as
        `<closure as FnOnce>::call_once`; it is normalised to the closure body."""
        if fnref.get('trait') in self.FN_TRAITS and fnref.get('args') and fnref['args'][0].get('k') == 'closure':
            cp = fnref['args'][0]['path']
            return ('fn', {'path': cp, 'path_inst': cp, 'closure_fnptr': True, 'resolved': None, 'trait': None})
        return ('fn', fnref)

    def eval_promoted(self, idx, st, fr):
        if idx >= len(fr.fn.get('promoted') or []):
            raise Undecided('promoted constant %d of %s was not extracted' % (idx, fr.fn.get('path')))
        body = fr.fn['promoted'][idx]
        key = ('P', fr.fn.get('path_inst') or fr.fn['path'], idx) if not fr.targs else \
            ('P', fr.fn.get('path_inst') or fr.fn['path'], idx, json.dumps(fr.targs, sort_keys=True))
        if key in st.store:
            return st.store[key]
        # run the (straight-line) promoted body in a scratch frame
        pf = Frame()
        pf.uid = st.next_uid; st.next_uid += 1
        pf.fn, pf.body, pf.bb, pf.dest, pf.ret_to, pf.depth, pf.pc = fr.fn, body, 0, None, None, fr.depth + 1, 0
        pf.targs = fr.targs
        pf.sub = 0
        bb = 0
        for _ in range(64):
            blk = body['blocks'][bb]
            for s in blk['stmts']:
                self.exec_stmt(s, st, pf)
            t = blk['term']
            if t['k'] == 'return':
                v = st.store[('L', pf.uid, 0)]
                st.store[key] = v
                return v
            if t['k'] == 'goto':
                bb = t['t']
                continue
            # not straight-line (e.g. `&RangeInclusive::new(..)`): run it as a proper frame
            for c in [c for c in st.store if c[0] == 'L' and c[1] == pf.uid]:
                del st.store[c]
            raise NeedFrame(fr.fn, body, key)
        raise Undecided('promoted constant does not terminate')

    def operand(self, o, st, fr):
        k = o['k']
        if k in ('copy', 'move'):
            return self.load(o['pl'], st, fr)
        if k == 'const':
            return self.const_val(o, st, fr)
        if k == 'other' and o.get('s') in ('UbChecks', 'ContractChecks', 'OverflowChecks'):
            # RuntimeChecks operands: library-internal UB / contract precondition checks are not analysed
            # (safe callers cannot violate them); overflow checks follow the build flavour
            if o['s'] == 'OverflowChecks':
                return C(1 if self.prog.facts.get('overflow_checks') else 0, 'bool')
            return C(0, 'bool')
        raise Undecided('operand ' + (o.get('s') or k))

    # ---------------------------------------------------------------- rvalues
    BIN = {'Add': 'Add', 'Sub': 'Sub', 'Mul': 'Mul', 'BitAnd': 'BitAnd', 'BitOr': 'BitOr', 'BitXor': 'BitXor',
           'Shl': 'Shl', 'Shr': 'Shr', 'Eq': 'Eq', 'Ne': 'Ne', 'Lt': 'Lt', 'Le': 'Le', 'Gt': 'Gt', 'Ge': 'Ge',
           'Rem': 'Rem', 'Div': 'Div', 'AddUnchecked': 'Add', 'SubUnchecked': 'Sub', 'MulUnchecked': 'Mul',
           'ShlUnchecked': 'Shl', 'ShrUnchecked': 'Shr'}
    CMP = ('Eq', 'Ne', 'Lt', 'Le', 'Gt', 'Ge')

    def rvalue(self, rv, st, fr, sp):
        k = rv['k']
        if k == 'use':
            return self.operand(rv['op'], st, fr)
        if k == 'ref':
            pj = rv['pl']['p']
            if pj and pj[-1]['k'] == 'deref':
                if len(pj) == 1:
                    base = st.store.get(('L', fr.uid, rv['pl']['l']))
                else:
                    try:
                        base = self.load({'l': rv['pl']['l'], 'p': pj[:-1]}, st, fr)
                    except Undecided:
                        base = None
                if base is not None and base[0] == 'dyn':
                    return base        # reborrow of a trait object keeps its vtable
            cell, path = self.resolve_place(rv['pl'], st, fr)
            if rv['mut'] and cell[0] == 'H':
                st.events.append(('mutborrow', cell, path, sp, fr.fn['path']))
            if not path and not pj and cell[0] == 'L' and cell[1] == fr.uid and st.store.get(cell) is None:
                # a borrow of a local that was never written: a zero-sized value whose assignment release-like MIR dropped
                lty = fr.body['locals'][cell[2]]['ty']
                z = self.zst_of(self.prog.subst_ty(lty, fr.targs) if fr.targs else lty)
                if z is not None:
                    st.store[cell] = z
            return ('ref', cell, path)
        if k == 'rawptr':
            # `&raw const place`: only ever used here to read slice metadata / re-derive a reference
            cell, path = self.resolve_place(rv['pl'], st, fr)
            return ('ref', cell, path)
        if k == 'bin':
            a = self.simp(self.operand(rv['a'], st, fr), st)
            b = self.simp(self.operand(rv['b'], st, fr), st)
            if not (is_scalar(a) and is_scalar(b)):
                if (a is not None and a[0] == 'fn') or (b is not None and b[0] == 'fn'):
                    raise Undecided('comparison of function pointers (the result is unspecified: the code generator may merge or '
                                    'duplicate functions)', sp)
                raise Undecided('binary op %s on non-scalars' % rv['op'], sp)
            op = rv['op']
            tka = tk_of(a)
            if op.endswith('WithOverflow'):
                base = op[:-len('WithOverflow')]
                return ('adt', '(tuple)', 0, (T(base, (a, b), tka), T(base + 'Ovf', (a, b), 'bool')))
            if op == 'Cmp':
                self.prog.is_fieldless_enum('core::cmp::Ordering')
                return T('Cmp', (a, b), 'E:core::cmp::Ordering')
            if op not in self.BIN:
                raise Undecided('binary operator ' + op, sp)
            o = self.BIN[op]
            return T(o, (a, b), 'bool' if o in self.CMP else tka)
        if k == 'un':
            a = self.simp(self.operand(rv['a'], st, fr), st)
            if rv['op'] == 'PtrMetadata' and a is not None and a[0] == 'ref':
                tgt = self.get_path(st.store.get(a[1]), a[2], st)
                if tgt is not None and tgt[0] == 'arr':
                    return C(len(tgt[1]), 'usize')
            if rv['op'] not in ('Not', 'Neg') or not is_scalar(a):
                raise Undecided('unary operator ' + rv['op'], sp)
            return T(rv['op'], (a,), tk_of(a))
        if k == 'cast':
            a = self.simp(self.operand(rv['op'], st, fr), st)
            tk = self.prog.tk(rv['ty'])
            if rv['kind'] == 'IntToInt' and is_scalar(a) and tk is not None and not tk.startswith('E:'):
                if tk_of(a).startswith('E:') and tk_of(a)[2:] in DISCR:
                    a = T('Discr', (a,), 'isize')
                return T('Cast', (a,), tk)
            if rv['kind'] == 'Transmute' and is_scalar(a) and tk in INT_TYPES and tk_of(a) in INT_TYPES \
                    and INT_TYPES[tk][0] == INT_TYPES[tk_of(a)][0] and tk != 'bool' and tk_of(a) != 'bool':
                return T('Cast', (a,), tk)
            if rv['kind'] == 'Transmute' and a is not None and a[0] == 'ref' and rv['ty'].get('k') == 'ref' \
                    and (rv['ty']['to'].get('k') == 'str' or (rv['ty']['to'].get('k') == 'slice' and self.prog.tk(rv['ty']['to']['elem']) == 'u8')):
                tgt_ = self.get_path(st.store.get(a[1]), a[2], st)
                if tgt_ is not None and tgt_[0] == 'arr' and all(x is not None and is_scalar(x) and tk_of(x) == 'u8' for x in tgt_[1]):
                    return a           # &str <-> &[u8]: same bytes (as_bytes / from_utf8_unchecked)
            if rv['kind'] == 'Transmute' and a is not None:
                dty_ = rv['ty']
                nz = 'core::num::NonZero'
                if is_scalar(a) and dty_.get('k') == 'adt' and dty_['path'] == nz:
                    return ('adt', nz, 0, (a,))        # transparent wrapper; core only ever transmutes in and out of it
                if is_scalar(a) and dty_.get('k') == 'adt' and dty_['path'] == 'core::option::Option' and dty_['args'] \
                        and dty_['args'][0].get('k') == 'adt' and dty_['args'][0]['path'] == nz:
                    isz = T('Eq', (a, C(0, tk_of(a))), 'bool')     # the niche: 0 is None
                    z = isz[1] if isz[0] == 'c' else self.unique_value(isz, st)
                    if z is None:
                        raise NeedSplit(isz)
                    return ('adt', 'core::option::Option', 0, ()) if z else ('adt', 'core::option::Option', 1, (('adt', nz, 0, (a,)),))
                if a[0] == 'adt' and a[1] == nz and len(a[3]) == 1 and is_scalar(a[3][0]):
                    if dty_.get('k') == 'adt' and dty_['path'] == nz:
                        return a
                    if tk in INT_TYPES and INT_TYPES[tk][0] == INT_TYPES[tk_of(a[3][0])][0]:
                        return T('Cast', (a[3][0],), tk)
                # byte array <-> integer (from_ne_bytes / to_ne_bytes); the analysed host is little-endian x86-64
                dty = rv['ty']
                if a[0] == 'arr' and tk in INT_TYPES and tk not in ('bool', 'char') and INT_TYPES[tk][0] == 8 * len(a[1]) \
                        and all(is_scalar(x) and tk_of(x) in ('u8', 'i8') for x in a[1]):
                    utk = 'u%d' % INT_TYPES[tk][0]
                    acc = C(0, utk)
                    for i, x in enumerate(a[1]):
                        acc = T('BitOr', (acc, T('Shl', (T('Cast', (T('Cast', (self.simp(x, st),), 'u8'),), utk), C(8 * i, 'u32')), utk)), utk)
                    return T('Cast', (acc,), tk)
                if is_scalar(a) and tk_of(a) in INT_TYPES and tk_of(a) not in ('bool', 'char') and dty.get('k') == 'array' \
                        and self.prog.tk(dty['elem']) in ('u8', 'i8') and dty.get('len') is not None and 8 * dty['len'] == INT_TYPES[tk_of(a)][0]:
                    utk = 'u%d' % INT_TYPES[tk_of(a)][0]
                    etk = self.prog.tk(dty['elem'])
                    ua = T('Cast', (a,), utk)
                    return ('arr', tuple(T('Cast', (T('Shr', (ua, C(8 * i, 'u32')), utk),), etk) for i in range(dty['len'])))
            kind = rv['kind']
            a0 = self.operand(rv['op'], st, fr)
            if kind.startswith('PointerCoercion(ReifyFnPointer') or kind.startswith('PointerCoercion(UnsafeFnPointer'):
                if a0 is not None and a0[0] == 'fn':
                    return a0
            if kind.startswith('PointerCoercion(ClosureFnPointer'):
                if a0 is not None and a0[0] == 'adt' and a0[1].startswith('(closure)') and not a0[3]:
                    cp = a0[1][len('(closure)'):].split('\t')[0]
                    return ('fn', {'path': cp, 'path_inst': cp, 'closure_fnptr': True, 'resolved': None, 'trait': None})
            if kind.startswith('PointerCoercion(Unsize'):
                if a0 is not None and a0[0] == 'dyn' and rv['ty'].get('k') == 'ref' and rv['ty']['to'].get('k') == 'dyn':
                    return a0              # &dyn Tr -> &dyn Tr (lifetime / auto-trait adjustment)
                if a0 is not None and a0[0] == 'ref':
                    dst = rv['ty']
                    if dst.get('k') == 'ref' and dst['to'].get('k') == 'slice':
                        return a0          # &[T; N] -> &[T]: same place, the length lives in the array value
                    if dst.get('k') == 'ref' and dst['to'].get('k') == 'dyn':
                        src = self.operand_ty(rv['op'], fr)
                        if src is not None and src.get('k') == 'ref':
                            return ('dyn', a0, src['to'])
            if kind.startswith('PointerCoercion') or kind in ('PtrToPtr',):
                raise Undecided('pointer cast ' + kind, sp)
            raise Undecided('cast ' + rv['kind'], sp)
        if k == 'discr':
            if not rv['pl']['p'] and ('L', fr.uid, rv['pl']['l']) not in st.store:
                # optimised library MIR drops the assignment of values such as `Option<Infallible>`, whose only
                # inhabited variant leaves nothing to store, but still reads their discriminant
                ty = fr.body['locals'][rv['pl']['l']]['ty']
                if ty.get('k') == 'adt' and ty['path'] in self.prog.adts and self.prog.adts[ty['path']]['kind'] == 'enum':
                    a = self.prog.adt(ty['path'])
                    live = [v_ for v_ in a['variants'] if not any(self.prog.uninhabited(t_) for t_ in self.prog.variant_field_tys(ty, v_['idx']))]
                    if len(live) == 1 and not live[0]['fields']:
                        return C(live[0]['discr'], 'isize')
            v = self.load(rv['pl'], st, fr)
            return self.discriminant(v, st, sp)
        if k == 'agg':
            ops = tuple(self.operand(o, st, fr) for o in rv['ops'])
            if rv['kind'] == 'tuple':
                return ('adt', '(tuple)', 0, ops)
            if rv['kind'] == 'array':
                return ('arr', ops)
            if rv['kind'] == 'closure':
                if fr.fn.get('vis') == 'ext' and rv.get('path_inst') and rv['path'] not in self.prog.fns:
                    return ('adt', '(closure)' + rv['path'] + '\t' + rv['path_inst'], 0, ops)
                return ('adt', '(closure)' + rv['path'], 0, ops)
            if rv['kind'] == 'adt':
                if self.prog.is_fieldless_enum(rv['path']):
                    return C(rv['variant'], 'E:' + rv['path'])
                return ('adt', rv['path'], rv['variant'], ops)
            raise Undecided('aggregate ' + rv.get('s', rv['kind']), sp)
        if k == 'repeat' and rv.get('n') is None and rv.get('n_param') and (fr.targs or {}).get(rv['n_param'], {}).get('k') == 'cval':
            rv = dict(rv, n=fr.targs[rv['n_param']]['int'])
        if k == 'repeat' and rv.get('n') is not None and rv['n'] <= 4096:
            return ('arr', (self.operand(rv['op'], st, fr),) * rv['n'])
        raise Undecided('rvalue ' + rv.get('s', k)[:80], sp)

    def discriminant(self, v, st, sp=None):
        if v is None:
            raise Undecided('discriminant of uninitialised value', sp)
        k = v[0]
        if k == 'adt':
            a = self.prog.adt(v[1])
            return C(a['variants'][v[2]]['discr'], 'isize')
        if k == 'se':
            a = self.prog.adt(v[1])
            if any(x['discr'] != x['idx'] for x in a['variants']):
                raise Undecided('symbolic enum with non-positional discriminants', sp)
            return self.simp(v[2], st)
        if k in ('c', 'a', 't') and tk_of(v).startswith('E:'):
            v = self.simp(v, st)
            if tk_of(v)[2:] in DISCR:
                return T('Discr', (v,), 'isize')
            return v
        raise Undecided('discriminant of %s' % term_str(v), sp)

    # ---------------------------------------------------------------- statements
    def exec_stmt(self, s, st, fr):
        self.stats['stmts'] += 1
        st.steps += 1
        if st.steps > self.max_steps:
            raise Undecided('step budget exhausted (loop?)', s.get('sp'))
        if s['k'] == 'assign':
            try:
                v = self.rvalue(s['rv'], st, fr, s['sp'])
            except Undecided as u_:
                if u_.where is None and s.get('sp'):
                    u_.where = s['sp']
                raise
            if s['rv']['k'] == 'discr' and is_scalar(v) and tk_of(v) == 'isize' and not s['pl']['p']:
                # Discriminant(place) has the enum's discriminant type (i8 for Ordering), which is the local's type
                dtk = self.prog.tk(fr.body['locals'][s['pl']['l']]['ty'])
                if dtk in INT_TYPES and dtk != 'isize':
                    v = T('Cast', (v,), dtk)
            self.storev(s['pl'], v, st, fr, s['sp'])
            if s['pl']['l'] == 0:
                st.ret_span = (fr.fn['path'], s['sp'])
            return
        if s['k'] == 'other' and s['tag'] in ('FakeRead', 'PlaceMention', 'AscribeUserType', 'Coverage',
                                               'ConstEvalCounter', 'Retag', 'BackwardIncompatibleDropHint', 'assume'):
            return
        raise Undecided('statement ' + s.get('s', s['k'])[:80], s.get('sp'))

    # ---------------------------------------------------------------- branching
    def split(self, st, v, where):
        """Partition the current state by the value of scalar v.
        Returns list of (value, state) with st's atom sets narrowed; v const -> [(val, st)]."""
        v = self.simp(v, st)
        if v[0] == 'c':
            return [(v[1], st)]
        names = atoms_in(v)
        for n in names:
            if st.doms.get(n) is None:
                raise Undecided('branch on unbounded input %s' % n, where)
        if len(names) == 1:
            n = names[0]
            parts = {}
            for x in st.doms[n]:
                r = ev(v, {n: x})
                parts.setdefault(r, []).append(x)
            out = []
            for r, xs in sorted(parts.items()):
                if len(parts) == 1:
                    s2 = st
                else:
                    s2 = st.fork()
                    self.stats['forks'] += 1
                    s2.doms[n] = frozenset(xs)
                out.append((r, s2))
            return out
        # Shannon expansion on the smallest-domain atom
        size = 1
        for a in names:
            size *= len(st.doms[a])
        if size > (1 << 22):
            raise Undecided('branch condition depends on %d inputs with %d joint values (too many to enumerate)' % (len(names), size), where)
        n = min(names, key=lambda a: (len(st.doms[a]), a))
        out = []
        for x in sorted(st.doms[n]):
            s2 = st.fork()
            self.stats['forks'] += 1
            s2.doms[n] = frozenset([x])
            out.extend(self.split(s2, v, where))
        return out

    # ---------------------------------------------------------------- calls
    def callee_of(self, t):
        fn = t['fn'].get('fn')
        if fn is None:
            raise Undecided('indirect call', t['sp'])
        return fn

    def run(self, fn_path, args=None, setup=None, arg_doms=None, arg_names=None, targs=None):
        """Analyse function `fn_path`.
        args: optional list of prepared values (else fresh symbols per parameter type, named after
        the user variable).  setup(st, argvals) may adjust the initial state.  Returns list[Leaf]."""
        prog = self.prog
        f = prog.fns[fn_path]
        st = State()
        st.frames = []; st.store = {}; st.doms = {}; st.trace = []; st.calls = []; st.events = []
        st.ret_span = None; st.next_uid = 1; st.steps = 0
        body = f['body']
        fr = Frame()
        fr.uid = 0; fr.fn = f; fr.body = body; fr.bb = 0; fr.dest = None; fr.ret_to = None; fr.depth = 0
        fr.pc = 0
        fr.sub = 0
        fr.targs = targs or getattr(prog, 'entry_targs', {}).get(fn_path)   # instance of a blanket impl analysed as an entry point
        self.full_doms = {}
        self.sym_counter = 0
        self.arg_doms = dict(arg_doms or {})
        st.frames.append(fr)
        argvals = []
        for i in range(body['arg_count']):
            loc = body['locals'][i + 1]
            name = loc['name'] or ('arg%d' % (i + 1))
            if arg_names is not None and i < len(arg_names) and arg_names[i]:
                name = arg_names[i]
            if args is not None and i < len(args) and args[i] is not None:
                v = args[i]
            else:
                v = self.mk_sym(prog.subst_ty(loc['ty'], fr.targs) if fr.targs else loc['ty'], name, st)
            st.store[('L', 0, i + 1)] = v
            argvals.append(v)
        if setup:
            setup(st, argvals)
        self.initial_store = dict(st.store)
        self.input_atoms = [n for n in st.doms]
        leaves = []
        work = [st]
        while work:
            s = work.pop()
            try:
                self.step_until_fork(s, work, leaves)
            except Undecided as u:
                if not hasattr(u, 'stack'):
                    u.stack = [f_.fn.get('path_inst') or f_.fn['path'] for f_ in s.frames]
                raise
        self.stats['leaves'] += len(leaves)
        return leaves

    def finish(self, st, kind, leaves, panic=None):
        lf = Leaf()
        lf.kind = kind
        lf.doms = dict(st.doms)
        lf.trace = st.trace
        lf.calls = st.calls
        lf.events = st.events
        lf.ret_span = st.ret_span
        lf.panic = panic
        if kind == 'return':
            lf.ret = self.deep(st.store.get(('L', 0, 0)), st)
        else:
            lf.ret = None
        lf.cells = {c: self.deep(v, st) for c, v in st.store.items() if c[0] == 'H'}
        leaves.append(lf)

    def step_until_fork(self, st, work, leaves):
        while True:
            fr = st.frames[-1]
            blk = fr.body['blocks'][fr.bb]
            stmts = blk['stmts']
            resplit = False
            while fr.pc < len(stmts):   # a re-executed statement/terminator (after a fork) must not redo earlier ones
                try:
                    self.exec_stmt(stmts[fr.pc], st, fr)
                except NeedFrame as nf_:
                    self.push_aux_frame(nf_, st, fr)
                    resplit = 'frame'
                    break
                except NeedSplit as ns:
                    parts = self.split(st, ns.value, stmts[fr.pc].get('sp'))
                    if len(parts) == 1 and parts[0][1] is st:
                        raise Undecided('index value cannot be decided', stmts[fr.pc].get('sp'))
                    for _, s2 in parts:
                        if s2 is not st:
                            work.append(s2)
                    resplit = True
                    break
                fr.pc += 1
            if resplit == 'frame':
                continue
            if resplit:
                return
            t = blk['term']
            k = t['k']
            st.steps += 1
            if st.steps > self.max_steps:
                raise Undecided('step budget exhausted (loop?)', t.get('sp'))
            try:
                r_ = self.exec_term(t, k, st, fr, work, leaves)
            except NeedFrame as nf_:
                self.push_aux_frame(nf_, st, fr)
                continue
            except NeedSplit as ns:
                parts = self.split(st, ns.value, t.get('sp'))
                if len(parts) == 1 and parts[0][1] is st:
                    raise Undecided('value needed by a call cannot be decided', t.get('sp'))
                for _, s2 in parts:
                    if s2 is not st:
                        work.append(s2)
                return
            if r_ == 'return':
                return

    def push_aux_frame(self, nf_, st, fr):
        if fr.depth + 1 > self.max_depth:
            raise Undecided('call depth bound exceeded (promoted constant)')
        af = Frame()
        af.uid = st.next_uid; st.next_uid += 1
        af.fn = nf_.fn; af.body = nf_.body; af.bb = 0; af.pc = 0; af.sub = 0
        af.dest = None; af.ret_to = ('store', nf_.store_key); af.depth = fr.depth + 1
        af.targs = fr.targs
        st.frames.append(af)

    def exec_term(self, t, k, st, fr, work, leaves):
        if True:
            if k == 'goto':
                fr.goto(t['t'])
            elif k == 'switch':
                v = self.operand(t['op'], st, fr)
                if not is_scalar(v):
                    raise Undecided('switch on non-scalar', t['sp'])
                parts = self.split(st, v, t['sp'])
                tgt = dict(zip(t['vals'], t['tgts']))
                tk = tk_of(v)
                # merge parts going to the same successor when they differ in one atom only
                by_tgt = {}
                for val, s2 in parts:
                    uval = val & ((1 << (INT_TYPES[tk][0] if tk in INT_TYPES else 128)) - 1) if val < 0 else val
                    b = tgt.get(uval, t['otherwise'])
                    by_tgt.setdefault(b, []).append(s2)
                succ = []
                for b, ss in by_tgt.items():
                    succ.extend((b, s2) for s2 in self.merge_states(ss))
                first = True
                for b, s2 in succ:
                    f2 = s2.frames[-1]
                    f2.goto(b)
                    s2.trace.append((f2.fn['path'], t['sp'], b))
                    if s2 is not st:
                        work.append(s2)
                if not any(s2 is st for _, s2 in succ):
                    return 'return'
            elif k == 'assert':
                v = self.operand(t['cond'], st, fr)
                parts = self.split(st, v, t['sp'])
                exp = 1 if t['expected'] else 0
                cont = None
                oks, bads = [], []
                for val, s2 in parts:
                    (oks if val == exp else bads).append(s2)
                for s2 in self.merge_states(bads):
                    self.finish(s2, 'panic', leaves, panic=('assert:' + t['msg'], t['msg_full'], t['sp'], fr.fn['path']))
                oks = self.merge_states(oks)
                for s2 in oks:
                    s2.frames[-1].goto(t['t'])
                    if s2 is not st:
                        work.append(s2)
                if not any(s2 is st for s2 in oks):
                    return 'return'
            elif k == 'return':
                if len(st.frames) == 1:
                    self.finish(st, 'return', leaves)
                    return 'return'
                rv = st.store.get(('L', fr.uid, 0))
                st.frames.pop()
                caller = st.frames[-1]
                # free callee locals (a promoted constant's value may point into its own frame: keep those)
                if not (isinstance(fr.ret_to, tuple) and fr.ret_to[0] == 'store'):
                    for c in [c for c in st.store if c[0] == 'L' and c[1] == fr.uid]:
                        del st.store[c]
                if rv is None:
                    # the return place was never written: the function returns a zero-sized value (release-like MIR drops the
                    # assignment of ZSTs); the value is the one of the declared return type
                    rty = fr.body['locals'][0]['ty']
                    rv = self.zst_of(self.prog.subst_ty(rty, fr.targs) if fr.targs else rty) or ('adt', '(tuple)', 0, ())
                if isinstance(fr.ret_to, tuple) and fr.ret_to[0] == 'store':
                    st.store[fr.ret_to[1]] = rv     # value of a promoted constant; the interrupted step is re-executed
                elif fr.ret_to == 'resume-terminator':
                    caller.sub += 1       # next step of the caller's multi-step terminator (drop glue)
                else:
                    self.storev(fr.dest, rv, st, caller, None)
                    caller.goto(fr.ret_to)
            elif k == 'unreachable':
                self.finish(st, 'unreachable', leaves, panic=('unreachable', 'unreachable terminator reached', t['sp'], fr.fn['path']))
                return 'return'
            elif k == 'drop':
                v = None
                try:
                    v = self.load(t['pl'], st, fr)
                except Undecided:
                    pass
                glue = []
                if v is not None:
                    try:
                        cell, path = self.resolve_place(t['pl'], st, fr)
                        self.drop_glue(self.place_ty(t['pl'], fr), v, cell, path, st, glue, 0)
                    except Undecided:
                        raise
                if fr.sub < len(glue):
                    impl_fn, cell, path = glue[fr.sub]
                    callee = self.prog.fns[impl_fn]
                    if fr.depth + 1 > self.max_depth:
                        raise Undecided('call depth bound exceeded in drop glue', t['sp'])
                    nf = Frame()
                    nf.uid = st.next_uid; st.next_uid += 1
                    nf.fn = callee; nf.body = callee['body']; nf.bb = 0; nf.pc = 0; nf.sub = 0
                    nf.dest = None; nf.ret_to = 'resume-terminator'; nf.depth = fr.depth + 1
                    st.store[('L', nf.uid, 1)] = ('ref', cell, path)
                    st.frames.append(nf)
                    st.events.append(('drop-impl', impl_fn, t['sp'], fr.fn['path']))
                    return None
                st.events.append(('drop', term_str(v) if v else '?', t['sp'], fr.fn['path']))
                fr.goto(t['t'])
            elif k == 'call':
                r = self.do_call(t, st, fr, work, leaves)
                if r == 'stop':
                    return 'return'
            elif k == 'resume':
                raise Undecided('unwind path executed', t['sp'])
            else:
                raise Undecided('terminator ' + t.get('s', k)[:80], t.get('sp'))

    def merge_states(self, ss):
        """States that reached the same successor and differ only in the value set of ONE atom
        are joined (exact: union of that atom's set).  Keeps the class count small."""
        if len(ss) <= 1:
            return ss
        base = ss[0]
        # all states here stem from one split of the same parent: identical but for doms
        diff = set()
        for s in ss[1:]:
            for n, d in s.doms.items():
                if base.doms.get(n) != d:
                    diff.add(n)
        if len(diff) == 1:
            n = next(iter(diff))
            u = set()
            for s in ss:
                u |= s.doms[n]
            base.doms[n] = frozenset(u)
            return [base]
        return ss

    FN_TRAITS = ('core::ops::FnOnce', 'core::ops::FnMut', 'core::ops::Fn')

    def do_call(self, t, st, fr, work, leaves):
        fop = t['fn']
        if fop.get('k') == 'const' and 'fn' in fop:
            fn = fop['fn']
        else:
            fv = self.simp(self.operand(fop, st, fr), st)
            if fv is None or fv[0] != 'fn':
                raise Undecided('indirect call through %s' % term_str(fv), t['sp'])
            fn = fv[1]
        vals = [self.operand(a, st, fr) for a in t['args']]
        argtys = [self.operand_ty(a, fr) for a in t['args']]
        return self.invoke(fn, vals, argtys, t, st, fr, work, leaves, 0)

    def callee_targs(self, callee, res, fr):
        """Instantiation of a generic local callee: its type parameters -> the call's (resolved) type arguments, themselves
        instantiated through the caller's own instantiation.  None when unknown (the body then stays parametric)."""
        tp = callee.get('tparams')
        if not tp or res is None or res.get('args') is None or len(res['args']) != len(tp):
            return None
        env = fr.targs or {}
        out = {}
        for n, a in zip(tp, res['args']):
            a = self.prog.subst_ty(a, env)
            if not Program.has_param(a):
                out[n] = a
        return out or None

    def push_frame(self, callee, vals, t, st, fr, targs=None):
        sp = t['sp']
        if fr.depth + 1 > self.max_depth:
            raise Undecided('call depth bound exceeded (recursion?)', sp)
        if t['t'] is None:
            raise Undecided('diverging call to a function with a body', sp)
        if len(vals) != callee['body']['arg_count']:
            raise Undecided('argument count mismatch calling %s' % callee['path'], sp)
        nf = Frame()
        nf.uid = st.next_uid; st.next_uid += 1
        nf.fn = callee; nf.body = callee['body']; nf.bb = 0; nf.pc = 0; nf.sub = 0
        nf.dest = t['dest']; nf.ret_to = t['t']; nf.depth = fr.depth + 1
        nf.targs = targs
        if targs is None and callee.get('closure_of'):
            # a closure body is generic over its parent's parameters: inherit the instantiation of the parent's active frame
            for pf_ in reversed(st.frames):
                if pf_.fn.get('path') == callee['closure_of']:
                    nf.targs = pf_.targs
                    break
        for i, v in enumerate(vals):
            st.store[('L', nf.uid, i + 1)] = v
        st.frames.append(nf)
        self.stats['inlined_calls'] += 1
        return 'cont'

    def call_closure(self, cpath, env, args, t, st, fr):
        """Run the body of local closure `cpath` with captured environment `env` (the closure value or a
        reference to it) on already untupled `args`."""
        cinst = None
        if '\t' in cpath:
            cpath, cinst = cpath.split('\t', 1)
        callee = self.prog.fns.get(cpath)
        if callee is None:
            # a closure defined inside an inlined library function
            cands = self.prog.ext_by_path.get(cpath, [])
            exact = [c for c in cands if cinst is not None and c.get('path_inst') == cinst]
            if len(exact) == 1:
                callee = exact[0]
            elif len(cands) == 1:
                callee = cands[0]
            elif cpath in self.prog.ext_generic:
                callee = self.prog.ext_generic[cpath]
            elif cands:
                raise Undecided('ambiguous library closure instance ' + cpath, t['sp'])
        if callee is None or callee.get('kind') != 'Closure':
            raise Undecided('call of unknown closure ' + cpath, t['sp'])
        want_ref = callee['body']['locals'][1]['ty'].get('k') == 'ref'
        # peel references down to the closure value, then re-wrap as the body expects
        v = env
        hops = 0
        while v is not None and v[0] == 'ref' and hops < 4:
            inner = self.get_path(st.store.get(v[1]), v[2], st)
            if inner is not None and inner[0] == 'ref':
                v = inner; hops += 1
            else:
                break
        if want_ref:
            if v is None or v[0] != 'ref':
                cell = ('T', st.next_uid); st.next_uid += 1
                st.store[cell] = v
                v = ('ref', cell, ())
        else:
            if v is not None and v[0] == 'ref':
                v = self.get_path(st.store.get(v[1]), v[2], st)
        return self.push_frame(callee, [v] + list(args), t, st, fr)

    def invoke(self, fn, vals, argtys, t, st, fr, work, leaves, depth):
        prog = self.prog
        sp = t['sp']
        if depth > 6:
            raise Undecided('call indirection too deep', sp)
        res = fn.get('resolved')
        path = res['path'] if res else None

        def ret(v):
            self.storev(t['dest'], v, st, fr, sp)
            if t['dest']['l'] == 0:
                st.ret_span = (fr.fn['path'], sp)
            if t['t'] is None:
                raise Undecided('diverging call returned', sp)
            fr.goto(t['t'])
            return 'cont'

        # ---- constructor functions of tuple structs / variants used as values (`.map(Some)`)
        if fn.get('ctor'):
            c = fn['ctor']
            if prog.is_fieldless_enum(c['adt']) if c['adt'] in prog.adts and prog.adts[c['adt']]['kind'] == 'enum' else False:
                return ret(C(c['variant'], 'E:' + c['adt']))
            return ret(('adt', c['adt'], c['variant'], tuple(vals)))
        # ---- pointer to a non-capturing closure
        if fn.get('closure_fnptr'):
            return self.call_closure(fn['path'], ('adt', '(closure)' + fn['path'], 0, ()), vals, t, st, fr)
        # ---- Fn / FnMut / FnOnce ::call*  : dispatch on the callee type or value
        if fn.get('trait') in self.FN_TRAITS and fn.get('method') in ('call', 'call_mut', 'call_once') and len(vals) == 2:
            selfty = fn['args'][0] if fn.get('args') else None
            tup = vals[1]
            if tup is None or tup[0] != 'adt' or tup[1] != '(tuple)':
                raise Undecided('Fn-trait call without an argument tuple', sp)
            args = list(tup[3])
            cv = vals[0]
            while selfty is not None and selfty.get('k') == 'ref':
                selfty = selfty['to']
            # find the callable value behind any references
            v = cv
            for _ in range(6):
                if v is not None and v[0] == 'ref':
                    v = self.get_path(st.store.get(v[1]), v[2], st)
                elif v is not None and v[0] == 'dyn':      # &dyn Fn(..): the closure / fn recorded at the unsizing coercion
                    cv = v[1]
                    v = v[1]
                else:
                    break
            if selfty is not None and selfty.get('k') == 'fndef' and 'fn' in selfty:
                return self.invoke(selfty['fn'], args, [None] * len(args), t, st, fr, work, leaves, depth + 1)
            if v is not None and v[0] == 'fn':
                return self.invoke(v[1], args, [None] * len(args), t, st, fr, work, leaves, depth + 1)
            if v is not None and v[0] == 'adt' and v[1].startswith('(closure)'):
                return self.call_closure(v[1][len('(closure)'):], cv, args, t, st, fr)
            if selfty is not None and selfty.get('k') == 'closure':
                return self.call_closure(selfty['path'] + ('\t' + selfty['inst'] if selfty.get('inst') else ''), cv, args, t, st, fr)
            if not (res is not None and res.get('kind') == 'item' and v is not None and v[0] == 'adt'):
                raise Undecided('call of an unknown callable %s' % term_str(v), sp)
        # ---- compiler-generated Clone of closures / tuples / arrays / fn pointers (rustc's CloneShim): a `Copy` type is
        #      copied bit for bit; otherwise every field is cloned through ITS OWN `Clone` impl, in order
        if fn.get('trait') == 'core::clone::Clone' and fn.get('method') == 'clone' and res is not None and res.get('kind') == 'shim' \
                and vals and vals[0] is not None and vals[0][0] == 'ref':
            self_ty = (res.get('args') or fn.get('args') or [None])[0]
            cp = prog.ty_is_copy(self_ty) if self_ty is not None else None
            if cp is True:
                return ret(self.get_path(st.store.get(vals[0][1]), vals[0][2], st))
            if cp is False:
                body_fn = prog.clone_shim(self_ty)
                if body_fn is not None:
                    return self.push_frame(body_fn, vals, t, st, fr)
            raise Undecided('compiler-generated Clone of %s' % (self_ty.get('k') if self_ty else '?'), sp)
        # ---- `<[T; N] as Clone>::clone` (library code over raw storage): element by element like the shim above
        if path == 'core::array::<impl core::clone::Clone for [T; N]>::clone' and vals and vals[0] is not None and vals[0][0] == 'ref' \
                and res.get('args'):
            src_ = self.get_path(st.store.get(vals[0][1]), vals[0][2], st)
            if src_ is not None and src_[0] == 'arr':
                aty = {'k': 'array', 'elem': res['args'][0], 'len': len(src_[1])}
                cp = prog.ty_is_copy(aty)
                if cp is True:
                    return ret(src_)
                if cp is False:
                    body_fn = prog.clone_shim(aty)
                    if body_fn is not None:
                        return self.push_frame(body_fn, vals, t, st, fr)
            raise Undecided('Clone of an array whose element type cannot be classified', sp)
        # ---- dynamic dispatch: resolve through the concrete type recorded at the unsizing coercion
        if res is not None and res.get('kind') == 'virtual' and vals and vals[0] is not None and vals[0][0] == 'dyn':
            ri = prog.resolve_impl(fn.get('trait'), vals[0][2], fn.get('method'),
                                   [prog.subst_ty(a_, fr.targs or {}) for a_ in (fn.get('args') or [])[1:]])
            if ri is not None:
                impl_fn, iargs = ri
                nfn = {'path': impl_fn, 'path_inst': impl_fn, 'trait': None,
                       'resolved': {'path': impl_fn, 'path_inst': impl_fn, 'local': True, 'kind': 'item', 'args': iargs}}
                return self.invoke(nfn, [vals[0][1]] + vals[1:], argtys, t, st, fr, work, leaves, depth + 1)
        # ---- a trait-method call the compiler could not resolve in generic code, on a receiver whose
        #      concrete type is known to the interpreter: resolve through the crate's impl index
        if res is None and fn.get('trait') in ('core::cmp::PartialEq', 'core::cmp::PartialOrd', 'core::cmp::Ord') and len(vals) == 2:
            xs = []
            for v in vals:
                hops = 0
                while v is not None and v[0] == 'ref' and hops < 4:
                    v = self.get_path(st.store.get(v[1]), v[2], st)
                    hops += 1
                xs.append(self.simp(v, st) if v is not None and is_scalar(v) else None)
            op = {'eq': 'Eq', 'ne': 'Ne', 'lt': 'Lt', 'le': 'Le', 'gt': 'Gt', 'ge': 'Ge', 'cmp': 'Cmp'}.get(fn.get('method'))
            if xs[0] is not None and xs[1] is not None and op and tk_of(xs[0]) == tk_of(xs[1]) and tk_of(xs[0])[2:] not in DISCR:
                if op == 'Cmp':
                    self.prog.is_fieldless_enum('core::cmp::Ordering')
                    return ret(T('Cmp', (xs[0], xs[1]), 'E:core::cmp::Ordering'))
                return ret(T(op, (xs[0], xs[1]), 'bool'))
        if res is None and fn.get('trait') is not None and fn.get('trait') not in self.FN_TRAITS and vals and vals[0] is not None \
                and vals[0][0] == 'dyn' and fn.get('self_kind') in ('ref', 'refmut'):
            # `<T as Trait>::m(&self)` in generic code whose receiver is a trait object: T = dyn Principal.  If `Trait` is the
            # object's own (or a super-) trait this is a virtual call, dispatched on the concrete type behind the object; if the
            # crate implements `Trait` for the object type itself (`impl Trait for dyn Principal`), THAT impl is what rustc
            # selects (redteam/B3-m2) - the two cannot coexist (E0371), so an explicit impl decides.
            dyn_impls = [im for im in prog.facts.get('impls', []) if (im.get('trait') == fn['trait'].split('::')[-1] or im.get('trait') == fn['trait'])
                         and isinstance(im.get('self_ty'), dict) and (im['self_ty'].get('k') == 'dyn' or im['self_ty'].get('k') == 'param')]
            if dyn_impls:
                sty = prog.subst_ty(fn['args'][0], fr.targs) if fr.targs and fn.get('args') else None
                if sty is None or Program.has_param(sty) or sty.get('k') != 'dyn':
                    raise Undecided('call of %s on a trait object while the crate implements that trait for a trait-object (or blanket) type; '
                                    'the Self type is not known here' % fn['path_inst'], sp)
                ri = prog.resolve_impl(fn['trait'], sty, fn.get('method'), [prog.subst_ty(a_, fr.targs or {}) for a_ in (fn.get('args') or [])[1:]])
                if ri is not None:
                    impl_fn, iargs = ri
                    nfn = {'path': impl_fn, 'path_inst': impl_fn, 'trait': None,
                           'resolved': {'path': impl_fn, 'path_inst': impl_fn, 'local': True, 'kind': 'item', 'args': iargs}}
                    return self.invoke(nfn, vals, argtys, t, st, fr, work, leaves, depth + 1)
            ri = prog.resolve_impl(fn.get('trait'), vals[0][2], fn.get('method'),
                                   [prog.subst_ty(a_, fr.targs or {}) for a_ in (fn.get('args') or [])[1:]])
            if ri is not None:
                impl_fn, iargs = ri
                nfn = {'path': impl_fn, 'path_inst': impl_fn, 'trait': None,
                       'resolved': {'path': impl_fn, 'path_inst': impl_fn, 'local': True, 'kind': 'item', 'args': iargs}}
                return self.invoke(nfn, [vals[0][1]] + vals[1:], argtys, t, st, fr, work, leaves, depth + 1)
        if res is None and fn.get('trait') is not None and fn.get('trait') not in self.FN_TRAITS and fr.targs and fn.get('args'):
            # generic code running for a known instantiation: `<T as Trait>::method` with T bound by the frame
            sargs = [prog.subst_ty(a, fr.targs) for a in fn['args']]
            if not Program.has_param(sargs[0]):
                ri = prog.resolve_impl(fn['trait'], sargs[0], fn.get('method'), sargs[1:])
                if ri is not None:
                    impl_fn, iargs = ri
                    nfn = {'path': impl_fn, 'path_inst': impl_fn, 'trait': None,
                           'resolved': {'path': impl_fn, 'path_inst': impl_fn, 'local': True, 'kind': 'item', 'args': iargs}}
                    return self.invoke(nfn, vals, argtys, t, st, fr, work, leaves, depth + 1)
        if res is None and fn.get('trait') is not None and fn.get('trait') not in self.FN_TRAITS and vals:
            v = vals[0]
            hops = 0
            while v is not None and v[0] in ('ref', 'dyn') and hops < 4:
                v = v[1] if v[0] == 'dyn' else self.get_path(st.store.get(v[1]), v[2], st)
                hops += 1
            if v is not None and v[0] == 'adt' and v[1] in prog.adts and prog.adts[v[1]].get('local'):
                # Self is the receiver's type *as the method takes it*: `self` by value with a reference argument means
                # Self = &T (or &&T ...), `&self` with one level of reference means Self = T
                sk = fn.get('self_kind')
                level = hops - (1 if sk in ('ref', 'refmut') else 0)
                if sk not in ('value', 'ref', 'refmut') or level < 0:
                    raise Undecided('cannot tell the Self type of the unresolved call %s' % fn['path_inst'], sp)
                self_ty = {'k': 'adt', 'path': v[1], 'local': True, 'args': []}
                for _ in range(level):
                    self_ty = {'k': 'ref', 'mut': False, 'to': self_ty}
                ri = prog.resolve_impl(fn.get('trait'), self_ty, fn.get('method'),
                                       [prog.subst_ty(a_, fr.targs or {}) for a_ in (fn.get('args') or [])[1:]]) if not prog.adts[v[1]].get('generics') else None
                if ri is not None:
                    impl_fn, iargs = ri
                    nfn = {'path': impl_fn, 'path_inst': impl_fn, 'trait': None,
                           'resolved': {'path': impl_fn, 'path_inst': impl_fn, 'local': True, 'kind': 'item', 'args': iargs}}
                    return self.invoke(nfn, vals, argtys, t, st, fr, work, leaves, depth + 1)
                # a generic receiver type (its arguments are not visible in the value): the impl whose Self is that ADT, if unique
                impl_fn = prog.find_impl_method(fn.get('trait'), self_ty, fn.get('method'))
                if impl_fn is None and prog.adts[v[1]].get('generics') and level == 0:
                    cands = [im for im in prog.facts.get('impls', []) if (im.get('trait') == fn['trait'].split('::')[-1] or im.get('trait') == fn['trait'])
                             and im['self_ty'].get('k') == 'adt' and im['self_ty'].get('path') == v[1]]
                    if len(cands) == 1:
                        for it in cands[0]['items']:
                            if it['name'] == fn.get('method') and it['is_fn']:
                                impl_fn = it['path']
                if impl_fn is not None and impl_fn in prog.fns:
                    nfn = {'path': impl_fn, 'path_inst': impl_fn, 'trait': None,
                           'resolved': {'path': impl_fn, 'path_inst': impl_fn, 'local': True, 'kind': 'item'}}
                    return self.invoke(nfn, vals, argtys, t, st, fr, work, leaves, depth + 1)
        target = None
        if path is not None and res['local'] and fr.fn.get('shim') and path in prog.shim_fns:
            return self.push_frame(prog.shim_fns[path], vals, t, st, fr)
        if path is not None and path in prog.fns and res['local']:
            target = path
        # ---- inlining of local callees (incl. closures) and of monomorphised library bodies
        callee = None
        skey = (path, res['args'][0].get('path')) if res is not None and res.get('args') and isinstance(res['args'][0], dict) else None
        if target is None and skey in SHIM_MAP_SELF and SHIM_MAP_SELF[skey] in prog.shim_fns:
            callee = prog.shim_fns[SHIM_MAP_SELF[skey]]
            self.stats['shim_calls'] = self.stats.get('shim_calls', 0) + 1
        elif target is None and path in SHIM_MAP and SHIM_MAP[path] in prog.shim_fns and path not in self.opaque:
            callee = prog.shim_fns[SHIM_MAP[path]]
            self.stats['shim_calls'] = self.stats.get('shim_calls', 0) + 1
        elif target is not None and target not in self.opaque:
            callee = prog.fns[target]
        elif target is None and res is not None and self.use_ext and res.get('kind') == 'item':
            ef = prog.ext_fns.get(res['path_inst']) or prog.ext_generic.get(res['path'])
            if ef is not None and res['path'] not in self.opaque and not self.is_panic_path(res['path']) \
                    and not self.prefer_model(res['path']):
                callee = ef
        if callee is not None:
            if callee.get('kind') == 'Closure':
                # direct call of a closure body: (env, (args,)) -> (env, args...)
                if len(vals) == 2 and vals[1] is not None and vals[1][0] == 'adt' and vals[1][1] == '(tuple)' \
                        and callee['body']['arg_count'] == 1 + len(vals[1][3]):
                    return self.call_closure(target, vals[0], list(vals[1][3]), t, st, fr)
            return self.push_frame(callee, vals, t, st, fr, targs=self.callee_targs(callee, res, fr) if target is not None else None)
        # ---- modelled library callees
        if target is None and path is not None:
            m = self.model_call(fn, res, vals, t, st, fr, work, leaves)
            if m is not None:
                return m
        # ---- opaque call (generic trait method, dyn call, or a local callee the rule keeps opaque)
        generic_trait_call = (res is None or res.get('kind') == 'virtual') and fn.get('trait') is not None \
            and fn.get('trait') not in self.FN_TRAITS
        if generic_trait_call or (target is not None and target in self.opaque):
            rec = {
                'callee': fn['path'], 'callee_inst': fn['path_inst'], 'resolved': path,
                'args': [self.deep(v, st) for v in vals], 'sp': sp, 'in': fr.fn['path'],
                'heap_before': {c: self.deep(v, st) for c, v in st.store.items() if c[0] == 'H'},
                'nth_event': len(st.events),
            }
            self.stats['opaque_calls'] += 1
            if t['t'] is None:
                raise Undecided('opaque diverging call', sp)
            # havoc everything reachable through &mut arguments
            for i, v in enumerate(vals):
                if v is not None and v[0] == 'ref':
                    aty = argtys[i] if i < len(argtys) else None
                    if aty is not None and aty['k'] == 'ref' and aty['mut']:
                        cell, pth = v[1], v[2]
                        new = self.mk_sym(aty['to'], self.fresh('havoc'), st)
                        st.store[cell] = self.set_path(st.store.get(cell), pth, new, st) if pth else new
                        st.events.append(('havoc', cell, pth, sp, fn['path']))
                        rec.setdefault('havoc_after', []).append((cell, tuple(pth), new))
                    elif aty is None:
                        raise Undecided('cannot type reference argument of opaque call', sp)
            dty = self.place_ty(t['dest'], fr)
            rname = self.fresh('ret:' + fn['path'].split('::')[-1])
            rv = self.mk_sym(dty, rname, st)
            rec['ret'] = self.deep(rv, st)
            rec['ret_name'] = rname
            st.calls.append(rec)
            self.storev(t['dest'], rv, st, fr, sp)
            fr.goto(t['t'])
            return 'cont'
        raise Undecided('call to un-modelled function %s' % (fn['path_inst'],), sp)

    @staticmethod
    def prefer_model(path):
        """Library functions that are modelled rather than interpreted: the formatting plumbing that only builds the
        message of a panic (its result feeds a diverging panic entry point and nothing else)."""
        return path.startswith('core::fmt::Arguments') or path.startswith('core::fmt::rt::') or RANGE_INDEX.match(path) is not None \
            or path in SLICE_MODELS or UNICODE_FN.match(path) is not None or path in CELL_MODELS

    @staticmethod
    def is_panic_path(path):
        return path.startswith('core::panicking::') or path.startswith('std::rt::begin_panic') \
            or path in ('core::option::unwrap_failed', 'core::result::unwrap_failed', 'core::option::expect_failed',
                        'core::slice::index::slice_index_fail', 'core::str::slice_error_fail')

    def value_may_need_drop(self, v, depth=0):
        if v is None or depth > 8:
            return v is not None
        if v[0] == 'adt':
            if v[1] in self.prog.adts and self.prog.find_drop_impl(v[1]) is not None:
                return True
            return any(self.value_may_need_drop(x, depth + 1) for x in v[3])
        if v[0] == 'se':
            if self.prog.find_drop_impl(v[1]) is not None:
                return True
            return any(self.value_may_need_drop(x, depth + 1) for fs in v[3] if fs is not None for x in fs)
        if v[0] == 'arr':
            return any(self.value_may_need_drop(x, depth + 1) for x in v[1])
        return False

    def drop_glue(self, ty, v, cell, path, st, out, depth):
        """Drop order of a value: its own `Drop::drop` (if its type has a local impl), then its fields in
        declaration order.  Appends (impl fn path, cell, path) to out."""
        if ty is None or v is None:
            return
        if depth > 8:
            raise Undecided('drop glue nested deeper than 8 levels')
        k = ty.get('k')
        if k in ('param', 'alias', 'other', 'opaque'):
            # a value of a generic parameter's type: the value itself says what it is
            if v[0] == 'adt' and v[1] in self.prog.adts:
                ty = {'k': 'adt', 'path': v[1], 'local': self.prog.adts[v[1]].get('local'), 'args': []}
            elif v[0] == 'adt' and v[1] == '(tuple)':
                ty = {'k': 'tuple', 'elems': [{'k': 'param', 'name': '?'}] * len(v[3])}
            elif v[0] == 'adt' and v[1].startswith('(closure)'):
                ty = {'k': 'closure', 'upvars': [{'k': 'param', 'name': '?'}] * len(v[3])}
            elif v[0] == 'arr':
                ty = {'k': 'array', 'elem': {'k': 'param', 'name': '?'}}
            elif v[0] == 'se' and v[1] in self.prog.adts:
                ty = {'k': 'adt', 'path': v[1], 'local': self.prog.adts[v[1]].get('local'), 'args': []}
            elif v[0] == 'dyn':
                raise Undecided('drop of a trait object')
            else:
                return      # an opaque value of the parameter's own type: its drop glue belongs to the instantiating type
            k = ty['k']
        if k == 'adt' and ty['path'] in ('core::mem::ManuallyDrop', 'core::mem::MaybeUninit', 'core::mem::manually_drop::ManuallyDrop',
                                         'core::mem::maybe_uninit::MaybeUninit'):
            return      # these wrappers exist precisely to suppress the drop of their contents
        if k == 'adt' and ty['path'] in self.prog.adts and self.prog.adts[ty['path']]['kind'] == 'union':
            return      # unions never drop their fields
        if k == 'array':
            if v[0] == 'arr':
                for i, x in enumerate(v[1]):
                    self.drop_glue(ty['elem'], x, cell, path + (('i', i),), st, out, depth + 1)
            return
        if k == 'adt':
            impl_fn = self.prog.find_drop_impl(ty['path'])
            if impl_fn is not None:
                out.append((impl_fn, cell, path))
            a = self.prog.adts.get(ty['path'])
            if a is None or v[0] not in ('adt', 'se'):
                return
            if v[0] == 'se':
                v = self.simp(v, st)
                if v[0] != 'adt':
                    if self.value_may_need_drop(v):
                        raise Undecided('drop of an enum value whose variant is not decided and whose payload has a Drop impl')
                    return
            if a['kind'] == 'enum' and not self.prog.is_fieldless_enum(ty['path']):
                vi = v[2]
                ftys = self.prog.variant_field_tys(ty, vi)
                for i, ft in enumerate(ftys):
                    self.drop_glue(ft, v[3][i] if i < len(v[3]) else None, cell, path + (('d', vi), ('f', i)), st, out, depth + 1)
            elif a['kind'] == 'struct':
                ftys = self.prog.variant_field_tys(ty, 0)
                for i, ft in enumerate(ftys):
                    self.drop_glue(ft, v[3][i] if i < len(v[3]) else None, cell, path + (('f', i),), st, out, depth + 1)
        elif k == 'tuple' and v[0] == 'adt':
            for i, ft in enumerate(ty['elems']):
                self.drop_glue(ft, v[3][i] if i < len(v[3]) else None, cell, path + (('f', i),), st, out, depth + 1)
        elif k == 'closure' and v[0] == 'adt':
            for i, ft in enumerate(ty.get('upvars', [])):
                self.drop_glue(ft, v[3][i] if i < len(v[3]) else None, cell, path + (('f', i),), st, out, depth + 1)

    def place_ty(self, pl, fr):
        ty = fr.body['locals'][pl['l']]['ty']
        for e in pl['p']:
            if e['k'] == 'field':
                ty = e['ty']
            elif e['k'] == 'deref':
                ty = ty['to']
            elif e['k'] == 'downcast':
                pass
            else:
                return None
        return ty

    def operand_ty(self, o, fr):
        if o['k'] in ('copy', 'move'):
            return self.place_ty(o['pl'], fr)
        return o.get('ty')

    # ---- callee models (each with its justification) ----------------------
    def model_call(self, fn, res, vals, t, st, fr, work, leaves):
        path = res['path']
        sp = t['sp']

        def ret(v):
            self.storev(t['dest'], v, st, fr, sp)
            if t['dest']['l'] == 0:
                st.ret_span = (fr.fn['path'], sp)
            fr.goto(t['t'])
            return 'cont'

        def concrete_enum(i):
            """argument i as an ADT value with decided variant; forks on the tag if needed."""
            v = self.simp(vals[i], st)
            if v is not None and v[0] == 'se':
                parts = self.split(st, v[2], sp)
                for _, s2 in parts:
                    if s2 is not st:
                        work.append(s2)   # re-executes this terminator with the tag decided
                if not any(s2 is st for _, s2 in parts):
                    return 'stop'
                v = self.simp(vals[i], st)
            if v is None or v[0] != 'adt':
                raise Undecided('model %s: argument is not an enum value' % path, sp)
            return v

        if path in CELL_MODELS and vals and vals[0] is not None and vals[0][0] == 'ref':
            # Cell<T> { value: UnsafeCell<T> { value: T } }: interior mutability through a shared reference
            cref = vals[0]
            inner_path = cref[2] + (('f', 0), ('f', 0))
            cur = self.get_path(st.store.get(cref[1]), inner_path, st)
            name = path.split('::')[-1]
            if name == 'get':
                return ret(cur)
            new_v = vals[1] if len(vals) > 1 else None
            if name in ('set', 'replace') and new_v is not None:
                st.store[cref[1]] = self.set_path(st.store.get(cref[1]), inner_path, new_v, st)
                return ret(('adt', '(tuple)', 0, ()) if name == 'set' else cur)
        um = UNICODE_FN.match(path)
        if um:
            c_ = self.simp(vals[0], st)
            if not is_scalar(c_):
                raise Undecided('Unicode lookup on a non-scalar', sp)
            if um.group(1):
                return ret(T('Uni:' + um.group(1), (c_,), 'bool'))
            return ret(('arr', tuple(T('Uni:%s%d' % (um.group(2), i), (c_,), 'char') for i in range(3))))
        if path in SLICE_MODELS or path == 'core::intrinsics::raw_eq':
            def arr_at(r):
                if r is None or r[0] != 'ref':
                    raise Undecided('model %s: argument is not a reference' % path, sp)
                a_ = self.get_path(st.store.get(r[1]), r[2], st)
                if a_ is None or a_[0] != 'arr':
                    raise Undecided('model %s: argument does not point to an array' % path, sp)
                return a_

            def put(r, new):
                st.store[r[1]] = self.set_path(st.store.get(r[1]), r[2], new, st) if r[2] else new

            def concrete(v):
                v = self.simp(v, st)
                if not is_scalar(v):
                    raise Undecided('model %s: index is not a scalar' % path, sp)
                if v[0] != 'c':
                    only = self.unique_value(v, st)
                    if only is None:
                        raise NeedSplit(v)
                    return only
                return v[1]
            unit = ('adt', '(tuple)', 0, ())
            name = path.split('::')[-1]
            if path in ('core::ptr::swap', 'core::ptr::swap_nonoverlapping') and len(vals) == 2:
                ra, rb = vals
                if ra is None or rb is None or ra[0] != 'ref' or rb[0] != 'ref':
                    raise Undecided('swap of non-places', sp)
                va = self.get_path(st.store.get(ra[1]), ra[2], st)
                vb = self.get_path(st.store.get(rb[1]), rb[2], st)
                put(ra, vb)
                put(rb, va)
                return ret(unit)
            if name == 'swap' and len(vals) == 3:
                a_ = arr_at(vals[0])
                i, j = concrete(vals[1]), concrete(vals[2])
                if not (0 <= i < len(a_[1]) and 0 <= j < len(a_[1])):
                    self.finish(st, 'panic', leaves, panic=('call:core::panicking::panic_bounds_check', 'slice::swap index out of bounds', sp, fr.fn['path']))
                    return 'stop'
                el = list(a_[1]); el[i], el[j] = el[j], el[i]
                put(vals[0], ('arr', tuple(el)))
                return ret(unit)
            if name.startswith('split_at'):
                a_ = arr_at(vals[0])
                mid = concrete(vals[1])
                n = len(a_[1])
                pair = None
                if 0 <= mid <= n:
                    pair = ('adt', '(tuple)', 0, (('ref', vals[0][1], vals[0][2] + (('s', 0, mid),)), ('ref', vals[0][1], vals[0][2] + (('s', mid, n),))))
                if name.endswith('_checked'):
                    return ret(('adt', 'core::option::Option', 1, (pair,)) if pair else ('adt', 'core::option::Option', 0, ()))
                if pair is None:
                    if name.endswith('_unchecked'):
                        raise Undecided('split_at_unchecked beyond the end (undefined behaviour)', sp)
                    self.finish(st, 'panic', leaves, panic=('call:core::panicking::panic_fmt', 'mid > len in split_at', sp, fr.fn['path']))
                    return 'stop'
                return ret(pair)
            if name in ('copy_from_slice', 'clone_from_slice'):
                d_, s_ = arr_at(vals[0]), arr_at(vals[1])
                if len(d_[1]) != len(s_[1]):
                    self.finish(st, 'panic', leaves, panic=('call:core::panicking::panic_fmt', 'source slice length does not match destination', sp, fr.fn['path']))
                    return 'stop'
                if not all(x is not None and is_scalar(x) for x in s_[1]):
                    raise Undecided('model %s on non-scalar elements' % path, sp)
                put(vals[0], ('arr', tuple(s_[1])))
                return ret(unit)
            if name == 'reverse':
                a_ = arr_at(vals[0])
                put(vals[0], ('arr', tuple(reversed(a_[1]))))
                return ret(unit)
            if name == 'fill':
                a_ = arr_at(vals[0])
                if vals[1] is None or not is_scalar(vals[1]):
                    raise Undecided('slice::fill with a non-scalar value', sp)
                put(vals[0], ('arr', (vals[1],) * len(a_[1])))
                return ret(unit)
            if name in ('eq', 'ne', 'raw_eq', 'starts_with', 'ends_with'):
                a_, b_ = arr_at(vals[0]), arr_at(vals[1])
                if name in ('starts_with', 'ends_with'):
                    if len(b_[1]) > len(a_[1]):
                        return ret(C(0, 'bool'))
                    n_ = len(b_[1])
                    a_ = ('arr', a_[1][:n_] if name == 'starts_with' else a_[1][len(a_[1]) - n_:])
                if len(a_[1]) != len(b_[1]):
                    return ret(C(0 if name != 'ne' else 1, 'bool'))
                acc = C(1, 'bool')
                for x, y in zip(a_[1], b_[1]):
                    x, y = self.simp(x, st), self.simp(y, st)
                    if not (is_scalar(x) and is_scalar(y)) or tk_of(x) != tk_of(y) or tk_of(x)[2:] in DISCR:
                        raise Undecided('model %s on non-scalar elements' % path, sp)
                    acc = T('BitAnd', (acc, T('Eq', (x, y), 'bool')), 'bool')
                return ret(T('Not', (acc,), 'bool') if name == 'ne' else acc)
            if name == 'as_bytes':
                return ret(vals[0])
            if name in ('len', 'is_empty'):
                a_ = arr_at(vals[0])
                return ret(C(len(a_[1]), 'usize') if name == 'len' else C(int(len(a_[1]) == 0), 'bool'))
        m_ = RANGE_INDEX.match(path)
        if m_:
            kind, meth = (m_.group(1), m_.group(2)) if m_.group(1) else (m_.group(3), m_.group(4))
            rg, sl = vals[0], vals[1]
            if sl is None or sl[0] != 'ref':
                raise Undecided('range index on a non-reference', sp)
            tgt = self.get_path(st.store.get(sl[1]), sl[2], st)
            if tgt is None or tgt[0] != 'arr':
                raise Undecided('range index on %s' % (tgt[0] if tgt else 'nothing'), sp)
            n = len(tgt[1])

            def bound(v):
                v = self.simp(v, st)
                if not is_scalar(v):
                    raise Undecided('range bound is not a scalar', sp)
                if v[0] != 'c':
                    only = self.unique_value(v, st)
                    if only is None:
                        raise NeedSplit(v)
                    return only
                return v[1]
            f = rg[3] if rg is not None and rg[0] == 'adt' else ()
            if kind == 'Range':
                lo, hi = bound(f[0]), bound(f[1])
            elif kind == 'RangeTo':
                lo, hi = 0, bound(f[0])
            elif kind == 'RangeFrom':
                lo, hi = bound(f[0]), n
            elif kind == 'RangeFull':
                lo, hi = 0, n
            elif kind == 'RangeToInclusive':
                lo, hi = 0, bound(f[0]) + 1
            else:   # RangeInclusive { start, end, exhausted }
                hi = bound(f[1]) + 1
                lo = hi if bound(f[2]) else bound(f[0])
            if hi >= 1 << 64:
                raise Undecided('inclusive range ending at usize::MAX', sp)
            okay = 0 <= lo <= hi <= n
            if meth in ('index', 'index_mut'):
                if not okay:
                    self.finish(st, 'panic', leaves, panic=('call:core::slice::index::slice_index_fail', 'range %d..%d out of range for slice of length %d' % (lo, hi, n), sp, fr.fn['path']))
                    return 'stop'
                return ret(('ref', sl[1], sl[2] + (('s', lo, hi),)))
            if not okay:
                return ret(('adt', 'core::option::Option', 0, ()))
            return ret(('adt', 'core::option::Option', 1, (('ref', sl[1], sl[2] + (('s', lo, hi),)),)))
        # `?` on Result: core's impl is `match self { Ok(v) => Continue(v), Err(e) => Break(Err(e)) }`
        if path == '<core::result::Result<T, E> as core::ops::Try>::branch':
            v = concrete_enum(0)
            if v == 'stop':
                return 'stop'
            if v[1] != 'core::result::Result':
                raise Undecided('Try::branch on ' + v[1], sp)
            if v[2] == 0:
                return ret(('adt', 'core::ops::ControlFlow', 0, (v[3][0],)))
            return ret(('adt', 'core::ops::ControlFlow', 1, (('adt', 'core::result::Result', 1, (v[3][0],)),)))
        # `?` error return: core's impl is `match residual { Err(e) => Err(From::from(e)) }`;
        # modelled only for F == E where From is the reflexive identity impl
        if path.startswith('<core::result::Result<T, F> as core::ops::FromResidual<core::result::Result<core::convert::Infallible, E>>>::from_residual'):
            a = res['args']
            if len(a) != 3 or a[1] != a[2]:
                raise Undecided('from_residual with error conversion', sp)
            v = concrete_enum(0)
            if v == 'stop':
                return 'stop'
            if v[2] != 1:
                raise Undecided('from_residual on Ok residual', sp)
            return ret(('adt', 'core::result::Result', 1, (v[3][0],)))
        # `?` on Option
        if path == '<core::option::Option<T> as core::ops::Try>::branch':
            v = concrete_enum(0)
            if v == 'stop':
                return 'stop'
            if v[2] == 1:
                return ret(('adt', 'core::ops::ControlFlow', 0, (v[3][0],)))
            return ret(('adt', 'core::ops::ControlFlow', 1, (('adt', 'core::option::Option', 0, ()),)))
        if path.startswith('<core::option::Option<T> as core::ops::FromResidual<core::option::Option<core::convert::Infallible>>>::from_residual'):
            return ret(('adt', 'core::option::Option', 0, ()))
        # blanket `impl<T, U: From<T>> Into<U> for T` -> `U::from(self)`; modelled for the lossless
        # primitive widenings core provides (value-preserving by definition)
        if path in ('<T as core::convert::Into<U>>::into', '<T as core::convert::From<T>>::from') or \
                path.startswith('core::convert::num::<impl core::convert::From<') or \
                path.startswith('core::char::convert::<impl core::convert::From<u8> for char>'):
            a = res['args']
            v = self.simp(vals[0], st)
            if path == '<T as core::convert::From<T>>::from':
                return ret(v)
            dty = self.place_ty(t['dest'], fr)
            dtk = self.prog.tk(dty) if dty else None
            if is_scalar(v) and dtk in INT_TYPES:
                stk = tk_of(v)
                if stk in INT_TYPES:
                    sb, ss = INT_TYPES[stk]
                    db, ds = INT_TYPES[dtk]
                    lossless = (sb <= db and ss == ds) or (not ss and ds and sb < db) or stk == dtk
                    if dtk == 'char':
                        lossless = stk in ('u8', 'char')
                    if dtk == 'bool':
                        lossless = stk == 'bool'
                    if lossless:
                        return ret(T('Cast', (v,), dtk))
            raise Undecided('Into/From conversion %s' % fn['path_inst'], sp)
        # integer bit-counting intrinsics wrappers
        for nm, op in (('count_ones', 'CountOnes'),):
            if path.startswith('core::num::<impl ') and path.endswith('>::' + nm):
                v = self.simp(vals[0], st)
                if not is_scalar(v):
                    raise Undecided(nm + ' on non-scalar', sp)
                return ret(T(op, (v,), 'u32'))
        if self.prefer_model(path):
            return ret(('op', 'fmt-arguments', None))
        if path == 'core::intrinsics::ctpop':
            v = self.simp(vals[0], st)
            if not is_scalar(v):
                raise Undecided('ctpop on non-scalar', sp)
            return ret(T('CountOnes', (v,), 'u32'))
        _UN = {'ctlz': 'Ctlz', 'ctlz_nonzero': 'Ctlz', 'cttz': 'Cttz', 'cttz_nonzero': 'Cttz', 'bswap': 'Bswap', 'bitreverse': 'BitRev'}
        _BIN = {'rotate_left': 'RotL', 'rotate_right': 'RotR', 'saturating_add': 'SatAdd', 'saturating_sub': 'SatSub',
                'wrapping_add': 'Add', 'wrapping_sub': 'Sub', 'wrapping_mul': 'Mul'}
        if path.startswith('core::intrinsics::') and path[len('core::intrinsics::'):] in _UN:
            nm = path[len('core::intrinsics::'):]
            v = self.simp(vals[0], st)
            if not is_scalar(v) or tk_of(v) not in INT_TYPES:
                raise Undecided(nm + ' on non-scalar', sp)
            if nm.endswith('_nonzero') and self.unique_value(T('Eq', (v, C(0, tk_of(v))), 'bool'), st) != 0:
                raise Undecided(nm + ' may be applied to zero (undefined behaviour)', sp)
            return ret(T(_UN[nm], (v,), 'u32' if nm in ('ctlz', 'cttz') else tk_of(v)))
        if path.startswith('core::intrinsics::') and path[len('core::intrinsics::'):] in _BIN:
            nm = path[len('core::intrinsics::'):]
            a = self.simp(vals[0], st)
            b = self.simp(vals[1], st)
            if not (is_scalar(a) and is_scalar(b)) or tk_of(a) not in INT_TYPES:
                raise Undecided(nm + ' on non-scalar', sp)
            return ret(T(_BIN[nm], (a, b), tk_of(a)))
        if path == 'core::intrinsics::is_val_statically_known':
            return ret(C(0, 'bool'))   # an optimisation hint; both answers are required to be semantically equivalent
        if path == 'core::intrinsics::typed_swap_nonoverlapping':
            ra, rb = vals[0], vals[1]
            if ra is None or rb is None or ra[0] != 'ref' or rb[0] != 'ref':
                raise Undecided('swap of non-places', sp)
            va = self.get_path(st.store.get(ra[1]), ra[2], st)
            vb = self.get_path(st.store.get(rb[1]), rb[2], st)
            st.store[ra[1]] = self.set_path(st.store.get(ra[1]), ra[2], vb, st) if ra[2] else vb
            st.store[rb[1]] = self.set_path(st.store.get(rb[1]), rb[2], va, st) if rb[2] else va
            return ret(('adt', '(tuple)', 0, ()))
        if path in ('core::intrinsics::likely', 'core::intrinsics::unlikely', 'core::hint::black_box', 'core::convert::identity'):
            return ret(vals[0])
        if path in ('core::intrinsics::cold_path', 'core::hint::assert_unchecked', 'core::intrinsics::assume'):
            return ret(('adt', '(tuple)', 0, ()))
        # panic entry points diverge
        if self.is_panic_path(path):
            self.finish(st, 'panic', leaves, panic=('call:' + path, path, sp, fr.fn['path']))
            return 'stop'
        if path in ('core::option::Option::<T>::unwrap', 'core::option::Option::<T>::expect',
                    'core::result::Result::<T, E>::unwrap', 'core::result::Result::<T, E>::expect'):
            v = concrete_enum(0)
            if v == 'stop':
                return 'stop'
            good = 1 if v[1] == 'core::option::Option' else 0
            if v[2] == good:
                return ret(v[3][0])
            self.finish(st, 'panic', leaves, panic=('call:' + path, path + ' on the failing variant', sp, fr.fn['path']))
            return 'stop'
        return None


# --------------------------------------------------------------------------
# helpers for rules

def leaf_weight(engine, lf, names=None):
    """Fraction of the input space covered by this leaf (for the partition self-check)."""
    w = Fraction(1)
    for n, full in engine.full_doms.items():
        if names is not None and n not in names:
            continue
        d = lf.doms.get(n)
        if full is None or d is None:
            continue
        w *= Fraction(len(d), len(full))
    return w


def check_partition(engine, leaves):
    """The leaves must partition the input space: weights sum to exactly 1."""
    total = sum((leaf_weight(engine, lf) for lf in leaves), Fraction(0))
    # atoms created on only some paths (havoc / opaque returns) are absent from other leaves'
    # doms; absent = full domain = factor 1, so the sum is still exact.
    if total != 1:
        raise Undecided('path classes do not partition the input space (sum of weights = %s)' % total)
    return True


def cube_iter(lf, names):
    return itertools.product(*[sorted(lf.doms[n]) for n in names])
