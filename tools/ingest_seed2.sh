#!/bin/bash
# tools/ingest_seed2.sh <tag> <n> : verify mutant n produced in /tmp/mx-<tag> (a copy of /repo with a refactoring committed on top)
set -u
TAG="$1"; N="$2"; D=/tmp/mx-$TAG; OUT=$D/OUT
read -r _t RF PROP <<< "$(grep "^$TAG " /tmp/mx-index.txt)"
P=$OUT/m$N.diff; DEMO=$OUT/m${N}_demo.rs; NOTES=$OUT/m${N}_notes.md
[ -f "$P" ] && [ -f "$DEMO" ] || { echo "$TAG m$N: missing deliverables"; exit 2; }
cd $D || exit 2
export CARGO_TARGET_DIR=$D/target CARGO_NET_OFFLINE=true
git checkout -q -- . ; rm -f tests/demo.rs; mkdir -p tests; cp "$DEMO" tests/demo.rs
cargo test --offline --test demo >/tmp/ing2_base.log 2>&1; BASE=$?
git apply "$P" || { echo "$TAG m$N: patch does not apply"; git checkout -q -- .; rm -f tests/demo.rs; exit 3; }
cargo test --offline --lib >/tmp/ing2_unit.log 2>&1; UNIT=$?
UNITN=$(grep -E "^test result" /tmp/ing2_unit.log | head -1)
cargo test --offline --test demo >/tmp/ing2_mut.log 2>&1; MUT=$?
git checkout -q -- . ; rm -f tests/demo.rs
echo "$TAG($PROP on $RF) m$N: demo-on-base exit=$BASE unit-with-patch exit=$UNIT [$UNITN] demo-with-patch exit=$MUT"
if [ $BASE -ne 0 ] || [ $UNIT -ne 0 ] || [ $MUT -eq 0 ]; then echo "$TAG m$N: REJECTED"; exit 4; fi
S=/verif/seeded2/$PROP-$RF-m$N; mkdir -p $S
cp /verif/refactors/$RF/patch.diff $S/base.diff; cp "$P" $S/patch.diff; cp "$DEMO" $S/demo.rs; cp "$NOTES" $S/notes.md 2>/dev/null
python3 - "$PROP" "$RF" "$N" "$UNITN" <<'PY'
import json,sys,os
PROP,RF,N,unit=sys.argv[1:5]
S='/verif/seeded2/%s-%s-m%s'%(PROP,RF,N)
notes=open(S+'/notes.md').read() if os.path.exists(S+'/notes.md') else ''
json.dump({'property':PROP,'base':'refactors/%s (behaviour-preserving refactoring applied first: base.diff)'%RF,'mutant':int(N),
 'origin':'independent sub-agent given only the property text and a scratch copy of the refactored crate',
 'needs_to_manifest':notes,
 'confirmed':{'demo_on_refactored_base':'passes','unit_tests_with_patch':unit.strip(),'demo_with_patch':'fails',
 'how':'tools/ingest_seed2.sh'}},open(S+'/meta.json','w'),indent=1)
PY
echo "$TAG m$N: stored in $S"
