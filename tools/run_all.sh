#!/bin/sh
# tools/run_all.sh [quick|thorough]  -- run every registered check on /repo as it is; summary line per check
cd "$(dirname "$0")/.." || exit 2
T="${1:-quick}"; rc=0
for i in 01 02 03 04 05 06 07 08 09 10 11 12 13 14 15 16 17 18 19 20; do
  ./check C$i $T > /tmp/run_all_C$i.out 2>&1; r=$?
  tail -1 /tmp/run_all_C$i.out | sed "s/^/exit=$r /"
  grep '^VIOLATION' /tmp/run_all_C$i.out
  [ $r -ne 0 ] && rc=1
done
exit $rc
