#!/bin/bash
# debug aid: run all checks against the cached facts of each scratch refactoring under /tmp/rf (see tools/mkrf.sh)
cd /verif
names="$@"; [ -z "$names" ] && names=$(ls refactors)
for n in $names; do
  ( out=""; for i in 01 02 03 04 05 06 07 08 09 10 11 12 13 14 15 16 17 18 19 20; do
      r=$(PKV_REPO=/tmp/rf/$n/repo PKV_EVIDENCE_DIR=/tmp/rf/$n/ev PKV_REPLAY_DIR=/tmp/rf/$n/rp PKV_FACTS_FILE=/verif/work/rf-$n.json ./check C$i quick 2>&1)
      if [ $? -ne 0 ]; then out="$out\n   C$i: $(echo "$r" | grep -m1 -A1 'violation:' | tr '\n' ' ' | cut -c1-330)"; fi
    done
    if [ -z "$out" ]; then echo "$n SILENT"; else echo -e "$n ALARMS:$out"; fi ) &
done
wait
