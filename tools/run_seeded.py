#!/usr/bin/env python3
"""Apply every seeded mutant to /repo in turn, run all registered checks, undo.  Records which checks fire.
usage: tools/run_seeded.py [seed-dir-name ...]   (default: all)"""
import json, os, subprocess, sys, glob
V = os.path.dirname(os.path.dirname(os.path.abspath(__file__)))
sys.path.insert(0, V)
from pkv.main import RULES
REPO = '/repo'
names = sys.argv[1:] or sorted(os.path.basename(p) for p in glob.glob(V + '/seeded/*') if os.path.isdir(p))
if subprocess.run(['git', '-C', REPO, 'diff', '--quiet']).returncode != 0:
    sys.exit('/repo has uncommitted changes')
summary = {}
for n in names:
    d = os.path.join(V, 'seeded', n)
    patch = os.path.join(d, 'patch.diff')
    if subprocess.run(['git', '-C', REPO, 'apply', patch]).returncode != 0:
        print(n, 'PATCH DOES NOT APPLY'); summary[n] = None; continue
    fired = {}
    try:
        for pid in sorted(RULES):
            p = subprocess.run([os.path.join(V, 'check'), pid, 'quick'], capture_output=True, text=True, cwd=V)
            viol = [l.strip()[len('violation: '):] for l in p.stdout.split('\n') if l.startswith('  violation:')]
            if p.returncode != 0:
                fired[pid] = viol[:3] or ['exit %d' % p.returncode]
    finally:
        subprocess.run(['git', '-C', REPO, 'checkout', '--', '.'])
    target = n.split('-')[0]
    summary[n] = fired
    meta_p = os.path.join(d, 'meta.json')
    meta = json.load(open(meta_p))
    meta['detected_by'] = fired
    meta['target_check_fires'] = target in fired
    json.dump(meta, open(meta_p, 'w'), indent=1)
    print('%-8s target %s: %s | fired: %s' % (n, target, 'CAUGHT' if target in fired else 'MISSED', ', '.join(sorted(fired)) or '-'))
    for pid, v in fired.items():
        if pid == target:
            print('      ', v[0][:200])
# restore evidence of the unchanged tree is the caller's job (re-run the checks)
