#!/usr/bin/env python3
"""Run every registered check against every stored mutant (seeded/*/patch.diff) or refactoring
(refactors/*/patch.diff), each on its own scratch COPY of /repo (never touching /repo or the committed
evidence), in parallel.  Records which checks fire in meta.json.
usage: tools/run_seeded.py [--kind seeded|refactors] [name ...]"""
import json, os, subprocess, sys, glob, shutil, tempfile
from concurrent.futures import ThreadPoolExecutor
V = os.path.dirname(os.path.dirname(os.path.abspath(__file__)))
sys.path.insert(0, V)
from pkv.main import RULES
args = sys.argv[1:]
kind = 'seeded'
if args and args[0] == '--kind':
    kind = args[1]; args = args[2:]
names = args or sorted(os.path.basename(p) for p in glob.glob(V + '/%s/*' % kind) if os.path.isdir(p))


def one(n):
    d = os.path.join(V, kind, n)
    tmp = tempfile.mkdtemp(prefix='pkv-seed-')
    try:
        repo = os.path.join(tmp, 'repo')
        shutil.copytree('/repo', repo, ignore=shutil.ignore_patterns('target', '.git'))
        if os.path.exists(os.path.join(d, 'base.diff')):
            b = subprocess.run(['git', 'apply', '--whitespace=nowarn', os.path.join(d, 'base.diff')], cwd=repo, capture_output=True, text=True)
            if b.returncode != 0:
                return n, None, 'base: ' + b.stderr[-300:]
        a = subprocess.run(['git', 'apply', '--whitespace=nowarn', os.path.join(d, 'patch.diff')], cwd=repo, capture_output=True, text=True)
        if a.returncode != 0:
            return n, None, a.stderr[-300:]
        env = dict(os.environ, PKV_REPO=repo, PKV_EVIDENCE_DIR=os.path.join(tmp, 'ev'), PKV_REPLAY_DIR=os.path.join(tmp, 'rp'))
        fired = {}
        for pid in sorted(RULES):
            p = subprocess.run([os.path.join(V, 'check'), pid, 'quick'], capture_output=True, text=True, cwd=V, env=env)
            viol = [l.strip()[len('violation: '):] for l in p.stdout.split('\n') if l.startswith('  violation:')]
            if p.returncode != 0:
                fired[pid] = viol[:3] or ['exit %d: %s' % (p.returncode, (p.stdout + p.stderr)[-200:])]
        return n, fired, None
    finally:
        shutil.rmtree(tmp, ignore_errors=True)


with ThreadPoolExecutor(max_workers=8) as ex:
    results = list(ex.map(one, names))
for n, fired, err in results:
    d = os.path.join(V, kind, n)
    if fired is None:
        print('%-10s PATCH DOES NOT APPLY: %s' % (n, err)); continue
    meta_p = os.path.join(d, 'meta.json')
    meta = json.load(open(meta_p)) if os.path.exists(meta_p) else {}
    meta['detected_by'] = fired
    if kind.startswith('seeded'):
        target = n.split('-')[0]
        meta['target_check_fires'] = target in fired
        print('%-8s target %s: %s | fired: %s' % (n, target, 'CAUGHT' if target in fired else 'MISSED', ', '.join(sorted(fired)) or '-'))
    else:
        meta['false_alarms'] = sorted(fired)
        print('%-10s %s' % (n, 'SILENT (ok)' if not fired else 'FALSE ALARM: ' + ', '.join('%s[%s]' % (k, v[0][:90]) for k, v in sorted(fired.items()))))
    json.dump(meta, open(meta_p, 'w'), indent=1)
