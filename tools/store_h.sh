#!/bin/bash
# usage: tools/store_h.sh <hNN> "<what>"   -- stores /tmp/st/<hNN>/repo as refactors/H-<hNN> (hand-made neutral variant)
set -e
h=$1; what=$2; d=/verif/refactors/H-$h; mkdir -p $d
(cd /tmp/st/$h && diff -ruN --exclude=target --exclude=.git --exclude=Cargo.lock /repo/src repo/src | sed "s#^--- /repo/#--- a/#; s#^+++ repo/#+++ b/#; s#^diff -ruN.*##" > $d/patch.diff) || true
python3 - "$h" "$what" <<'PY'
import json, sys
json.dump({'kind':'hand-made neutral variant (false-alarm test)','origin':'written by hand while building the framework','what':sys.argv[2],
           'confirmed':{'unit_tests_with_patch':'32 passed'}},open('/verif/refactors/H-%s/meta.json'%sys.argv[1],'w'),indent=1)
PY
