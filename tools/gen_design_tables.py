#!/usr/bin/env python3
"""Rewrites the seed/refactoring table between the SEED-TABLE markers of DESIGN.md from seeded*/meta.json."""
import json, glob, os
V = os.path.dirname(os.path.dirname(os.path.abspath(__file__)))
rows = []
for kind in ('seeded', 'seeded2', 'seeded3', 'redteam'):
    for d in sorted(glob.glob('%s/%s/*' % (V, kind))):
        m = json.load(open(d + '/meta.json'))
        files = sorted({l[6:].strip().replace('src/', '') for l in open(d + '/patch.diff') if l.startswith('+++ b/')})
        det = sorted(m.get('detected_by', {}).keys())
        tgt = os.path.basename(d).split('-')[0]
        if kind == 'redteam':
            tgt = det[0] if det else ''
        first = (m.get('detected_by', {}).get(tgt) or m.get('detected_by', {}).get(det[0] if det else '', ['']) or [''])[0]
        rows.append((os.path.basename(d), ', '.join(files), ', '.join(det) or 'NONE', ('' if tgt in det else '(via %s) ' % (det[0] if det else '-')) + first[:100].replace('|', '/')))
out = ['| seed (property-[base]-n) | files touched | checks that fire | first finding |', '|---|---|---|---|']
out += ['| %s | %s | %s | `%s` |' % r for r in rows]
rf = []
for d in sorted(glob.glob(V + '/refactors/*')):
    m = json.load(open(d + '/meta.json'))
    note = ''
    np_ = d + '/notes.md'
    rf.append('| %s | %s | %s |' % (os.path.basename(d), ', '.join(sorted({l[6:].strip().replace('src/', '') for l in open(d + '/patch.diff') if l.startswith('+++ b/')})),
                                     'silent' if not m.get('false_alarms') else 'ALARM: ' + ', '.join(m['false_alarms'])))
out += ['', '| refactoring | files touched | all 20 checks |', '|---|---|---|'] + rf
p = V + '/DESIGN.md'
s = open(p).read()
a, b = s.index('<!-- SEED-TABLE-BEGIN -->'), s.index('<!-- SEED-TABLE-END -->')
s = s[:a] + '<!-- SEED-TABLE-BEGIN -->\n' + '\n'.join(out) + '\n' + s[b:]
open(p, 'w').write(s)
print('%d seeds, %d refactorings' % (len(rows), len(rf)))
