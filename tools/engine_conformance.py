#!/usr/bin/env python3
"""Conformance test of the ANALYSER (not a property check; registered nowhere in MANIFEST.json).

/verif/enginetest is a corpus of ~120 small `fn(u8, u8) -> u32` functions in many Rust idioms.  This tool
  1. compiles and runs the corpus natively (stable toolchain, overflow checks on) to obtain, for every
     function and every input pair, the returned value or the fact that it panics;
  2. lets the driver dump the corpus' MIR and tabulates every function with the abstract interpreter
     (pkv/mirtab.py), exactly as the rules do with pc-keyboard's functions;
  3. compares the two tables input by input.
A disagreement is an engine bug (unsound table); an UNDECIDED is a coverage gap (a false alarm in waiting
for code written in that idiom).  usage: tools/engine_conformance.py [fn-name ...]"""
import os, subprocess, sys, tempfile, shutil, time
V = os.path.dirname(os.path.dirname(os.path.abspath(__file__)))
sys.path.insert(0, V)
from pkv import facts as F
from pkv.mirtab import Program, Engine, Undecided, check_partition
from pkv.extract import conc

ET = os.path.join(V, 'enginetest')
YS = sorted(set(list(range(0, 18)) + [31, 32, 33, 63, 64, 65, 77, 99, 100, 101, 126, 127, 128, 129, 199, 200, 201, 202, 250, 253, 254, 255]))


def truth(flavour):
    tmp = tempfile.mkdtemp(prefix='pkv-et-')
    try:
        env = dict(os.environ, CARGO_TARGET_DIR=tmp, CARGO_NET_OFFLINE='true')
        for k in ('RUSTFLAGS', 'RUSTC_WRAPPER', 'RUSTC_WORKSPACE_WRAPPER'):
            env.pop(k, None)
        subprocess.run(['python3', 'gen_main.py'], cwd=ET, check=True, capture_output=True)
        args = ['cargo', 'run', '--offline', '--quiet', '--bin', 'truth'] + (['--release'] if flavour == 'rel' else [])
        p = subprocess.run(args, cwd=ET, env=env, capture_output=True, text=True)
        if p.returncode != 0:
            raise SystemExit('native build/run failed:\n' + p.stderr[-3000:])
        tab = {}
        ys = set(YS)
        for line in p.stdout.split('\n'):
            if not line:
                continue
            n, x, y, v = line.split(' ')
            if int(y) in ys:
                tab.setdefault(n, {})[(int(x), int(y))] = None if v == 'P' else int(v)
        return tab
    finally:
        shutil.rmtree(tmp, ignore_errors=True)


def main():
    only = set(sys.argv[1:])
    bad = und = ok = 0
    for flavour in (os.environ.get('ET_FLAVOURS') or 'dev,rel').split(','):
        t0 = time.time()
        tr = truth(flavour)
        doc = F.extract(flavour, repo=ET, crate='pkv_enginetest')
        prog = Program(doc)
        names = [l.strip() for l in open(os.path.join(ET, 'src', 'names.txt')) if l.strip()]
        for n in names:
            if only and n not in only:
                continue
            try:
                en = Engine(prog)
                leaves = en.run(n, arg_doms={'y': YS}, arg_names=['x', 'y'])
                check_partition(en, leaves)
                got = {}
                for lf in leaves:
                    xs = sorted(lf.doms.get('x', range(256)))
                    ysd = sorted(lf.doms.get('y', YS))
                    for x in xs:
                        for y in ysd:
                            if lf.kind == 'return':
                                v = conc(lf.ret, {'x': x, 'y': y})
                            else:
                                v = None
                            if (x, y) in got:
                                raise Undecided('leaves overlap at %r' % ((x, y),))
                            got[(x, y)] = v
                exp = tr[n]
                diffs = [(k, exp[k], got.get(k, 'missing')) for k in exp if got.get(k, 'missing') != exp[k]]
                if diffs:
                    bad += 1
                    print('%s %-22s DISAGREES on %d inputs, e.g. (x,y)=%r native=%r engine=%r' % (flavour, n, len(diffs), diffs[0][0], diffs[0][1], diffs[0][2]))
                else:
                    ok += 1
            except (Undecided, KeyError) as u:
                und += 1
                print('%s %-22s UNDECIDED: %s' % (flavour, n, str(u)[:200]))
        print('[%s] %.1fs' % (flavour, time.time() - t0))
    print('engine conformance: %d function tables agree with native execution, %d disagree, %d undecided' % (ok, bad, und))
    sys.exit(1 if bad else 0)


if __name__ == '__main__':
    main()
