#!/bin/bash
# tools/ingest_maint.sh <TAG> <n> [kind] -- verify maintenance change p<n> of /tmp/wt-<TAG>/OUT (unit tests with the patch; the agent's
# differential test against a pristine copy when it wrote one) and store it under /verif/refactors/<TAG>-p<n>/
set -u
TAG="$1"; N="$2"; KIND="${3:-maintenance change (false-alarm test)}"; WT=/tmp/wt-$TAG; OUT=$WT/OUT; D=$OUT/p$N.diff
[ -f "$D" ] || { echo "missing $D"; exit 2; }
cd $WT || exit 2
export CARGO_TARGET_DIR=$WT/target CARGO_NET_OFFLINE=true
git checkout -q -- . ; git clean -fdq -e OUT -e target -e orig; rm -rf tests
rm -rf orig; mkdir orig; cp Cargo.toml orig/; cp -r src orig/; sed -i 's/^name = "pc-keyboard"/name = "pc-keyboard-orig"/' orig/Cargo.toml
git apply --whitespace=nowarn "$D" || { echo "$TAG p$N: patch does not apply"; git checkout -q -- .; exit 3; }
cargo test --offline --lib > /tmp/ingm_unit_$TAG.log 2>&1; UNIT=$?
UNITN=$(grep -E "^test result" /tmp/ingm_unit_$TAG.log | head -1)
DIFF=0; DIFFN="(no differential test supplied)"
if [ -f $OUT/diff_test.rs ]; then
  mkdir -p tests; cp $OUT/diff_test.rs tests/diff.rs
  grep -q "pc-keyboard-orig" Cargo.toml || { grep -q '^\[dev-dependencies\]' Cargo.toml && sed -i '/^\[dev-dependencies\]/a pc-keyboard-orig = { path = "orig" }' Cargo.toml || printf '\n[dev-dependencies]\npc-keyboard-orig = { path = "orig" }\n' >> Cargo.toml; }
  timeout 2400 cargo test --offline --release --test diff > /tmp/ingm_diff_$TAG.log 2>&1; DIFF=$?
  DIFFN=$(grep -E "^test result" /tmp/ingm_diff_$TAG.log | head -1)
fi
git checkout -q -- . ; git clean -fdq -e OUT -e target; rm -rf tests orig
echo "$TAG p$N: unit exit=$UNIT [$UNITN] differential exit=$DIFF [$DIFFN]"
if [ $UNIT -ne 0 ] || [ $DIFF -ne 0 ]; then echo "$TAG p$N: REJECTED"; [ -f /tmp/ingm_diff_$TAG.log ] && tail -20 /tmp/ingm_diff_$TAG.log; exit 4; fi
S=/verif/refactors/$TAG-p$N; mkdir -p $S
cp "$D" $S/patch.diff; [ -f $OUT/diff_test.rs ] && cp $OUT/diff_test.rs $S/diff_test.rs; cp $OUT/notes.md $S/notes.md 2>/dev/null
python3 - "$TAG" "$N" "$UNITN" "$DIFFN" "$KIND" <<'PY'
import json,sys
TAG,N,unit,diff,kind=sys.argv[1:6]
S='/verif/refactors/%s-p%s'%(TAG,N)
json.dump({'kind':kind,'origin':'independent sub-agent, scratch worktree, no access to /verif',
 'confirmed':{'unit_tests_with_patch':unit.strip(),'differential_test_vs_pristine_copy':diff.strip(),
 'how':'tools/ingest_maint.sh'}},open(S+'/meta.json','w'),indent=1)
PY
echo "$TAG p$N: stored in $S"
