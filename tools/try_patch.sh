#!/bin/sh
# tools/try_patch.sh <patch.diff> <ID> [<ID>...]  -- apply a patch to /repo, run the checks, undo it.
P="$1"; shift
cd /repo || exit 2
if ! git diff --quiet; then echo "/repo has uncommitted changes; refusing"; exit 2; fi
git apply "$P" || { echo "patch does not apply"; exit 2; }
trap 'git -C /repo checkout -- . ; git -C /repo clean -fdq -- tests 2>/dev/null' EXIT
cd /verif
for id in "$@"; do
  ./check "$id" "${TIER:-quick}" > /tmp/try_patch.out 2>&1; rc=$?
  echo "== $id exit=$rc: $(grep -c '^  violation:' /tmp/try_patch.out) violation(s)"
  grep -A1 '^  violation:' /tmp/try_patch.out | head -${SHOW:-8} | cut -c1-300
done
