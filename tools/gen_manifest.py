#!/usr/bin/env python3
"""Regenerates /verif/MANIFEST.json from the table below (single source of truth)."""
import json, os, sys
V = os.path.dirname(os.path.dirname(os.path.abspath(__file__)))
sys.path.insert(0, V)
from pkv.main import RULES

TB = ("Trusted: rustc's MIR construction, type checking, const evaluation and callee resolution; the pkv-mirdump serialiser; "
      "mirtab's abstract semantics for the MIR constructs that occur; the library's own monomorphised MIR is interpreted where "
      "available, otherwise the callee-model table (intrinsics, panic entry points; Try::branch/FromResidual/Into as fallback, "
      "cross-checked against the library MIR in the thorough tier); the ten safe slice shims of /verif/shims; ")

LAY = ("Extracts the complete decision table of every KeyboardLayout impl (124 keys x 512 modifier sets x 2 modes, Us104Key fall-through and "
       "Modifiers predicates inlined) from type-checked MIR by value-set abstract interpretation; the table is exact because all domains are finite and all CFGs acyclic. ")

INFO = {
 'C01': ('other', '4 C01', "Decides agreement of the complete extracted Set 2 automaton (6 prefix contexts x 256 bytes, contexts identified by the prefix history that reaches them from new()) with the frozen IBM/Microsoft Set 2 table, incl. the next context of every cell and that every reachable state is one of those contexts; exhaustive, no sampling. 'other' because the oracle is an external table, not a theorem.",
         TB + "reference/scancodes.json (transcribed from the README table, two README typos corrected, cross-checked against the README on every run)."),
 'C02': ('other', '4 C02', "Same as C01 for Set 1 (3 contexts x 256 bytes). The tree has one genuine defect (five JIS keys filed under E0), recorded as 20 known-finding cells; every other disagreeing cell is a violation.",
         TB + "reference/scancodes.json."),
 'C03': ('other', '4 C03', LAY + "Every cell that selects the base, shift or AltGr level (CapsLock off, Ctrl not mapped, not Shift+AltGr; all values of the other flags) is compared with a frozen per-standard reference table (accepted-character sets). Decides agreement with the reference; the reference's own correctness is outside any static argument.",
         TB + "reference/layouts/*.json, written offline from memory of the layout standards and reviewed cell by cell; this is the one oracle whose authority is the author's."),
 'C04': ('proof', '4 C04', "One-step transition of each of the nine flags extracted from the generic process_keyevent body (analysed once, parametrically in L) and compared with the specified transition on every path class x relevant atom valuation; initial state from new(); who-may-write scan over all 91+ bodies, no &mut escape, private field. 'Held iff last event was a press' and lock parity follow for histories of any length by induction over the transition relation.",
         TB + "reference/keys.json (modifier key -> flag map as stated by the property)."),
 'C05': ('proof', '4 C05', "Decision list of Ps2Decoder::add_word (private checker inlined) over all 2048 11-bit words equals the frame specification including error priority; round-trip and single-bit-corruption corollaries read off the same table. Thorough: all 65536 u16 words (reported, not judged above bit 10).",
         TB + "nothing else (the specification is the property statement itself)."),
 'C06': ('proof', '4 C06', "Symbolic-register induction: 11 abstract decoder states (register as a term over ghost bits) are computed by chaining add_bit from the new() state; bits 1-10 return Ok(None); the 11th-bit result equals add_word on all 2048 ghost assignments; the post-state is syntactically the new() state on every path (Ok and Err), so frames cannot influence each other; clear() from each abstract state gives the new() state.",
         TB + "nothing else."),
 'C07': ('proof', '4 C07', "Inductive argument over the extracted one-step transition relation of every ScancodeSet impl: every event/error cell of every reachable state returns to the initial state, and the Ok(None) edges form a DAG of depth <= 2 (Set 2) / 1 (Set 1). Thorough tier additionally aggregates all 2^32 four-byte streams over the extracted automaton.",
         TB + "the reachable-state set is computed on the extracted relation (private state field; writers checked under C08)."),
 'C08': ('proof', '4 C08', "Every public operation is interpreted abstractly over all inputs x the reachable-state invariant of its component; no path class may end in an Assert failure (overflow, shift range, bounds, division), a panic entry point or an unreachable terminator. Invariants are fixpoints: abstract shift-register states closed under all field writers; scancode states reachable over the extracted automaton. The trap-site inventory is listed in the evidence and every site must lie in an analysed body.",
         TB + "panic freedom of the inlined core library bodies is decided from their real MIR where available, otherwise trusted per the model table; derived Debug/Hash impls are out of scope."),
 'C09': ('proof', '4 C09', LAY + "Letter key = whatever the layout itself types unmodified; Ctrl+letter cells must be letter-0x60 in all states; Map and Ignore tables must agree wherever Ctrl is not held or the key is not a letter. No external oracle.",
         TB + "nothing else."),
 'C10': ('proof', '4 C10', LAY + "Cased-letter keys (lowercase base whose single-character uppercase is the shift output, incl. national letters): table(m+CapsLock) = table(m with Shift inverted); all other keys: table(m+CapsLock) = table(m). No external oracle.",
         TB + "Python's str.upper() as the Unicode simple uppercase mapping."),
 'C11': ('proof', '4 C11', LAY + "Each table is constant on every class of equal (Shift, Ctrl, AltGr, CapsLock[, NumLock on the 17 numpad keys]) x mode; the five public predicates' truth tables (512 rows each) equal their stated groupings.",
         TB + "reference/keys.json (which 17 keys are numpad keys)."),
 'C12': ('proof', '4 C12', LAY + "The union of Unicode outputs over 124 keys x {no modifier, one Shift, AltGr alone} contains U+0020..U+007E, per layout.",
         TB + "nothing else."),
 'C13': ('other', '4 C13', "Sibling agreement of the two extracted automata modulo the frozen i8042 translation table, both directions, make and break forms. 10 known-finding keys (same root cause as C02).",
         TB + "reference/i8042_xlat.json (written from memory offline; cross-validated at run time against all reference rows that have both columns)."),
 'C14': ('proof', '4 C14', "Per path class of the generic process_keyevent x (key, key state, rctrl2): Up/SingleShot -> None and no layout call; modifier/lock press -> Some(RawKey(self)) (NumLock with rctrl2 -> PauseBreak); any other press -> exactly one opaque call <L as KeyboardLayout>::map_keycode(&self.layout, code, &self.modifiers (unmodified at call time), self.handle_ctrl) whose result is returned as Some(..); setters write exactly their field. Parametric in L, so it covers user layouts too.",
         TB + "reference/keys.json (which keys are modifier/lock keys)."),
 'C15': ('proof', '4 C15', LAY + "The 17 numpad keys and 6 editing keys produce exactly what the property pins, in every one of the 1024 states, per layout.",
         TB + "reference/keys.json (pinned outputs; decimal separator per layout; De105Key accepts '.' or ',')."),
 'C16': ('proof', '4 C16', LAY + "The 52 character-less keys decode to RawKey(self) in every state of every layout; any RawKey(x) result anywhere has x = pressed key or its numpad alias with NumLock off. The 20 AnyLayout forms follow by C17.",
         TB + "reference/keys.json (the 52 keys, alias map)."),
 'C17': ('proof', '4 C17', "Call-site rule on the two delegating impls with the inner layouts opaque: per variant, exactly one call whose resolved callee is <payload type as KeyboardLayout>::map_keycode, receiver = the payload place, other arguments = the wrapper's own parameters unmodified, result returned unchanged; holds for every key/modifier/mode because the arms do not inspect them (any input-dependent special case shows up as an extra path class).",
         TB + "nothing else."),
 'C18': ('proof', '4 C18', "Per path class of each generic Keyboard<L,S> method with stage calls opaque: stage-call sequence, receivers/arguments by place identity and returned value match the three-stages-in-sequence wiring (a rejected frame never reaches the scancode decoder); fields of stages a method does not feed are structurally unchanged; no statics/unsafe. Disjoint mutable footprints + per-stage determinism give the product behaviour for every interleaving.",
         TB + "Rust's aliasing rules (a callee given &mut self.ps2_decoder cannot reach the other stages in safe code)."),
 'C19': ('proof', '4 C19', "Self-consistency of each extracted automaton with no external oracle: Down(K) iff break form gives Up(K); keys are the image of at most one complete sequence. Exhaustive over contexts x codes.",
         TB + "the identification of the break form (F0 prefix for ScancodeSet2, bit 7 for ScancodeSet1) by public type name."),
 'C20': ('proof', '4 C20', "Two static witnesses: rustc's is_const_fn/visibility facts for the 14 listed items; and a generated compile-only no_std probe crate (static Keyboard for every layout and every AnyLayout variant x both sets, every accessor evaluated in const items, Send+Sync bounds on every public state type) that must type-check with the stable toolchain, with a canary crate that must fail with E0015. Proof by the type/const checker.",
         "Trusted: rustc's const and auto-trait checking; the probe generator enumerating the layouts from the crate's own type facts."),
}

PENDING = {}
for i in range(1, 21):
    pid = 'C%02d' % i
    if pid not in INFO:
        PENDING[pid] = 'check not yet registered (framework under construction in this session; see DESIGN.md section 4 for the planned static rule)'

checks = []
for pid in sorted(INFO):
    cat, ref, text, note = INFO[pid]
    checks.append({
        'property_id': pid,
        'quick_cmd': './check %s quick' % pid,
        'thorough_cmd': './check %s thorough' % pid,
        'evidence_file': 'evidence/%s.json' % pid,
        'replay_cmd_template': './check %s --replay {path}' % pid,
        'engine': 'mirtab' if pid != 'C20' else 'rustc (compile-only probe) + pkv-mirdump facts',
        'level_claimed': {'category': cat, 'text': text, 'design_ref': 'DESIGN.md section ' + ref},
        'level_note': note,
        'technique': RULES[pid][2],
    })
m = {
    'version': 1,
    'setup_cmd': './setup.sh',
    'hooks': {
        'guard': 'none',
        'enable': 'no source hooks: the rustc driver reads private state and MIR directly',
        'baseline_off_cmd': 'cd /repo && cargo test --workspace --no-fail-fast --offline',
        'source_commits': [],
        'add_only': True,
    },
    'engines': [
        {'name': 'pkv-mirdump', 'path': 'driver/', 'serves_properties': sorted(INFO), 'kind_free_text': 'rustc_private driver dumping resolved MIR + type facts of /repo as JSON (RUSTC_WORKSPACE_WRAPPER under cargo +nightly check)'},
        {'name': 'pkv-shims', 'path': 'shims/', 'serves_properties': sorted(INFO), 'kind_free_text': 'safe index-based Rust stand-ins for the raw-pointer based core::slice / core::array / core::str iterator APIs (slice::Iter and IterMut, array::IntoIter, Chars/Bytes/CharIndices, case-mapping iterators, binary_search_by, ...), compiled by pkv-mirdump at setup and interpreted as MIR'},
        {'name': 'mirtab', 'path': 'pkv/', 'serves_properties': sorted(INFO), 'kind_free_text': 'value-set abstract interpreter over the dumped MIR extracting decision tables with span provenance; repository-specific rules on top'},
    ],
    'checks': checks,
    'not_applicable': [{'property_id': k, 'reason': v} for k, v in sorted(PENDING.items())],
    'notes': 'Static analysis only: no code of /repo is executed by any registered command (the C20 probe is type-checked with cargo check, never run). seeded/, seeded2/, seeded3/, redteam/ and refactors/ hold the 213 seeded defects, 106 red-team defects , 176 behaviour-preserving changes and 34 corrected feature-PR twins (of which 4 are still false alarms: DESIGN.md section 10) the checks were tested against (DESIGN.md section 10); tools/run_seeded.py replays them on scratch copies; enginetest/ + tools/engine_conformance.py validate the abstract interpreter against native execution of 243 idiom functions (not a registered check). Every check has a wall-clock budget per build flavour (PKV_BUDGET_S, default 900 s quick, 6 h thorough) and fails closed when it is exceeded. See DESIGN.md.',
}
json.dump(m, open(os.path.join(V, 'MANIFEST.json'), 'w'), indent=1)
print('MANIFEST.json: %d checks, %d not_applicable' % (len(checks), len(PENDING)))
