#!/usr/bin/env python3
"""Regenerates /verif/MANIFEST.json from the table below (single source of truth)."""
import json, os, sys
V = os.path.dirname(os.path.dirname(os.path.abspath(__file__)))
sys.path.insert(0, V)
from pkv.main import RULES

TB = ("Trusted: rustc's MIR construction, type checking and callee resolution; the pkv-mirdump serialiser; "
      "mirtab's abstract semantics for the MIR constructs that occur and its callee-model table "
      "(Try::branch, FromResidual, lossless Into, count_ones, panic entry points); ")

INFO = {
 'C01': ('other', '4 C01', "Decides agreement of the complete extracted Set 2 automaton (6 prefix contexts x 256 bytes, contexts identified by the prefix history that reaches them from new()) with the frozen IBM/Microsoft Set 2 table, incl. next-context of every cell; exhaustive, no sampling. 'other' because the oracle is an external table, not a theorem.",
         TB + "reference/scancodes.json (transcribed from the README table, two README typos corrected, cross-checked against the README on every run)."),
 'C02': ('other', '4 C02', "Same as C01 for Set 1 (3 contexts x 256 bytes). The tree has one genuine defect (five JIS keys filed under E0), recorded as 20 known-finding cells; every other disagreeing cell is a violation.",
         TB + "reference/scancodes.json."),
 'C07': ('proof', '4 C07', "Inductive argument over the extracted one-step transition relation of every ScancodeSet impl: every event/error cell of every reachable state returns to the initial state, and the Ok(None) edges form a DAG of depth <= 2 (Set 2) / 1 (Set 1). Holds for streams of any length by induction; thorough tier additionally aggregates all 2^32 four-byte streams over the extracted automaton.",
         TB + "the reachable-state set is computed on the extracted relation (field `state` is private; writers are only new/advance_state, checked under C08)."),
 'C13': ('other', '4 C13', "Sibling agreement of the two extracted automata modulo the frozen i8042 translation table, both directions, make and break forms. 10 known-finding keys (same root cause as C02).",
         TB + "reference/i8042_xlat.json (written from memory offline; cross-validated at run time against all reference rows that have both columns)."),
 'C19': ('proof', '4 C19', "Self-consistency of each extracted automaton with no external oracle: Down(K) iff break form gives Up(K); keys are the image of at most one complete sequence. Exhaustive over contexts x codes.",
         TB + "the identification of the break form (F0 prefix for ScancodeSet2, bit 7 for ScancodeSet1) by public type name."),
}

PENDING = {}
for i in range(1, 21):
    pid = 'C%02d' % i
    if pid not in INFO:
        PENDING[pid] = 'check not yet registered (framework under construction in this session; see DESIGN.md section 4 for the planned static rule)'

checks = []
for pid in sorted(INFO):
    cat, ref, text, note = INFO[pid]
    checks.append({
        'property_id': pid,
        'quick_cmd': './check %s quick' % pid,
        'thorough_cmd': './check %s thorough' % pid,
        'evidence_file': 'evidence/%s.json' % pid,
        'replay_cmd_template': './check %s --replay {path}' % pid,
        'engine': 'mirtab',
        'level_claimed': {'category': cat, 'text': text, 'design_ref': 'DESIGN.md section ' + ref},
        'level_note': note,
        'technique': RULES[pid][2],
    })
m = {
    'version': 1,
    'setup_cmd': './setup.sh',
    'hooks': {
        'guard': 'none',
        'enable': 'no source hooks: the rustc driver reads private state and MIR directly',
        'baseline_off_cmd': 'cd /repo && cargo test --workspace --no-fail-fast --offline',
        'source_commits': [],
        'add_only': True,
    },
    'engines': [
        {'name': 'pkv-mirdump', 'path': 'driver/', 'serves_properties': sorted(INFO), 'kind_free_text': 'rustc_private driver dumping resolved MIR + type facts of /repo as JSON (RUSTC_WORKSPACE_WRAPPER under cargo +nightly check)'},
        {'name': 'mirtab', 'path': 'pkv/', 'serves_properties': sorted(INFO), 'kind_free_text': 'value-set abstract interpreter over the dumped MIR extracting decision tables with span provenance; repository-specific rules on top'},
    ],
    'checks': checks,
    'not_applicable': [{'property_id': k, 'reason': v} for k, v in sorted(PENDING.items())],
    'notes': 'Static analysis only: no code of /repo is executed by any registered command. See DESIGN.md.',
}
json.dump(m, open(os.path.join(V, 'MANIFEST.json'), 'w'), indent=1)
print('MANIFEST.json: %d checks, %d not_applicable' % (len(checks), len(PENDING)))
