#!/bin/sh
# tools/mkrf.sh <refactor-or-seed dir>  -> scratch copy at /tmp/rf/<name>/repo with the patch applied + facts at /verif/work/rf-<name>.json
n=$(basename $1); d=/tmp/rf/$n; rm -rf $d; mkdir -p $d; cp -r /repo $d/repo; rm -rf $d/repo/target $d/repo/.git
( cd $d/repo && git apply --whitespace=nowarn $1/patch.diff ) || exit 1
cd /verif && PKV_REPO=$d/repo python3 pkv/facts.py dev /verif/work/rf-$n.json 2>&1 | tail -3 | cut -c1-300
