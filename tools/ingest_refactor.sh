#!/bin/bash
# tools/ingest_refactor.sh <TAG> <n>  -- verify refactoring n of /tmp/wt-<TAG>/OUT (unit tests + the agent's differential test
# against a pristine copy) and store it under /verif/refactors/<TAG>-r<n>/
set -u
TAG="$1"; N="$2"; WT=/tmp/wt-$TAG; OUT=$WT/OUT; D=$OUT/r$N.diff
[ -f "$D" ] && [ -f "$OUT/diff_test.rs" ] || { echo "missing deliverables"; exit 2; }
cd $WT || exit 2
export CARGO_TARGET_DIR=$WT/target CARGO_NET_OFFLINE=true
git checkout -q -- . ; rm -rf tests; mkdir -p tests
if [ ! -d orig ]; then mkdir orig; cp Cargo.toml orig/; cp -r src orig/; sed -i 's/^name = "pc-keyboard"/name = "pc-keyboard-orig"/' orig/Cargo.toml; fi
git -C $WT diff --quiet -- src || { echo "src not clean"; exit 2; }
# pristine copy must equal HEAD
diff -rq src orig/src >/dev/null || { rm -rf orig; mkdir orig; cp Cargo.toml orig/; cp -r src orig/; sed -i 's/^name = "pc-keyboard"/name = "pc-keyboard-orig"/' orig/Cargo.toml; }
cp $OUT/diff_test.rs tests/diff.rs
grep -q "pc-keyboard-orig" Cargo.toml || printf '\n[dev-dependencies]\npc-keyboard-orig = { path = "orig" }\n' >> Cargo.toml
git apply "$D" || { echo "$TAG r$N: patch does not apply"; git checkout -q -- .; exit 3; }
cargo test --offline --lib > /tmp/ingr_unit.log 2>&1; UNIT=$?
UNITN=$(grep -E "^test result" /tmp/ingr_unit.log | head -1)
timeout 1800 cargo test --offline --release --test diff > /tmp/ingr_diff.log 2>&1; DIFF=$?
DIFFN=$(grep -E "^test result" /tmp/ingr_diff.log | head -1)
git checkout -q -- . ; rm -rf tests
echo "$TAG r$N: unit exit=$UNIT [$UNITN] differential exit=$DIFF [$DIFFN]"
if [ $UNIT -ne 0 ] || [ $DIFF -ne 0 ]; then echo "$TAG r$N: REJECTED"; tail -20 /tmp/ingr_diff.log; exit 4; fi
S=/verif/refactors/$TAG-r$N; mkdir -p $S
cp "$D" $S/patch.diff; cp $OUT/diff_test.rs $S/diff_test.rs; cp $OUT/notes.md $S/notes.md 2>/dev/null
python3 - "$TAG" "$N" "$UNITN" "$DIFFN" <<'PY'
import json,sys
TAG,N,unit,diff=sys.argv[1:5]
S='/verif/refactors/%s-r%s'%(TAG,N)
json.dump({'kind':'behaviour-preserving refactoring (false-alarm test)','origin':'independent sub-agent, scratch worktree, no access to /verif',
 'confirmed':{'unit_tests_with_patch':unit.strip(),'differential_test_vs_pristine_copy':diff.strip(),
 'how':'tools/ingest_refactor.sh: git apply patch.diff; cargo test --offline --lib; cargo test --offline --release --test diff (agent-written exhaustive differential test against an unmodified copy of the crate)'}},open(S+'/meta.json','w'),indent=1)
PY
echo "$TAG r$N: stored in $S"
