#!/bin/bash
# tools/ingest_redteam.sh <ID> <n>   -- verify mutant n of /tmp/wt-<ID>/OUT and store it under /verif/seeded/<ID>-m<n>/
set -u
ID="$1"; N="$2"; WT=/tmp/wt-$ID; OUT=$WT/OUT
D=$OUT/m$N.diff; DEMO=$OUT/m${N}_demo.rs; NOTES=$OUT/m${N}_notes.md
[ -f "$D" ] && [ -f "$DEMO" ] || { echo "missing deliverables for $ID m$N"; exit 2; }
cd $WT || exit 2
export CARGO_TARGET_DIR=$WT/target CARGO_NET_OFFLINE=true
git checkout -q -- . ; rm -f tests/demo.rs; mkdir -p tests
cp "$DEMO" tests/demo.rs
cargo test --offline --test demo >/tmp/ing_base.log 2>&1; BASE=$?
git apply --whitespace=nowarn "$D" || { echo "$ID m$N: patch does not apply"; git checkout -q -- .; rm -f tests/demo.rs; exit 3; }
cargo test --offline --lib >/tmp/ing_unit.log 2>&1; UNIT=$?
UNITN=$(grep -E "^test result" /tmp/ing_unit.log | head -1)
cargo test --offline --test demo >/tmp/ing_mut.log 2>&1; MUT=$?
git checkout -q -- . ; rm -f tests/demo.rs
echo "$ID m$N: demo-on-baseline exit=$BASE  unit-tests-with-patch exit=$UNIT [$UNITN]  demo-with-patch exit=$MUT"
if [ $BASE -ne 0 ] || [ $UNIT -ne 0 ] || [ $MUT -eq 0 ]; then echo "$ID m$N: REJECTED"; exit 4; fi
S=/verif/redteam/$ID-m$N; mkdir -p $S
cp "$D" $S/patch.diff; cp "$DEMO" $S/demo.rs; cp "$NOTES" $S/notes.md 2>/dev/null
python3 - "$ID" "$N" "$UNITN" <<'PY'
import json,sys,os
ID,N,unit=sys.argv[1:4]
S='/verif/redteam/%s-m%s'%(ID,N)
notes=open(S+'/notes.md').read() if os.path.exists(S+'/notes.md') else ''
meta={'property':ID,'mutant':int(N),'origin':'informed red-team sub-agent (given the design document)',
 'needs_to_manifest':notes,
 'confirmed':{'demo_on_unchanged_tree':'passes','unit_tests_with_patch':unit.strip(),'demo_with_patch':'fails',
   'how':'tools/ingest_redteam.sh: in a scratch worktree: cargo test --offline --test demo (unchanged) ; git apply patch.diff ; cargo test --offline --lib ; cargo test --offline --test demo'}}
json.dump(meta,open(S+'/meta.json','w'),indent=1)
PY
echo "$ID m$N: stored in $S"
