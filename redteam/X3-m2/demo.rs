//! m2 demo: C04 - no one-shot event changes any modifier; C14 - every one-shot
//! event yields no decoded key.  Public API only.
use pc_keyboard::{
    layouts, HandleControl, KeyCode, KeyEvent, KeyState, Keyboard, Modifiers, ScancodeSet2,
};

const KEYS: [KeyCode; 12] = [
    KeyCode::LShift,
    KeyCode::RShift,
    KeyCode::LControl,
    KeyCode::RControl,
    KeyCode::LAlt,
    KeyCode::RAltGr,
    KeyCode::RControl2,
    KeyCode::CapsLock,
    KeyCode::NumpadLock,
    KeyCode::A,
    KeyCode::Spacebar,
    KeyCode::PowerOnTestOk,
];

#[test]
fn one_shot_events_change_no_modifier_and_decode_to_nothing() {
    for k in KEYS {
        let mut kb = Keyboard::new(
            ScancodeSet2::new(),
            layouts::Us104Key,
            HandleControl::MapLettersToUnicode,
        );
        let before: Modifiers = kb.get_modifiers().clone();
        let got = kb.process_keyevent(KeyEvent::new(k, KeyState::SingleShot));
        assert_eq!(got, None, "one-shot {:?} must not decode to a key", k);
        assert_eq!(
            kb.get_modifiers(),
            &before,
            "one-shot {:?} must not change the modifier state",
            k
        );
    }
}

#[test]
fn held_modifier_survives_a_one_shot_of_another_modifier() {
    let mut kb = Keyboard::new(
        ScancodeSet2::new(),
        layouts::Us104Key,
        HandleControl::Ignore,
    );
    kb.process_keyevent(KeyEvent::new(KeyCode::CapsLock, KeyState::Down));
    kb.process_keyevent(KeyEvent::new(KeyCode::CapsLock, KeyState::Up));
    assert!(kb.get_modifiers().capslock);
    // a one-shot CapsLock is not a press: parity of presses stays 1
    kb.process_keyevent(KeyEvent::new(KeyCode::CapsLock, KeyState::SingleShot));
    assert!(kb.get_modifiers().capslock);
}
