//! m3 demo: every Set 1 byte stream decodes - in particular every break code is
//! reported as a release (C02, C19) - whatever the build profile.
//!
//! The defect exists only in builds with debug assertions OFF and overflow checks ON,
//! e.g. a release profile with `overflow-checks = true`:
//!   CARGO_PROFILE_RELEASE_OVERFLOW_CHECKS=true cargo test --offline --release --test demo
use pc_keyboard::{KeyCode, KeyEvent, KeyState, ScancodeSet, ScancodeSet1};

#[test]
fn set1_break_codes_are_releases() {
    let mut s = ScancodeSet1::new();
    assert_eq!(
        s.advance_state(0x1E),
        Ok(Some(KeyEvent::new(KeyCode::A, KeyState::Down)))
    );
    assert_eq!(
        s.advance_state(0x9E),
        Ok(Some(KeyEvent::new(KeyCode::A, KeyState::Up)))
    );
    assert_eq!(s.advance_state(0xE0), Ok(None));
    assert_eq!(
        s.advance_state(0xC8),
        Ok(Some(KeyEvent::new(KeyCode::ArrowUp, KeyState::Up)))
    );
}

#[test]
fn set1_make_break_pairing_all_codes() {
    for prefix in [None, Some(0xE0u8), Some(0xE1u8)] {
        for code in 0u8..0x80 {
            if prefix.is_none() && (code == 0x60 || code == 0x61) {
                continue; // their "break forms" E0 / E1 are the prefix bytes
            }
            let mut s = ScancodeSet1::new();
            if let Some(p) = prefix {
                let _ = s.advance_state(p);
            }
            let make = s.advance_state(code);
            if let Some(p) = prefix {
                let _ = s.advance_state(p);
            }
            let brk = s.advance_state(code | 0x80);
            match (make, brk) {
                (Ok(Some(m)), Ok(Some(b))) => {
                    assert_eq!(m.code, b.code);
                    assert_eq!(m.state, KeyState::Down);
                    assert_eq!(b.state, KeyState::Up);
                }
                (Err(a), Err(b)) => assert_eq!(a, b),
                other => panic!("make/break disagree for {prefix:?} {code:#04x}: {other:?}"),
            }
        }
    }
}
