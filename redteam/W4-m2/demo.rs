//! m2 demo: on the Norwegian layout Shift / CapsLock must capitalise the
//! national letters (properties C03 shift level, C10 CapsLock inversion).
use pc_keyboard::layouts::{AnyLayout, No105Key};
use pc_keyboard::{
    DecodedKey, HandleControl, KeyCode, KeyEvent, KeyState, Keyboard, KeyboardLayout, Modifiers,
    ScancodeSet1,
};

fn mods(lshift: bool, rshift: bool, capslock: bool) -> Modifiers {
    Modifiers {
        lshift,
        rshift,
        lctrl: false,
        rctrl: false,
        numlock: true,
        capslock,
        lalt: false,
        ralt: false,
        rctrl2: false,
    }
}

const KEYS: [(KeyCode, char, char); 3] = [
    (KeyCode::Oem4, '\u{00E5}', '\u{00C5}'), // å Å
    (KeyCode::Oem1, '\u{00F8}', '\u{00D8}'), // ø Ø
    (KeyCode::Oem3, '\u{00E6}', '\u{00C6}'), // æ Æ
];

#[test]
fn shift_types_the_capital_c03() {
    for hc in [HandleControl::Ignore, HandleControl::MapLettersToUnicode] {
        for (key, small, cap) in KEYS {
            assert_eq!(
                No105Key.map_keycode(key, &mods(false, false, false), hc),
                DecodedKey::Unicode(small)
            );
            for (l, r) in [(true, false), (false, true), (true, true)] {
                assert_eq!(
                    No105Key.map_keycode(key, &mods(l, r, false), hc),
                    DecodedKey::Unicode(cap)
                );
                assert_eq!(
                    AnyLayout::No105Key(No105Key).map_keycode(key, &mods(l, r, false), hc),
                    DecodedKey::Unicode(cap)
                );
            }
        }
    }
}

#[test]
fn capslock_inverts_shift_c10() {
    for (key, small, cap) in KEYS {
        let hc = HandleControl::Ignore;
        assert_eq!(
            No105Key.map_keycode(key, &mods(false, false, true), hc),
            DecodedKey::Unicode(cap)
        );
        assert_eq!(
            No105Key.map_keycode(key, &mods(true, false, true), hc),
            DecodedKey::Unicode(small)
        );
    }
}

#[test]
fn capslock_end_to_end() {
    let mut kb = Keyboard::new(ScancodeSet1::new(), No105Key, HandleControl::Ignore);
    kb.process_keyevent(KeyEvent::new(KeyCode::CapsLock, KeyState::Down));
    kb.process_keyevent(KeyEvent::new(KeyCode::CapsLock, KeyState::Up));
    // Set 1 make code 0x1A is the key right of P (Oem4)
    let ev = kb.add_byte(0x1A).unwrap().unwrap();
    assert_eq!(ev.code, KeyCode::Oem4);
    assert_eq!(
        kb.process_keyevent(ev),
        Some(DecodedKey::Unicode('\u{00C5}'))
    );
}
