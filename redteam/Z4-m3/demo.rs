//! m3 demo: Norwegian layout, Caps Lock no longer capitalises the national letters å ø æ
//! (C10: "CapsLock acts exactly as an inversion of Shift ... including national letters such
//! as the German, Nordic and French ones").
//! Public API only.  Passes on the unchanged crate, fails with m3 applied.
use pc_keyboard::layouts::{AnyLayout, No105Key};
use pc_keyboard::{
    DecodedKey, EventDecoder, HandleControl, KeyCode, KeyEvent, KeyState, Keyboard, ScancodeSet2,
};

fn down(code: KeyCode) -> KeyEvent {
    KeyEvent::new(code, KeyState::Down)
}

const LETTERS: [(KeyCode, char, char); 3] = [
    (KeyCode::Oem4, 'å', 'Å'),
    (KeyCode::Oem1, 'ø', 'Ø'),
    (KeyCode::Oem3, 'æ', 'Æ'),
];

#[test]
fn capslock_inverts_shift_on_norwegian_letters() {
    for mode in [HandleControl::Ignore, HandleControl::MapLettersToUnicode] {
        for (key, lower, upper) in LETTERS {
            // no lock: plain -> lower, shift -> upper (same with and without the change)
            let mut dec = EventDecoder::new(No105Key, mode);
            assert_eq!(dec.process_keyevent(down(key)), Some(DecodedKey::Unicode(lower)));
            dec.process_keyevent(down(KeyCode::RShift));
            assert_eq!(dec.process_keyevent(down(key)), Some(DecodedKey::Unicode(upper)));

            // Caps Lock alone gives the capital
            let mut dec = EventDecoder::new(No105Key, mode);
            dec.process_keyevent(down(KeyCode::CapsLock));
            assert_eq!(
                dec.process_keyevent(down(key)),
                Some(DecodedKey::Unicode(upper)),
                "CapsLock+{:?}",
                key
            );
            // Caps Lock + Shift gives the small letter
            dec.process_keyevent(down(KeyCode::LShift));
            assert_eq!(
                dec.process_keyevent(down(key)),
                Some(DecodedKey::Unicode(lower)),
                "CapsLock+Shift+{:?}",
                key
            );
        }
    }
}

#[test]
fn capslock_on_norwegian_letters_through_anylayout() {
    for (key, _, upper) in LETTERS {
        let mut dec = EventDecoder::new(AnyLayout::No105Key(No105Key), HandleControl::Ignore);
        dec.process_keyevent(down(KeyCode::CapsLock));
        assert_eq!(dec.process_keyevent(down(key)), Some(DecodedKey::Unicode(upper)));
    }
}

#[test]
fn capslock_on_norwegian_letters_from_scancodes() {
    // Set 2: 58 = CapsLock make, F0 58 = break, 54 = the key right of P (å)
    let mut kb = Keyboard::new(ScancodeSet2::new(), No105Key, HandleControl::Ignore);
    let mut out = None;
    for byte in [0x58u8, 0xF0, 0x58, 0x54] {
        if let Ok(Some(ev)) = kb.add_byte(byte) {
            out = kb.process_keyevent(ev);
        }
    }
    assert_eq!(out, Some(DecodedKey::Unicode('Å')));
}
