// Demonstration for mutant m3 (property C14).
// A non-modifier press must yield precisely what the installed layout returns for
// (key, current modifiers, CURRENT Ctrl-handling mode).  A recording layout shows
// which triple was consulted.
use core::cell::Cell;
use pc_keyboard::{
    DecodedKey, EventDecoder, HandleControl, KeyCode, KeyEvent, KeyState, KeyboardLayout, Modifiers,
};

struct Recorder<'a> {
    seen: &'a Cell<Option<(KeyCode, bool, HandleControl)>>,
}

impl<'a> KeyboardLayout for Recorder<'a> {
    fn map_keycode(&self, keycode: KeyCode, modifiers: &Modifiers, handle_ctrl: HandleControl) -> DecodedKey {
        self.seen.set(Some((keycode, modifiers.lalt, handle_ctrl)));
        match handle_ctrl {
            HandleControl::MapLettersToUnicode => DecodedKey::Unicode('M'),
            HandleControl::Ignore => DecodedKey::Unicode('I'),
        }
    }
}

#[test]
fn current_mode_reaches_the_layout_whatever_the_modifiers() {
    let seen = Cell::new(None);
    let mut dec = EventDecoder::new(Recorder { seen: &seen }, HandleControl::MapLettersToUnicode);

    // no modifier held
    let out = dec.process_keyevent(KeyEvent::new(KeyCode::A, KeyState::Down));
    assert_eq!(seen.take(), Some((KeyCode::A, false, HandleControl::MapLettersToUnicode)));
    assert_eq!(out, Some(DecodedKey::Unicode('M')));

    // left Alt held: the mode is still MapLettersToUnicode
    assert_eq!(
        dec.process_keyevent(KeyEvent::new(KeyCode::LAlt, KeyState::Down)),
        Some(DecodedKey::RawKey(KeyCode::LAlt))
    );
    let out = dec.process_keyevent(KeyEvent::new(KeyCode::A, KeyState::Down));
    assert_eq!(
        seen.take(),
        Some((KeyCode::A, true, HandleControl::MapLettersToUnicode)),
        "layout was consulted with a Ctrl-handling mode that is not the current one"
    );
    assert_eq!(out, Some(DecodedKey::Unicode('M')));

    // a mode change takes effect on the very next key, and back
    dec.set_ctrl_handling(HandleControl::Ignore);
    dec.process_keyevent(KeyEvent::new(KeyCode::B, KeyState::Down));
    assert_eq!(seen.take(), Some((KeyCode::B, true, HandleControl::Ignore)));
    dec.set_ctrl_handling(HandleControl::MapLettersToUnicode);
    dec.process_keyevent(KeyEvent::new(KeyCode::B, KeyState::Down));
    assert_eq!(seen.take(), Some((KeyCode::B, true, HandleControl::MapLettersToUnicode)));
}
