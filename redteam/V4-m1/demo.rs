//! m1 demo (property C09, last sentence): "... or on any non-letter key, Ctrl handling
//! changes nothing", quantified over 10 layouts x 124 keys x all 512 modifier
//! combinations x both Ctrl-handling modes.
//!
//! For every key that the layout does not type as a letter a..z, holding a Ctrl key must
//! not change what the key produces.  The only legitimate way Ctrl can matter to a layout
//! is through the crate's documented AltGr emulation (left Alt + Ctrl == AltGr), so the
//! comparison is made only between states whose AltGr-ness is the same with and without
//! Ctrl (i.e. Right Alt held, or Left Alt not held).
use pc_keyboard::layouts::*;
use pc_keyboard::{DecodedKey, HandleControl, KeyCode, KeyboardLayout, Modifiers};

fn all_keys() -> Vec<KeyCode> {
    // KeyCode is a field-less enum with 124 variants; recover them through the Set 1/2
    // independent route of simply listing the main-block and numpad keys of interest
    // plus every other key reachable by name.
    use KeyCode::*;
    vec![
        Escape, F1, F2, F3, F4, F5, F6, F7, F8, F9, F10, F11, F12, PrintScreen, SysRq,
        ScrollLock, PauseBreak, Oem8, Key1, Key2, Key3, Key4, Key5, Key6, Key7, Key8, Key9,
        Key0, OemMinus, OemPlus, Backspace, Insert, Home, PageUp, NumpadLock, NumpadDivide,
        NumpadMultiply, NumpadSubtract, Tab, Q, W, E, R, T, Y, U, I, O, P, Oem4, Oem6, Oem5,
        Oem7, Delete, End, PageDown, Numpad7, Numpad8, Numpad9, NumpadAdd, CapsLock, A, S, D,
        F, G, H, J, K, L, Oem1, Oem3, Return, Numpad4, Numpad5, Numpad6, LShift, Z, X, C, V,
        B, N, M, OemComma, OemPeriod, Oem2, RShift, ArrowUp, Numpad1, Numpad2, Numpad3,
        NumpadEnter, LControl, LWin, LAlt, Spacebar, RAltGr, RWin, Apps, RControl, ArrowLeft,
        ArrowDown, ArrowRight, Numpad0, NumpadPeriod, Oem9, Oem10, Oem11, Oem12, Oem13,
        PrevTrack, NextTrack, Mute, Calculator, Play, Stop, VolumeDown, VolumeUp, WWWHome,
        RControl2, RAlt2, PowerOnTestOk, TooManyKeys,
    ]
}

fn mods(bits: u16) -> Modifiers {
    Modifiers {
        lshift: bits & 1 != 0,
        rshift: bits & 2 != 0,
        lctrl: bits & 4 != 0,
        rctrl: bits & 8 != 0,
        numlock: bits & 16 != 0,
        capslock: bits & 32 != 0,
        lalt: bits & 64 != 0,
        ralt: bits & 128 != 0,
        rctrl2: bits & 256 != 0,
    }
}

fn check(name: &str, layout: &dyn KeyboardLayout) -> usize {
    let mut compared = 0;
    for key in all_keys() {
        let base = layout.map_keycode(key, &mods(16), HandleControl::Ignore);
        if matches!(base, DecodedKey::Unicode(c) if c.is_ascii_lowercase()) {
            continue; // a letter key: Ctrl+letter mapping is allowed to act on it
        }
        for mode in [HandleControl::Ignore, HandleControl::MapLettersToUnicode] {
            for bits in 0..512u16 {
                let with = mods(bits);
                if !with.is_ctrl() {
                    continue;
                }
                let mut without = with.clone();
                without.lctrl = false;
                without.rctrl = false;
                if with.is_altgr() != without.is_altgr() {
                    continue; // LAlt+Ctrl acting as AltGr: legitimately a different level
                }
                compared += 1;
                assert_eq!(
                    layout.map_keycode(key, &with, mode),
                    layout.map_keycode(key, &without, mode),
                    "{name}: Ctrl changes non-letter key {key:?} in {mode:?} with {with:?}"
                );
            }
        }
    }
    compared
}

#[test]
fn ctrl_changes_nothing_on_non_letter_keys() {
    let mut n = 0;
    n += check("Us104Key", &Us104Key);
    n += check("Uk105Key", &Uk105Key);
    n += check("Jis109Key", &Jis109Key);
    n += check("Azerty", &Azerty);
    n += check("Colemak", &Colemak);
    n += check("Dvorak104Key", &Dvorak104Key);
    n += check("DVP104Key", &DVP104Key);
    n += check("De105Key", &De105Key);
    n += check("No105Key", &No105Key);
    n += check("FiSe105Key", &FiSe105Key);
    n += check("AnyLayout::Us104Key", &AnyLayout::Us104Key(Us104Key));
    assert!(n > 600_000, "compared {n} state pairs");
    // the list really is the whole KeyCode enum
    let mut ids: Vec<u8> = all_keys().into_iter().map(|k| k as u8).collect();
    ids.sort();
    ids.dedup();
    assert_eq!(ids.len(), 124);
}

#[test]
fn concrete_case_shift_altgr_2_on_us() {
    // Right Alt + Shift + 2 types '@' on a US keyboard; adding Ctrl must not change that.
    let mut m = mods(16);
    m.lshift = true;
    m.ralt = true;
    let without = Us104Key.map_keycode(KeyCode::Key2, &m, HandleControl::Ignore);
    m.rctrl = true;
    let with = Us104Key.map_keycode(KeyCode::Key2, &m, HandleControl::Ignore);
    assert_eq!(without, DecodedKey::Unicode('@'));
    assert_eq!(with, without);
}
