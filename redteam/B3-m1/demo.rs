// Demonstration for mutant m1 (property C04).
// Left Alt is a momentary modifier: after its press `lalt` must be reported held
// and AltGr (`ralt`) must not be touched.
use pc_keyboard::{layouts::Us104Key, HandleControl, KeyCode, KeyEvent, KeyState, Keyboard, ScancodeSet2};

#[test]
fn left_alt_press_is_reported_as_left_alt() {
    let mut kb = Keyboard::new(ScancodeSet2::new(), Us104Key, HandleControl::Ignore);
    assert!(!kb.get_modifiers().lalt);
    assert!(!kb.get_modifiers().ralt);
    kb.process_keyevent(KeyEvent::new(KeyCode::LAlt, KeyState::Down));
    assert!(kb.get_modifiers().lalt, "LAlt pressed but lalt not reported held");
    assert!(!kb.get_modifiers().ralt, "LAlt press changed the AltGr flag");
    kb.process_keyevent(KeyEvent::new(KeyCode::LAlt, KeyState::Up));
    assert!(!kb.get_modifiers().lalt);
    assert!(!kb.get_modifiers().ralt, "AltGr stuck after LAlt press/release");
}

#[test]
fn altgr_history_is_not_disturbed_by_left_alt() {
    let mut kb = Keyboard::new(ScancodeSet2::new(), Us104Key, HandleControl::Ignore);
    // sequence through the byte interface as well: LAlt make = 0x11 in set 2
    let ev = kb.add_byte(0x11).unwrap().unwrap();
    assert_eq!(ev, KeyEvent::new(KeyCode::LAlt, KeyState::Down));
    kb.process_keyevent(ev);
    let m = kb.get_modifiers();
    assert!(m.lalt && !m.ralt, "modifiers after LAlt press: {:?}", m);
}
