//! m2 demo: the ACPI keys must sit on the codes the Microsoft Keyboard Scan Code
//! Specification gives them (Power: Set 1 E0 5E / Set 2 E0 37, Sleep: E0 5F / E0 3F,
//! Wake: E0 63 / E0 5E).  A decoder that does not know a code must say UnknownKeyCode;
//! it must never report the code as some *other* key.
//! Written against the public API only and so that it also compiles on a tree that has
//! no ACPI keys at all (keys are compared through their Debug names).
use pc_keyboard::{Error, KeyEvent, KeyState, ScancodeSet, ScancodeSet1, ScancodeSet2};

fn feed<S: ScancodeSet>(set: &mut S, bytes: &[u8]) -> Result<Option<KeyEvent>, Error> {
    let mut last = Ok(None);
    for b in bytes {
        last = set.advance_state(*b);
    }
    last
}

fn check(what: &str, r: Result<Option<KeyEvent>, Error>, key: &str, state: KeyState) {
    match r {
        Err(Error::UnknownKeyCode) => {} // code not (yet) supported: allowed
        Ok(Some(ev)) => {
            assert_eq!(
                (format!("{:?}", ev.code).as_str(), ev.state),
                (key, state),
                "{what}: the standard assigns this sequence to {key}"
            );
        }
        other => panic!("{what}: unexpected {:?}", other),
    }
}

#[test]
fn acpi_keys_set2() {
    for (code, key) in [(0x37u8, "Power"), (0x3F, "Sleep"), (0x5E, "Wake")] {
        let mut s = ScancodeSet2::new();
        check("set2 make", feed(&mut s, &[0xE0, code]), key, KeyState::Down);
        check("set2 break", feed(&mut s, &[0xE0, 0xF0, code]), key, KeyState::Up);
    }
}

#[test]
fn acpi_keys_set1() {
    for (code, key) in [(0x5Eu8, "Power"), (0x5F, "Sleep"), (0x63, "Wake")] {
        let mut s = ScancodeSet1::new();
        check("set1 make", feed(&mut s, &[0xE0, code]), key, KeyState::Down);
        check("set1 break", feed(&mut s, &[0xE0, code | 0x80]), key, KeyState::Up);
    }
}
