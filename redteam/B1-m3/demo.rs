// Demonstration for mutant m3 (property C01, also C13 and C19's "can go down and come up").
// Public API only.  Passes on the unchanged crate, fails with m3 applied.
use pc_keyboard::{
    layouts, DecodedKey, HandleControl, KeyCode, KeyEvent, KeyState, Keyboard, ScancodeSet,
    ScancodeSet1, ScancodeSet2,
};

#[test]
fn set2_extended_keypad_keys_decode() {
    for (code, key) in [(0x4Au8, KeyCode::NumpadDivide), (0x5A, KeyCode::NumpadEnter)] {
        let mut set = ScancodeSet2::new();
        assert_eq!(set.advance_state(0xE0), Ok(None));
        assert_eq!(
            set.advance_state(code),
            Ok(Some(KeyEvent::new(key, KeyState::Down))),
            "E0 {:02X}",
            code
        );
        assert_eq!(set.advance_state(0xE0), Ok(None));
        assert_eq!(set.advance_state(0xF0), Ok(None));
        assert_eq!(
            set.advance_state(code),
            Ok(Some(KeyEvent::new(key, KeyState::Up))),
            "E0 F0 {:02X}",
            code
        );
    }
}

#[test]
fn keypad_enter_is_the_same_through_both_sets() {
    // Set 2 `E0 5A` is translated by the i8042 to Set 1 `E0 1C`.
    let mut k2 = Keyboard::new(
        ScancodeSet2::new(),
        layouts::Us104Key,
        HandleControl::MapLettersToUnicode,
    );
    let mut k1 = Keyboard::new(
        ScancodeSet1::new(),
        layouts::Us104Key,
        HandleControl::MapLettersToUnicode,
    );
    assert_eq!(k2.add_byte(0xE0), Ok(None));
    assert_eq!(k1.add_byte(0xE0), Ok(None));
    let e2 = k2.add_byte(0x5A);
    let e1 = k1.add_byte(0x1C);
    assert_eq!(e1, e2);
    let ev = e2.unwrap().unwrap();
    assert_eq!(k2.process_keyevent(ev), Some(DecodedKey::Unicode('\n')));
}
