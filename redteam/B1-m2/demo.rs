// Demonstration for mutant m2 (property C02, also C13/C19).
// Public API only.  Passes on the unchanged crate, fails with m2 applied.
use pc_keyboard::{KeyCode, KeyEvent, KeyState, ScancodeSet, ScancodeSet1};

fn feed(bytes: &[u8]) -> Result<Option<KeyEvent>, pc_keyboard::Error> {
    let mut set = ScancodeSet1::new();
    let mut last = Ok(None);
    for b in bytes {
        last = set.advance_state(*b);
    }
    last
}

#[test]
fn set1_navigation_cluster_decodes_to_the_standard_keys() {
    // (code after E0, key) - the README / IBM-Microsoft Set 1 table
    let table = [
        (0x1Cu8, KeyCode::NumpadEnter),
        (0x38, KeyCode::RAltGr),
        (0x47, KeyCode::Home),
        (0x48, KeyCode::ArrowUp),
        (0x49, KeyCode::PageUp),
        (0x4B, KeyCode::ArrowLeft),
        (0x4D, KeyCode::ArrowRight),
        (0x4F, KeyCode::End),
        (0x50, KeyCode::ArrowDown),
        (0x51, KeyCode::PageDown),
        (0x52, KeyCode::Insert),
        (0x53, KeyCode::Delete),
        (0x5B, KeyCode::LWin),
        (0x5C, KeyCode::RWin),
        (0x5D, KeyCode::Apps),
    ];
    for (code, key) in table {
        assert_eq!(
            feed(&[0xE0, code]),
            Ok(Some(KeyEvent::new(key, KeyState::Down))),
            "E0 {:02X} make",
            code
        );
        assert_eq!(
            feed(&[0xE0, code | 0x80]),
            Ok(Some(KeyEvent::new(key, KeyState::Up))),
            "E0 {:02X} break",
            code | 0x80
        );
    }
}
