//! m2 demo: the Finnish/Swedish layout loses the AltGr level of all its symbol keys
//! (C03: "wherever a layout gives a key a distinct AltGr-level character it is the standard's";
//!  C12: @ $ { [ ] } \ ~ | can no longer be typed at all).
//! Public API only.  Passes on the unchanged crate, fails with m2 applied.
use pc_keyboard::layouts::{AnyLayout, FiSe105Key};
use pc_keyboard::{
    DecodedKey, EventDecoder, HandleControl, KeyCode, KeyEvent, KeyState, Keyboard, ScancodeSet2,
};

fn down(code: KeyCode) -> KeyEvent {
    KeyEvent::new(code, KeyState::Down)
}

#[test]
fn fi_se_altgr_level_is_the_standard_one() {
    use KeyCode::*;
    let expected = [
        (Key2, '@'),
        (Key3, '£'),
        (Key4, '$'),
        (Key5, '€'),
        (Key7, '{'),
        (Key8, '['),
        (Key9, ']'),
        (Key0, '}'),
        (OemMinus, '\\'),
        (Oem6, '~'),
        (Oem5, '|'),
    ];
    for (key, c) in expected {
        let mut dec = EventDecoder::new(FiSe105Key, HandleControl::Ignore);
        dec.process_keyevent(down(RAltGr));
        assert_eq!(
            dec.process_keyevent(down(key)),
            Some(DecodedKey::Unicode(c)),
            "AltGr+{:?}",
            key
        );
        let mut dec = EventDecoder::new(AnyLayout::FiSe105Key(FiSe105Key), HandleControl::Ignore);
        dec.process_keyevent(down(RAltGr));
        assert_eq!(dec.process_keyevent(down(key)), Some(DecodedKey::Unicode(c)));
    }
}

#[test]
fn fi_se_altgr_2_from_scancodes() {
    // Set 2: E0 11 = AltGr make, 1E = '2' make
    let mut kb = Keyboard::new(ScancodeSet2::new(), FiSe105Key, HandleControl::MapLettersToUnicode);
    let mut out = None;
    for byte in [0xE0u8, 0x11, 0x1E] {
        if let Ok(Some(ev)) = kb.add_byte(byte) {
            out = kb.process_keyevent(ev);
        }
    }
    assert_eq!(out, Some(DecodedKey::Unicode('@')));
}

#[test]
fn fi_se_types_all_printable_ascii() {
    // C12, literally: all 124 keys (KeyCode is a field-less enum, walk it through the decoders'
    // own tables is not needed - every character key has a Set 2 code) x three plain levels.
    let mut seen = [false; 128];
    for modifier in [None, Some(KeyCode::LShift), Some(KeyCode::RAltGr)] {
        for prefix in [false, true] {
            for code in 0u8..=0x8F {
                let mut set = ScancodeSet2::new();
                let mut ev = None;
                {
                    use pc_keyboard::ScancodeSet;
                    if prefix {
                        let _ = set.advance_state(0xE0);
                    }
                    if let Ok(Some(e)) = set.advance_state(code) {
                        ev = Some(e);
                    }
                }
                let Some(ev) = ev else { continue };
                if ev.state != KeyState::Down {
                    continue;
                }
                let mut dec = EventDecoder::new(FiSe105Key, HandleControl::Ignore);
                if let Some(m) = modifier {
                    dec.process_keyevent(down(m));
                }
                if let Some(DecodedKey::Unicode(c)) = dec.process_keyevent(ev) {
                    if (c as u32) < 128 {
                        seen[c as usize] = true;
                    }
                }
            }
        }
    }
    let missing: Vec<char> = (0x20u8..=0x7E).filter(|&b| !seen[b as usize]).map(|b| b as char).collect();
    assert!(missing.is_empty(), "untypeable on FiSe105Key: {:?}", missing);
}
