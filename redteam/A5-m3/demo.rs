// m3 demo: C11 - left and right Shift are interchangeable: what a layout types depends on the
// two shift flags only through "either shift key".
use pc_keyboard::layouts::*;
use pc_keyboard::{HandleControl, KeyCode, KeyboardLayout, Modifiers};

fn check<L: KeyboardLayout>(l: &L, name: &str) {
    let keys = [
        KeyCode::Oem8, KeyCode::Key1, KeyCode::Key2, KeyCode::Key3, KeyCode::Key4, KeyCode::Key5,
        KeyCode::Key6, KeyCode::Key7, KeyCode::Key8, KeyCode::Key9, KeyCode::Key0, KeyCode::OemMinus,
        KeyCode::OemPlus, KeyCode::Oem4, KeyCode::Oem6, KeyCode::Oem5, KeyCode::Oem7, KeyCode::Oem1,
        KeyCode::Oem3, KeyCode::OemComma, KeyCode::OemPeriod, KeyCode::Oem2, KeyCode::A, KeyCode::Q,
    ];
    for bits in 0u16..128 {
        let mk = |l: bool, r: bool| Modifiers {
            lshift: l, rshift: r, lctrl: bits & 1 != 0, rctrl: bits & 2 != 0, numlock: bits & 4 != 0,
            capslock: bits & 8 != 0, lalt: bits & 16 != 0, ralt: bits & 32 != 0, rctrl2: bits & 64 != 0,
        };
        for hc in [HandleControl::Ignore, HandleControl::MapLettersToUnicode] {
            for k in keys.iter() {
                let left = l.map_keycode(*k, &mk(true, false), hc);
                let right = l.map_keycode(*k, &mk(false, true), hc);
                let both = l.map_keycode(*k, &mk(true, true), hc);
                assert_eq!(left, right, "{} {:?} left vs right shift, {:?}", name, k, mk(false, false));
                assert_eq!(left, both, "{} {:?} one vs both shifts, {:?}", name, k, mk(false, false));
            }
        }
    }
}

#[test]
fn shift_keys_are_interchangeable() {
    check(&Us104Key, "us"); check(&Uk105Key, "uk"); check(&De105Key, "de"); check(&No105Key, "no");
    check(&FiSe105Key, "fi"); check(&Jis109Key, "jis"); check(&Dvorak104Key, "dv"); check(&Azerty, "az");
    check(&Colemak, "co"); check(&DVP104Key, "dvp");
    check(&AnyLayout::Us104Key(Us104Key), "any-us");
}
