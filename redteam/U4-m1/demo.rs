//! m1 demo (C09): on Colemak the key at the QWERTY-R position types 'p', so
//! with Ctrl-letter mapping enabled Ctrl+that key must yield U+0010 (^P) -
//! "the layout's letter, not the key's position" - whatever Shift/CapsLock are.
//! Public API only; end-to-end from Scancode Set 2 and by direct layout calls.
use pc_keyboard::{
    layouts::Colemak, DecodedKey, HandleControl, KeyCode, Keyboard, KeyboardLayout, Modifiers,
    ScancodeSet2,
};

#[test]
fn colemak_ctrl_p_end_to_end() {
    let mut kb = Keyboard::new(
        ScancodeSet2::new(),
        Colemak,
        HandleControl::MapLettersToUnicode,
    );
    let mut feed = |bytes: &[u8]| {
        let mut last = None;
        for &b in bytes {
            if let Some(ev) = kb.add_byte(b).unwrap() {
                last = kb.process_keyevent(ev);
            }
        }
        last
    };
    // the key types 'p'
    assert_eq!(feed(&[0x2D]), Some(DecodedKey::Unicode('p')));
    feed(&[0xF0, 0x2D]);
    // LControl down, then the same key
    feed(&[0x14]);
    assert_eq!(
        feed(&[0x2D]),
        Some(DecodedKey::Unicode('\u{0010}')),
        "Colemak: Ctrl + the key that types 'p' must be U+0010"
    );
}

#[test]
fn colemak_ctrl_letter_follows_the_typed_letter_on_every_key() {
    let keys = [
        KeyCode::Q, KeyCode::W, KeyCode::E, KeyCode::R, KeyCode::T, KeyCode::Y, KeyCode::U,
        KeyCode::I, KeyCode::O, KeyCode::P, KeyCode::A, KeyCode::S, KeyCode::D, KeyCode::F,
        KeyCode::G, KeyCode::H, KeyCode::J, KeyCode::K, KeyCode::L, KeyCode::Oem1, KeyCode::Z,
        KeyCode::X, KeyCode::C, KeyCode::V, KeyCode::B, KeyCode::N, KeyCode::M,
    ];
    let plain = Modifiers {
        lshift: false, rshift: false, lctrl: false, rctrl: false, numlock: true,
        capslock: false, lalt: false, ralt: false, rctrl2: false,
    };
    let f = [false, true];
    for key in keys {
        let typed = match Colemak.map_keycode(key, &plain, HandleControl::MapLettersToUnicode) {
            DecodedKey::Unicode(c) if c.is_ascii_lowercase() => c,
            _ => continue, // not a letter key on this layout
        };
        let want = char::from(typed as u8 - 0x60);
        for lshift in f { for capslock in f { for (lctrl, rctrl) in [(true, false), (false, true), (true, true)] {
            let m = Modifiers { lshift, capslock, lctrl, rctrl, ..plain.clone() };
            assert_eq!(
                Colemak.map_keycode(key, &m, HandleControl::MapLettersToUnicode),
                DecodedKey::Unicode(want),
                "key {:?} types {:?}", key, typed
            );
        }}}
    }
}
