//! C08: every word handed to the frame decoder must return normally
//! (Ok or Err) - the word comes straight off a 16-bit capture/shift register
//! and its upper five bits are untrusted wire data.

use pc_keyboard::{layouts, HandleControl, Keyboard, Ps2Decoder, ScancodeSet2};

#[test]
fn every_u16_word_returns_normally_from_ps2decoder() {
    let d = Ps2Decoder::new();
    for word in 0..=u16::MAX {
        // must not panic; the value itself is irrelevant here
        let _ = d.add_word(word);
    }
}

#[test]
fn every_u16_word_returns_normally_from_keyboard() {
    let mut k = Keyboard::new(
        ScancodeSet2::new(),
        layouts::Us104Key,
        HandleControl::MapLettersToUnicode,
    );
    for word in 0..=u16::MAX {
        let _ = k.add_word(word);
    }
}

#[test]
fn frames_inside_the_documented_domain_are_unchanged() {
    // sanity: the 2048 in-domain frames still follow the C05 specification
    let d = Ps2Decoder::new();
    for word in 0u16..2048 {
        let start = word & 1 != 0;
        let stop = word & 0x400 != 0;
        let ones = ((word >> 1) & 0x1FF).count_ones();
        let got = d.add_word(word);
        if start {
            assert_eq!(got, Err(pc_keyboard::Error::BadStartBit));
        } else if !stop {
            assert_eq!(got, Err(pc_keyboard::Error::BadStopBit));
        } else if ones % 2 == 0 {
            assert_eq!(got, Err(pc_keyboard::Error::ParityError));
        } else {
            assert_eq!(got, Ok(((word >> 1) & 0xFF) as u8));
        }
    }
}
