//! m1 demo (C08): a state reachable through the public API in which
//! `ScancodeSet1::advance_state` panics (`unimplemented!()`).
//!
//! Public API only.  "Switch decoders mid-stream": when the crate offers a conversion
//! `ScancodeSet1: From<ScancodeSet2>` it is used (the mutant adds it); a crate without such a
//! conversion can only start a fresh Set 1 decoder, which is what the fallback does.  The choice
//! is made by ordinary method probing, so the same file compiles against both trees.
use core::marker::PhantomData;
use pc_keyboard::{ScancodeSet, ScancodeSet1, ScancodeSet2};

struct Switch<A, B>(Option<A>, PhantomData<B>);
trait ViaFrom<B> {
    fn switch(&mut self) -> B;
}
trait Fresh<B> {
    fn switch(&mut self) -> B;
}
impl<A, B: From<A>> ViaFrom<B> for Switch<A, B> {
    fn switch(&mut self) -> B {
        B::from(self.0.take().unwrap())
    }
}
impl<A, B: Default> Fresh<B> for &mut Switch<A, B> {
    fn switch(&mut self) -> B {
        B::default()
    }
}

#[test]
fn no_operation_panics_in_any_reachable_state() {
    for first in 0..=255u8 {
        for second in 0..=255u8 {
            let mut s2 = ScancodeSet2::new();
            let _ = s2.advance_state(first);
            let mut sw: Switch<ScancodeSet2, ScancodeSet1> = Switch(Some(s2), PhantomData);
            let mut s1: ScancodeSet1 = (&mut sw).switch();
            // must return normally (Ok or Err), never panic
            let _ = s1.advance_state(second);
        }
    }
}
