//! C18 demonstration: `Keyboard` must behave exactly like its three stages
//! used separately - in particular `Keyboard::set_ctrl_handling(m)` must have
//! the effect of `EventDecoder::set_ctrl_handling(m)`.
use pc_keyboard::{
    layouts, DecodedKey, EventDecoder, HandleControl, KeyCode, KeyEvent, KeyState, Keyboard,
    ScancodeSet1, ScancodeSet2,
};

fn script() -> Vec<KeyEvent> {
    vec![
        KeyEvent::new(KeyCode::LControl, KeyState::Down),
        KeyEvent::new(KeyCode::A, KeyState::Down),
        KeyEvent::new(KeyCode::A, KeyState::Up),
        KeyEvent::new(KeyCode::Z, KeyState::Down),
        KeyEvent::new(KeyCode::Z, KeyState::Up),
        KeyEvent::new(KeyCode::LControl, KeyState::Up),
        KeyEvent::new(KeyCode::A, KeyState::Down),
    ]
}

#[test]
fn keyboard_setter_equals_event_decoder_setter() {
    for initial in [HandleControl::MapLettersToUnicode, HandleControl::Ignore] {
        for requested in [HandleControl::MapLettersToUnicode, HandleControl::Ignore] {
            let mut kb = Keyboard::new(ScancodeSet2::new(), layouts::Us104Key, initial);
            let mut ed = EventDecoder::new(layouts::Us104Key, initial);
            kb.set_ctrl_handling(requested);
            ed.set_ctrl_handling(requested);
            assert_eq!(kb.get_ctrl_handling(), requested, "getter after set({requested:?})");
            assert_eq!(kb.get_ctrl_handling(), ed.get_ctrl_handling());
            for ev in script() {
                assert_eq!(
                    kb.process_keyevent(ev.clone()),
                    ed.process_keyevent(ev.clone()),
                    "initial={initial:?} requested={requested:?} event={ev:?}"
                );
            }
        }
    }
}

#[test]
fn ignore_mode_leaves_ctrl_letters_alone() {
    let mut kb = Keyboard::new(
        ScancodeSet1::new(),
        layouts::Uk105Key,
        HandleControl::MapLettersToUnicode,
    );
    kb.set_ctrl_handling(HandleControl::Ignore);
    assert_eq!(
        kb.process_keyevent(KeyEvent::new(KeyCode::RControl, KeyState::Down)),
        Some(DecodedKey::RawKey(KeyCode::RControl))
    );
    assert_eq!(
        kb.process_keyevent(KeyEvent::new(KeyCode::C, KeyState::Down)),
        Some(DecodedKey::Unicode('c'))
    );
}
