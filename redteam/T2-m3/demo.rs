//! m3 demo (C05, and C06/C18 through it): every valid frame round-trips its byte,
//! every single-bit corruption of a valid frame is rejected, and the 2048 frames are
//! classified exactly as start / stop / odd-parity dictates.
use pc_keyboard::{Error, Ps2Decoder};

fn spec(word: u16) -> Result<u8, Error> {
    if word & 1 != 0 {
        return Err(Error::BadStartBit);
    }
    if word & (1 << 10) == 0 {
        return Err(Error::BadStopBit);
    }
    if ((word >> 1) & 0x1FF).count_ones() % 2 == 0 {
        return Err(Error::ParityError);
    }
    Ok((word >> 1) as u8)
}

fn frame_for(byte: u8) -> u16 {
    let parity = (byte.count_ones() % 2 == 0) as u16; // odd parity
    ((byte as u16) << 1) | (parity << 9) | (1 << 10)
}

#[test]
fn all_2048_frames_match_the_specification() {
    let dec = Ps2Decoder::new();
    for word in 0..2048u16 {
        assert_eq!(dec.add_word(word), spec(word), "word {word:#06x}");
    }
}

#[test]
fn every_byte_round_trips_and_single_bit_errors_are_rejected() {
    let dec = Ps2Decoder::new();
    for byte in 0..=255u8 {
        let word = frame_for(byte);
        assert_eq!(dec.add_word(word), Ok(byte), "valid frame of {byte:#04x}");
        for bit in 0..11 {
            assert!(
                dec.add_word(word ^ (1 << bit)).is_err(),
                "bit {bit} flipped in frame of {byte:#04x} was accepted"
            );
        }
    }
}

#[test]
fn bit_serial_escape_key_frame() {
    // 0x76 = Set 2 make code of Escape
    let mut dec = Ps2Decoder::new();
    let word = frame_for(0x76);
    for i in 0..10 {
        assert_eq!(dec.add_bit((word >> i) & 1 != 0), Ok(None));
    }
    assert_eq!(dec.add_bit(true), Ok(Some(0x76)));
}
