//! m2 demo (C18): a `Keyboard` must behave exactly like its three stages used
//! separately - in particular like `EventDecoder::new(layout, mode)` for the mode
//! it was constructed with.
use pc_keyboard::{
    layouts, EventDecoder, HandleControl, KeyCode, KeyEvent, KeyState, Keyboard, ScancodeSet,
    ScancodeSet2,
};

fn run(mode: HandleControl) {
    let mut kb = Keyboard::new(ScancodeSet2::new(), layouts::Us104Key, mode);
    let mut set = ScancodeSet2::new();
    let mut dec = EventDecoder::new(layouts::Us104Key, mode);
    // LCtrl down, A down, A up, LCtrl up (Set 2 bytes)
    for byte in [0x14u8, 0x1C, 0xF0, 0x1C, 0xF0, 0x14] {
        let a = kb.add_byte(byte);
        let b = set.advance_state(byte);
        assert_eq!(a, b);
        if let Ok(Some(ev)) = a {
            assert_eq!(
                kb.process_keyevent(ev.clone()),
                dec.process_keyevent(ev.clone()),
                "event {ev:?} in mode {mode:?}"
            );
        }
    }
    // and directly with key events
    let mut kb = Keyboard::new(ScancodeSet2::new(), layouts::Us104Key, mode);
    let mut dec = EventDecoder::new(layouts::Us104Key, mode);
    for ev in [
        KeyEvent::new(KeyCode::RControl, KeyState::Down),
        KeyEvent::new(KeyCode::C, KeyState::Down),
    ] {
        assert_eq!(kb.process_keyevent(ev.clone()), dec.process_keyevent(ev));
    }
    assert_eq!(kb.get_ctrl_handling(), dec.get_ctrl_handling());
}

#[test]
fn keyboard_equals_stages_map_mode() {
    run(HandleControl::MapLettersToUnicode);
}

#[test]
fn keyboard_equals_stages_ignore_mode() {
    run(HandleControl::Ignore);
}
