//! m1 demo: a Set 1 decoder must report the undefined byte 0x00 (the keyboard's
//! "key detection error / buffer overrun" marker) as UnknownKeyCode and stay usable.
use pc_keyboard::{Error, KeyCode, KeyEvent, KeyState, ScancodeSet, ScancodeSet1};

#[test]
fn set1_null_byte_is_unknown_keycode_in_every_context() {
    // Start context
    let mut s = ScancodeSet1::new();
    assert_eq!(s.advance_state(0x00), Err(Error::UnknownKeyCode));
    // ... and the decoder is back in its initial condition (C07)
    assert_eq!(
        s.advance_state(0x1E),
        Ok(Some(KeyEvent::new(KeyCode::A, KeyState::Down)))
    );
    // E0 context
    let mut s = ScancodeSet1::new();
    assert_eq!(s.advance_state(0xE0), Ok(None));
    assert_eq!(s.advance_state(0x00), Err(Error::UnknownKeyCode));
    assert_eq!(
        s.advance_state(0x9E),
        Ok(Some(KeyEvent::new(KeyCode::A, KeyState::Up)))
    );
    // E1 context
    let mut s = ScancodeSet1::new();
    assert_eq!(s.advance_state(0xE1), Ok(None));
    assert_eq!(s.advance_state(0x00), Err(Error::UnknownKeyCode));
}

#[test]
fn set1_all_768_transitions_return() {
    // every (context, byte) must return a value, never abort
    for prefix in [None, Some(0xE0u8), Some(0xE1u8)] {
        for b in 0u8..=255 {
            let mut s = ScancodeSet1::new();
            if let Some(p) = prefix {
                assert_eq!(s.advance_state(p), Ok(None));
            }
            let _ = s.advance_state(b);
        }
    }
}
