//! m2 demo (C06): shifting a frame in bit by bit must give `Ok(None)` for ten bits and then exactly what
//! whole-word decoding of those 11 bits gives - for every frame, whatever frames preceded it.
use pc_keyboard::Ps2Decoder;

fn frame(byte: u8) -> u16 {
    let parity = (byte.count_ones() % 2 == 0) as u16;
    ((byte as u16) << 1) | (parity << 9) | (1 << 10)
}

#[test]
fn bit_serial_equals_whole_word_for_every_frame_of_a_long_stream() {
    let mut serial = Ps2Decoder::new();
    let whole = Ps2Decoder::new();
    for n in 0..1000u32 {
        // valid frames with every 7th one corrupted (line noise), cycling through all bytes
        let mut word = frame((n % 256) as u8);
        if n % 7 == 3 {
            word ^= 1 << (n % 11);
        }
        for i in 0..10 {
            assert_eq!(serial.add_bit(word & (1 << i) != 0), Ok(None), "frame {n} bit {i}");
        }
        let last = serial.add_bit(word & (1 << 10) != 0);
        let expected = whole.add_word(word).map(Some);
        assert_eq!(last, expected, "frame {n} word {word:#05x}");
    }
}
