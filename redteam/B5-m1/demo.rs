//! C16: keys without a character decode to their own raw key, on every layout,
//! in every modifier state.
use pc_keyboard::layouts::*;
use pc_keyboard::*;

const SILENT: [KeyCode; 12] = [
    KeyCode::PrevTrack,
    KeyCode::NextTrack,
    KeyCode::Mute,
    KeyCode::Calculator,
    KeyCode::Play,
    KeyCode::Stop,
    KeyCode::VolumeDown,
    KeyCode::VolumeUp,
    KeyCode::WWWHome,
    KeyCode::F1,
    KeyCode::Home,
    KeyCode::Apps,
];

fn check<L: KeyboardLayout>(name: &str, layout: L) {
    for bits in 0..512u16 {
        let m = Modifiers {
            lshift: bits & 1 != 0,
            rshift: bits & 2 != 0,
            lctrl: bits & 4 != 0,
            rctrl: bits & 8 != 0,
            numlock: bits & 16 != 0,
            capslock: bits & 32 != 0,
            lalt: bits & 64 != 0,
            ralt: bits & 128 != 0,
            rctrl2: bits & 256 != 0,
        };
        for mode in [HandleControl::Ignore, HandleControl::MapLettersToUnicode] {
            for k in SILENT {
                assert_eq!(
                    layout.map_keycode(k, &m, mode),
                    DecodedKey::RawKey(k),
                    "{name}: {k:?} must decode to itself"
                );
            }
        }
    }
}

#[test]
fn silent_keys_decode_to_themselves() {
    check("Us104Key", Us104Key);
    check("Uk105Key", Uk105Key);
    check("De105Key", De105Key);
    check("No105Key", No105Key);
    check("FiSe105Key", FiSe105Key);
    check("Jis109Key", Jis109Key);
    check("Azerty", Azerty);
    check("Colemak", Colemak);
    check("Dvorak104Key", Dvorak104Key);
    check("DVP104Key", DVP104Key);
    check("AnyLayout::De105Key", AnyLayout::De105Key(De105Key));
    check("&AnyLayout::Uk105Key", &AnyLayout::Uk105Key(Uk105Key));
}

#[test]
fn end_to_end_set2_volume_up() {
    // E0 32 is Volume Up in scancode set 2
    let mut kb = Keyboard::new(ScancodeSet2::new(), Uk105Key, HandleControl::Ignore);
    assert_eq!(kb.add_byte(0xE0), Ok(None));
    let ev = kb.add_byte(0x32).unwrap().unwrap();
    assert_eq!(ev.code, KeyCode::VolumeUp);
    assert_eq!(
        kb.process_keyevent(ev),
        Some(DecodedKey::RawKey(KeyCode::VolumeUp))
    );
}
