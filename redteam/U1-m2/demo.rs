//! m2 demo: every Set 1 break code decodes to the release of the key its make
//! code presses (C02 / C19), in every build configuration.
//!
//! Run in the configuration many kernels use (optimised, but with overflow checks kept on):
//!   CARGO_PROFILE_RELEASE_OVERFLOW_CHECKS=true cargo test --offline --release --test demo
use pc_keyboard::{KeyEvent, KeyState, ScancodeSet, ScancodeSet1};

#[test]
fn set1_every_make_has_its_break() {
    let mut pairs = 0;
    for prefix in [None, Some(0xE0u8), Some(0xE1u8)] {
        for code in 0u8..0x80 {
            let mut s = ScancodeSet1::new();
            if let Some(p) = prefix {
                assert_eq!(s.advance_state(p), Ok(None));
            }
            if let Ok(Some(KeyEvent { code: key, state })) = s.advance_state(code) {
                assert_eq!(state, KeyState::Down);
                if let Some(p) = prefix {
                    assert_eq!(s.advance_state(p), Ok(None));
                }
                assert_eq!(
                    s.advance_state(code | 0x80),
                    Ok(Some(KeyEvent::new(key, KeyState::Up))),
                    "break of {:?} {:02x}",
                    prefix,
                    code
                );
                pairs += 1;
            }
        }
    }
    assert!(pairs > 100);
}
