//! Demonstration for mutant m3 (property C15).
//!
//! C15: "... the numpad operators always type / * - + and numpad Enter types
//! what Return types ... Return ... type[s] U+000A ... on every layout."
//!
//! Public API only.  Run with the toolchain users build with (`cargo test
//! --offline`, stable 1.95 on this machine).

use pc_keyboard::layouts::{
    AnyLayout, Azerty, Colemak, DVP104Key, De105Key, Dvorak104Key, FiSe105Key, Jis109Key,
    No105Key, Uk105Key, Us104Key,
};
use pc_keyboard::{
    DecodedKey, EventDecoder, HandleControl, KeyCode, KeyEvent, KeyState, KeyboardLayout,
};

fn press<L: KeyboardLayout>(dec: &mut EventDecoder<L>, key: KeyCode) -> Option<DecodedKey> {
    let out = dec.process_keyevent(KeyEvent::new(key, KeyState::Down));
    dec.process_keyevent(KeyEvent::new(key, KeyState::Up));
    out
}

fn check<L: KeyboardLayout>(name: &str, layout: L, failures: &mut Vec<String>) {
    let mut dec = EventDecoder::new(layout, HandleControl::Ignore);
    // with NumLock on (initial state) and off
    for round in 0..2 {
        let ret = press(&mut dec, KeyCode::Return);
        let ent = press(&mut dec, KeyCode::NumpadEnter);
        if ret != Some(DecodedKey::Unicode('\n')) {
            failures.push(format!("{name}: Return typed {ret:?}"));
        }
        if ent != ret {
            failures.push(format!(
                "{name} (round {round}): numpad Enter typed {ent:?} but Return typed {ret:?}"
            ));
        }
        for (key, ch) in [
            (KeyCode::NumpadDivide, '/'),
            (KeyCode::NumpadMultiply, '*'),
            (KeyCode::NumpadSubtract, '-'),
            (KeyCode::NumpadAdd, '+'),
        ] {
            let got = press(&mut dec, key);
            if got != Some(DecodedKey::Unicode(ch)) {
                failures.push(format!("{name}: {key:?} typed {got:?}"));
            }
        }
        press(&mut dec, KeyCode::NumpadLock);
    }
}

#[test]
fn numpad_enter_types_what_return_types() {
    let mut failures = Vec::new();
    check("Us104Key", Us104Key, &mut failures);
    check("Uk105Key", Uk105Key, &mut failures);
    check("Jis109Key", Jis109Key, &mut failures);
    check("De105Key", De105Key, &mut failures);
    check("No105Key", No105Key, &mut failures);
    check("FiSe105Key", FiSe105Key, &mut failures);
    check("Dvorak104Key", Dvorak104Key, &mut failures);
    check("DVP104Key", DVP104Key, &mut failures);
    check("Azerty", Azerty, &mut failures);
    check("Colemak", Colemak, &mut failures);
    check("AnyLayout::No105Key", AnyLayout::No105Key(No105Key), &mut failures);
    assert!(failures.is_empty(), "C15 violated:\n{}", failures.join("\n"));
}
