//! C04 / C14 demonstration through the public API, written the way much
//! downstream code is written: glob imports of the crate and of its layouts.
use pc_keyboard::layouts::*;
use pc_keyboard::*;

fn down(k: KeyCode) -> KeyEvent {
    KeyEvent::new(k, KeyState::Down)
}
fn up(k: KeyCode) -> KeyEvent {
    KeyEvent::new(k, KeyState::Up)
}

/// C04: each momentary modifier is reported held iff its last event was a press;
/// CapsLock / NumLock are the parity of their presses, NumLock starting on.
#[test]
fn c04_modifier_state_follows_the_event_history() {
    let mut kb = Keyboard::new(ScancodeSet2::new(), Us104Key, HandleControl::Ignore);
    assert!(kb.get_modifiers().numlock);

    kb.process_keyevent(down(KeyCode::LShift));
    assert!(kb.get_modifiers().lshift, "LShift pressed but not reported held");
    kb.process_keyevent(up(KeyCode::LShift));
    assert!(!kb.get_modifiers().lshift);

    kb.process_keyevent(down(KeyCode::RAltGr));
    assert!(kb.get_modifiers().ralt, "AltGr pressed but not reported held");
    kb.process_keyevent(up(KeyCode::RAltGr));

    kb.process_keyevent(down(KeyCode::CapsLock));
    kb.process_keyevent(up(KeyCode::CapsLock));
    assert!(kb.get_modifiers().capslock, "one CapsLock press must turn CapsLock on");

    kb.process_keyevent(down(KeyCode::NumpadLock));
    kb.process_keyevent(up(KeyCode::NumpadLock));
    assert!(!kb.get_modifiers().numlock, "one NumLock press must turn NumLock off");
}

/// C14: a press is decoded by the layout under the *current* modifier state.
#[test]
fn c14_press_is_decoded_under_the_current_modifiers() {
    let mut dec = EventDecoder::new(Us104Key, HandleControl::MapLettersToUnicode);
    assert_eq!(dec.process_keyevent(down(KeyCode::A)), Some(DecodedKey::Unicode('a')));
    assert_eq!(
        dec.process_keyevent(down(KeyCode::RShift)),
        Some(DecodedKey::RawKey(KeyCode::RShift))
    );
    assert_eq!(dec.process_keyevent(down(KeyCode::A)), Some(DecodedKey::Unicode('A')));
    assert_eq!(dec.process_keyevent(up(KeyCode::RShift)), None);
    assert_eq!(dec.process_keyevent(down(KeyCode::LControl)), Some(DecodedKey::RawKey(KeyCode::LControl)));
    assert_eq!(dec.process_keyevent(down(KeyCode::C)), Some(DecodedKey::Unicode('\u{3}')));
}

/// Pause = hidden RControl2 + NumLock: yields PauseBreak and must not toggle NumLock.
#[test]
fn c04_c14_pause_sequence() {
    let mut kb = Keyboard::new(ScancodeSet1::new(), Uk105Key, HandleControl::Ignore);
    kb.process_keyevent(down(KeyCode::RControl2));
    assert!(kb.get_modifiers().rctrl2);
    assert_eq!(
        kb.process_keyevent(down(KeyCode::NumpadLock)),
        Some(DecodedKey::RawKey(KeyCode::PauseBreak))
    );
    assert!(kb.get_modifiers().numlock);
}
