//! Demonstration for mutant m2 (properties C15 and C11).
//!
//! C15: "On every layout and in every modifier state, the ten numpad digit
//! keys type their digit while NumLock is on ... the numpad decimal key types
//! the layout's decimal separator with NumLock on".
//! C11: what a layout types depends on the modifier state only through Shift,
//! Ctrl, AltGr, CapsLock and (numpad only) NumLock.
//!
//! Public API only; compiles and passes on the unchanged tree.  Pressing the
//! Scroll Lock key is not one of the five facts, and NumLock stays on the
//! whole time (checked through `get_modifiers()`), so the keypad must keep
//! typing digits.

use pc_keyboard::layouts::{
    AnyLayout, De105Key, Dvorak104Key, FiSe105Key, Jis109Key, No105Key, Uk105Key, Us104Key,
};
use pc_keyboard::{
    DecodedKey, HandleControl, KeyCode, KeyEvent, KeyState, Keyboard, KeyboardLayout, ScancodeSet2,
};

const DIGITS: [(KeyCode, char); 10] = [
    (KeyCode::Numpad0, '0'),
    (KeyCode::Numpad1, '1'),
    (KeyCode::Numpad2, '2'),
    (KeyCode::Numpad3, '3'),
    (KeyCode::Numpad4, '4'),
    (KeyCode::Numpad5, '5'),
    (KeyCode::Numpad6, '6'),
    (KeyCode::Numpad7, '7'),
    (KeyCode::Numpad8, '8'),
    (KeyCode::Numpad9, '9'),
];

fn check<L: KeyboardLayout>(name: &str, layout: L, separator: char, failures: &mut Vec<String>) {
    let mut kb = Keyboard::new(ScancodeSet2::new(), layout, HandleControl::Ignore);

    // Scroll Lock arrives from the wire: make 0x7E, break F0 7E.
    for byte in [0x7Eu8, 0xF0, 0x7E] {
        if let Ok(Some(ev)) = kb.add_byte(byte) {
            let decoded = kb.process_keyevent(ev.clone());
            if ev.state == KeyState::Down {
                assert_eq!(decoded, Some(DecodedKey::RawKey(KeyCode::ScrollLock)));
            }
        }
    }

    // The five facts are unchanged: NumLock on, nothing held.
    let m = kb.get_modifiers();
    assert!(m.numlock && !m.is_shifted() && !m.is_ctrl() && !m.is_altgr() && !m.capslock);

    for (key, digit) in DIGITS {
        let got = kb.process_keyevent(KeyEvent::new(key, KeyState::Down));
        kb.process_keyevent(KeyEvent::new(key, KeyState::Up));
        if got != Some(DecodedKey::Unicode(digit)) {
            failures.push(format!(
                "{name}: NumLock on, {key:?} typed {got:?}, expected {digit:?}"
            ));
        }
    }
    let got = kb.process_keyevent(KeyEvent::new(KeyCode::NumpadPeriod, KeyState::Down));
    if got != Some(DecodedKey::Unicode(separator)) {
        failures.push(format!(
            "{name}: NumLock on, NumpadPeriod typed {got:?}, expected {separator:?}"
        ));
    }
}

#[test]
fn keypad_follows_numlock_only() {
    let mut failures = Vec::new();
    check("Us104Key", Us104Key, '.', &mut failures);
    check("Uk105Key", Uk105Key, '.', &mut failures);
    check("Jis109Key", Jis109Key, '.', &mut failures);
    check("Dvorak104Key", Dvorak104Key, '.', &mut failures);
    check("De105Key", De105Key, '.', &mut failures);
    check("No105Key", No105Key, ',', &mut failures);
    check("FiSe105Key", FiSe105Key, ',', &mut failures);
    check("AnyLayout::Uk105Key", AnyLayout::Uk105Key(Uk105Key), '.', &mut failures);
    assert!(failures.is_empty(), "C15/C11 violated:\n{}", failures.join("\n"));
}
