// C14: a non-modifier press yields precisely what the installed layout returns for that key under
// the current modifier state and the CURRENT Ctrl-handling mode.
use pc_keyboard::layouts::{Jis109Key, Us104Key};
use pc_keyboard::{
    DecodedKey, EventDecoder, HandleControl, KeyCode, KeyEvent, KeyState, KeyboardLayout, Modifiers,
};

fn ctrl_a<L: KeyboardLayout>(make: fn() -> L) {
    for mode in [HandleControl::Ignore, HandleControl::MapLettersToUnicode] {
        let mut dec = EventDecoder::new(make(), HandleControl::Ignore);
        dec.set_ctrl_handling(mode);
        dec.process_keyevent(KeyEvent::new(KeyCode::LControl, KeyState::Down));
        let mut mods = Modifiers::default();
        mods.numlock = true;
        mods.lctrl = true;
        let expected: DecodedKey = make().map_keycode(KeyCode::A, &mods, mode);
        let got = dec.process_keyevent(KeyEvent::new(KeyCode::A, KeyState::Down));
        assert_eq!(got, Some(expected), "mode {:?}", mode);
    }
}

#[test]
fn ctrl_a_us() {
    ctrl_a(|| Us104Key);
}

#[test]
fn ctrl_a_jis() {
    ctrl_a(|| Jis109Key);
}
