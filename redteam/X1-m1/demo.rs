//! C01 / C02: "every code the table does not define is reported as
//! UnknownKeyCode rather than as some other key".  The README conversion table
//! (the property's oracle) has no row for Set 2 `E0 10` / Set 1 `E0 65`.
use pc_keyboard::{Error, HandleControl, Keyboard, ScancodeSet, ScancodeSet1, ScancodeSet2};
use pc_keyboard::layouts::Us104Key;

#[test]
fn set2_e0_10_is_not_in_the_table() {
    let mut d = ScancodeSet2::new();
    assert_eq!(d.advance_state(0xE0), Ok(None));
    assert_eq!(d.advance_state(0x10), Err(Error::UnknownKeyCode));
    let mut d = ScancodeSet2::new();
    assert_eq!(d.advance_state(0xE0), Ok(None));
    assert_eq!(d.advance_state(0xF0), Ok(None));
    assert_eq!(d.advance_state(0x10), Err(Error::UnknownKeyCode));
}

#[test]
fn set1_e0_65_is_not_in_the_table() {
    let mut d = ScancodeSet1::new();
    assert_eq!(d.advance_state(0xE0), Ok(None));
    assert_eq!(d.advance_state(0x65), Err(Error::UnknownKeyCode));
    let mut d = ScancodeSet1::new();
    assert_eq!(d.advance_state(0xE0), Ok(None));
    assert_eq!(d.advance_state(0xE5), Err(Error::UnknownKeyCode));
}

#[test]
fn keyboard_level() {
    let mut kb = Keyboard::new(ScancodeSet2::new(), Us104Key, HandleControl::Ignore);
    assert_eq!(kb.add_byte(0xE0), Ok(None));
    assert_eq!(kb.add_byte(0x10), Err(Error::UnknownKeyCode));
}
