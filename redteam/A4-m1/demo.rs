// m1 demo: C03 / C10 end-to-end on the French layout.
// With CapsLock on, the unshifted level of the digit row must still type the
// AZERTY base characters ("whatever the lock ... flags are" - C03; "On every other
// key - digits, punctuation, symbols ... the output is identical with CapsLock on
// and off" - C10).
use pc_keyboard::{layouts, DecodedKey, HandleControl, KeyCode, KeyState, Keyboard, ScancodeSet2};

fn press(kb: &mut Keyboard<layouts::Azerty, ScancodeSet2>, bytes: &[u8]) -> Option<DecodedKey> {
    let mut out = None;
    for b in bytes {
        if let Some(ev) = kb.add_byte(*b).unwrap() {
            out = kb.process_keyevent(ev);
        }
    }
    out
}

#[test]
fn capslock_leaves_the_azerty_digit_row_alone_end_to_end() {
    let mut kb = Keyboard::new(ScancodeSet2::new(), layouts::Azerty, HandleControl::Ignore);
    // Key1 (set 2: 0x16) types '&' unshifted on AZERTY
    assert_eq!(press(&mut kb, &[0x16]), Some(DecodedKey::Unicode('&')));
    press(&mut kb, &[0xF0, 0x16]);
    // CapsLock make + break (0x58)
    assert_eq!(press(&mut kb, &[0x58]), Some(DecodedKey::RawKey(KeyCode::CapsLock)));
    press(&mut kb, &[0xF0, 0x58]);
    assert!(kb.get_modifiers().capslock);
    // still '&' (C03: base level whatever the lock flags are; C10: non-letter key ignores CapsLock)
    assert_eq!(press(&mut kb, &[0x16]), Some(DecodedKey::Unicode('&')));
    press(&mut kb, &[0xF0, 0x16]);
    // Oem5 '<' likewise (set 2: 0x61)
    assert_eq!(press(&mut kb, &[0x61]), Some(DecodedKey::Unicode('<')));
    press(&mut kb, &[0xF0, 0x61]);
    // C10: CapsLock + Shift on a letter gives the small letter. KeyCode::Q types 'a' on AZERTY.
    press(&mut kb, &[0x12]); // LShift down
    assert_eq!(
        kb.process_keyevent(pc_keyboard::KeyEvent::new(KeyCode::Q, KeyState::Down)),
        Some(DecodedKey::Unicode('a'))
    );
}
