//! C05 / C18: Keyboard::add_word accepts exactly the frames Ps2Decoder::add_word accepts,
//! reports the same error otherwise, and a rejected frame never reaches the scancode stage.
use pc_keyboard::{
    layouts::Us104Key, Error, HandleControl, KeyCode, KeyEvent, KeyState, Keyboard, Ps2Decoder,
    ScancodeSet, ScancodeSet2,
};

#[test]
fn keyboard_add_word_equals_stages_in_sequence() {
    let frame_dec = Ps2Decoder::new();
    for first in 0u16..2048 {
        // fresh pair for every frame: Keyboard vs. hand-wired stages
        let mut kb = Keyboard::new(ScancodeSet2::new(), Us104Key, HandleControl::Ignore);
        let mut set = ScancodeSet2::new();
        let got = kb.add_word(first);
        let want = match frame_dec.add_word(first) {
            Ok(b) => set.advance_state(b),
            Err(e) => Err(e),
        };
        assert_eq!(got, want, "frame {first:#05x}");
    }
}

#[test]
fn missing_stop_bit_is_rejected_and_does_not_disturb_prefix_state() {
    let mut kb = Keyboard::new(ScancodeSet2::new(), Us104Key, HandleControl::Ignore);
    // 0xF0 (break prefix), valid frame: data 0xF0 has 4 ones -> parity bit 1
    let f0_ok: u16 = (0xF0 << 1) | (1 << 9) | (1 << 10);
    assert_eq!(kb.add_word(f0_ok), Ok(None));
    // 0x1C ('A') with the stop bit missing: line noise, must be dropped
    let a_no_stop: u16 = (0x1C << 1) | (0 << 9); // 0x1C has 3 ones -> parity 0
    assert_eq!(kb.add_word(a_no_stop), Err(Error::BadStopBit));
    // the pending F0 prefix must still be there
    let a_ok = a_no_stop | (1 << 10);
    assert_eq!(kb.add_word(a_ok), Ok(Some(KeyEvent::new(KeyCode::A, KeyState::Up))));
}
