//! m2 demo (C14): a change of Ctrl handling takes effect on the very next key.

use pc_keyboard::layouts::Us104Key;
use pc_keyboard::{DecodedKey, HandleControl, KeyCode, KeyEvent, KeyState, Keyboard, ScancodeSet2};

fn down(c: KeyCode) -> KeyEvent {
    KeyEvent::new(c, KeyState::Down)
}

#[test]
fn ctrl_mode_change_applies_to_the_very_next_key() {
    let mut k = Keyboard::new(ScancodeSet2::new(), Us104Key, HandleControl::Ignore);
    assert_eq!(
        k.process_keyevent(down(KeyCode::LControl)),
        Some(DecodedKey::RawKey(KeyCode::LControl))
    );
    assert_eq!(k.process_keyevent(down(KeyCode::A)), Some(DecodedKey::Unicode('a')));

    // mode change between two presses, Ctrl still held
    k.set_ctrl_handling(HandleControl::MapLettersToUnicode);
    assert_eq!(
        k.process_keyevent(down(KeyCode::A)),
        Some(DecodedKey::Unicode('\u{0001}')),
        "C14: the layout must be consulted with the mode that is current now"
    );

    // and back
    k.set_ctrl_handling(HandleControl::Ignore);
    assert_eq!(k.process_keyevent(down(KeyCode::A)), Some(DecodedKey::Unicode('a')));
}
