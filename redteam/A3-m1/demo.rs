// C04: each momentary modifier is reported held iff its most recent event was a press;
// no other key changes any modifier.
use pc_keyboard::layouts::{De105Key, Us104Key};
use pc_keyboard::{HandleControl, KeyCode, KeyEvent, KeyState, Keyboard, KeyboardLayout, ScancodeSet2};

fn altgr_history<L: KeyboardLayout>(layout: L) {
    let mut kb = Keyboard::new(ScancodeSet2::new(), layout, HandleControl::Ignore);
    // AltGr pressed: ralt held, lalt untouched
    kb.process_keyevent(KeyEvent::new(KeyCode::RAltGr, KeyState::Down));
    assert!(kb.get_modifiers().ralt, "AltGr's last event was a press: must be reported held");
    assert!(!kb.get_modifiers().lalt, "left Alt was never pressed");
    kb.process_keyevent(KeyEvent::new(KeyCode::RAltGr, KeyState::Up));
    assert!(!kb.get_modifiers().ralt);
    // left Alt held, then AltGr tapped: left Alt's last event is still a press
    kb.process_keyevent(KeyEvent::new(KeyCode::LAlt, KeyState::Down));
    kb.process_keyevent(KeyEvent::new(KeyCode::RAltGr, KeyState::Down));
    kb.process_keyevent(KeyEvent::new(KeyCode::RAltGr, KeyState::Up));
    assert!(kb.get_modifiers().lalt, "left Alt is still held");
    assert!(!kb.get_modifiers().ralt);
}

#[test]
fn altgr_history_de() {
    altgr_history(De105Key);
}

#[test]
fn altgr_history_us() {
    altgr_history(Us104Key);
}
