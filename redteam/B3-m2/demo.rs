// Demonstration for mutant m2 (property C17).
// AnyLayout (by value and by reference) must return exactly what the wrapped
// layout returns for every key, modifier set and Ctrl mode.
use pc_keyboard::layouts::{AnyLayout, Azerty, De105Key, Us104Key};
use pc_keyboard::{DecodedKey, HandleControl, KeyCode, KeyboardLayout, Modifiers};

fn ctrl_held() -> Modifiers {
    Modifiers {
        lshift: false,
        rshift: false,
        lctrl: true,
        rctrl: false,
        numlock: true,
        capslock: false,
        lalt: false,
        ralt: false,
        rctrl2: false,
    }
}

#[test]
fn wrapper_by_value_equals_wrapped_layout_in_map_mode() {
    let m = ctrl_held();
    let direct = Us104Key.map_keycode(KeyCode::A, &m, HandleControl::MapLettersToUnicode);
    assert_eq!(direct, DecodedKey::Unicode('\u{0001}'));
    let wrapped = AnyLayout::Us104Key(Us104Key);
    assert_eq!(
        wrapped.map_keycode(KeyCode::A, &m, HandleControl::MapLettersToUnicode),
        direct
    );
}

#[test]
fn wrapper_by_reference_equals_wrapped_layout_in_map_mode() {
    let m = ctrl_held();
    for (wrapped, direct) in [
        (
            AnyLayout::De105Key(De105Key),
            De105Key.map_keycode(KeyCode::C, &m, HandleControl::MapLettersToUnicode),
        ),
        (
            AnyLayout::Azerty(Azerty),
            Azerty.map_keycode(KeyCode::C, &m, HandleControl::MapLettersToUnicode),
        ),
    ] {
        let by_ref: &AnyLayout = &wrapped;
        assert_eq!(
            by_ref.map_keycode(KeyCode::C, &m, HandleControl::MapLettersToUnicode),
            direct
        );
    }
}

#[test]
fn wrapper_still_agrees_in_ignore_mode() {
    let m = ctrl_held();
    let wrapped = AnyLayout::Us104Key(Us104Key);
    assert_eq!(
        wrapped.map_keycode(KeyCode::A, &m, HandleControl::Ignore),
        Us104Key.map_keycode(KeyCode::A, &m, HandleControl::Ignore)
    );
}
