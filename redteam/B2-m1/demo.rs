//! C18: Keyboard::process_keyevent must behave exactly like the event decoder used on its own.
use pc_keyboard::{
    layouts::Us104Key, EventDecoder, HandleControl, KeyCode, KeyEvent, KeyState, Keyboard,
    ScancodeSet2,
};

#[test]
fn keyboard_process_keyevent_equals_event_decoder() {
    let codes = [
        KeyCode::PowerOnTestOk,
        KeyCode::TooManyKeys,
        KeyCode::A,
        KeyCode::LShift,
        KeyCode::NumpadLock,
        KeyCode::CapsLock,
    ];
    let states = [KeyState::Down, KeyState::Up, KeyState::SingleShot];
    let mut kb = Keyboard::new(ScancodeSet2::new(), Us104Key, HandleControl::Ignore);
    let mut ed = EventDecoder::new(Us104Key, HandleControl::Ignore);
    for round in 0..3 {
        for &c in &codes {
            for &s in &states {
                let a = kb.process_keyevent(KeyEvent::new(c, s));
                let b = ed.process_keyevent(KeyEvent::new(c, s));
                assert_eq!(a, b, "round {round} key {c:?} state {s:?}");
            }
        }
    }
}

#[test]
fn power_on_byte_end_to_end() {
    // 0xAA = BAT completion code, reported SingleShot by Set 2: no decoded key.
    let mut kb = Keyboard::new(ScancodeSet2::new(), Us104Key, HandleControl::Ignore);
    let ev = kb.add_byte(0xAA).unwrap().unwrap();
    assert_eq!(ev, KeyEvent::new(KeyCode::PowerOnTestOk, KeyState::SingleShot));
    assert_eq!(kb.process_keyevent(ev), None);
    // a single-shot CapsLock event must not toggle the lock
    let mut kb = Keyboard::new(ScancodeSet2::new(), Us104Key, HandleControl::Ignore);
    kb.process_keyevent(KeyEvent::new(KeyCode::CapsLock, KeyState::SingleShot));
    assert!(!kb.get_modifiers().capslock);
}
