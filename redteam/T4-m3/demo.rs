//! m3 demo (C03: "each layout types the characters of the layout it is NAMED
//! AFTER"). `pc_keyboard::layouts::Colemak` must type Colemak and
//! `pc_keyboard::layouts::Dvorak104Key` must type Dvorak. Public API only.

use pc_keyboard::layouts::{Colemak, Dvorak104Key};
use pc_keyboard::{
    DecodedKey, HandleControl, KeyCode, Keyboard, KeyboardLayout, Modifiers, ScancodeSet2,
};

fn mods(shift: bool) -> Modifiers {
    Modifiers {
        lshift: shift,
        rshift: false,
        lctrl: false,
        rctrl: false,
        numlock: true,
        capslock: false,
        lalt: false,
        ralt: false,
        rctrl2: false,
    }
}

// (key position, Colemak 2006, ANSI Dvorak) - unshifted level
const ROWS: &[(KeyCode, char, char)] = &[
    (KeyCode::E, 'f', '.'),
    (KeyCode::R, 'p', 'p'),
    (KeyCode::T, 'g', 'y'),
    (KeyCode::Y, 'j', 'f'),
    (KeyCode::S, 'r', 'o'),
    (KeyCode::D, 's', 'e'),
    (KeyCode::F, 't', 'u'),
    (KeyCode::G, 'd', 'i'),
    (KeyCode::J, 'n', 'h'),
    (KeyCode::K, 'e', 't'),
    (KeyCode::L, 'i', 'n'),
    (KeyCode::Oem1, 'o', 's'),
    (KeyCode::Q, 'q', '\''),
];

#[test]
fn colemak_types_colemak_and_dvorak_types_dvorak() {
    for &(key, colemak, dvorak) in ROWS {
        for mode in [HandleControl::Ignore, HandleControl::MapLettersToUnicode] {
            assert_eq!(
                Colemak.map_keycode(key, &mods(false), mode),
                DecodedKey::Unicode(colemak),
                "layouts::Colemak {:?}",
                key
            );
            assert_eq!(
                Dvorak104Key.map_keycode(key, &mods(false), mode),
                DecodedKey::Unicode(dvorak),
                "layouts::Dvorak104Key {:?}",
                key
            );
        }
    }
    // shifted level: Colemak Shift+S position = 'R', Dvorak Shift+Q position = '"'
    assert_eq!(
        Colemak.map_keycode(KeyCode::S, &mods(true), HandleControl::Ignore),
        DecodedKey::Unicode('R')
    );
    assert_eq!(
        Dvorak104Key.map_keycode(KeyCode::Q, &mods(true), HandleControl::Ignore),
        DecodedKey::Unicode('"')
    );
}

/// End to end from Set 2 scancodes: the home-row key right of A (0x1B).
#[test]
fn end_to_end_home_row() {
    let mut kb = Keyboard::new(ScancodeSet2::new(), Colemak, HandleControl::Ignore);
    let ev = kb.add_byte(0x1B).unwrap().unwrap();
    assert_eq!(kb.process_keyevent(ev), Some(DecodedKey::Unicode('r')));

    let mut kb = Keyboard::new(ScancodeSet2::new(), Dvorak104Key, HandleControl::Ignore);
    let ev = kb.add_byte(0x1B).unwrap().unwrap();
    assert_eq!(kb.process_keyevent(ev), Some(DecodedKey::Unicode('o')));
}
