// C08 / C06: no public call sequence may bring the frame decoder into a state
// in which add_bit panics or stops agreeing with whole-word decoding.
use pc_keyboard::Ps2Decoder;

// Fallbacks so that this file also builds against a crate without the
// snapshot/restore pair (inherent methods win over these when they exist):
// "save and immediately resume" is then literally a no-op.
trait NoSnapshot {
    fn snapshot(&self) -> u16 {
        0
    }
    fn restore(&mut self, _snapshot: u16) {}
}
impl NoSnapshot for Ps2Decoder {}

fn frame(byte: u8) -> [bool; 11] {
    let mut bits = [false; 11];
    for i in 0..8 {
        bits[1 + i] = (byte >> i) & 1 == 1;
    }
    bits[9] = byte.count_ones() % 2 == 0;
    bits[10] = true;
    bits
}

#[test]
fn save_and_resume_mid_frame_is_transparent() {
    for byte in [0x1Cu8, 0xF0, 0xE0, 0x00, 0xFF] {
        for cut in 0..=10usize {
            let mut d = Ps2Decoder::new();
            let bits = frame(byte);
            let mut out = None;
            for (i, b) in bits.iter().enumerate() {
                if i == cut {
                    let s = d.snapshot();
                    d.restore(s);
                }
                let r = d.add_bit(*b);
                if i < 10 {
                    assert_eq!(r, Ok(None), "byte {byte:#x} cut {cut} bit {i}");
                } else {
                    out = Some(r);
                }
            }
            assert_eq!(out, Some(Ok(Some(byte))), "byte {byte:#x} cut {cut}");
            // and the following frame is unaffected
            for (i, b) in frame(0x5A).iter().enumerate() {
                let r = d.add_bit(*b);
                assert_eq!(r, if i < 10 { Ok(None) } else { Ok(Some(0x5A)) });
            }
        }
    }
}

#[test]
fn add_bit_never_panics_after_resume() {
    // C08: eight bits in, save + resume, keep feeding bits.
    let mut d = Ps2Decoder::new();
    for _ in 0..8 {
        assert_eq!(d.add_bit(false), Ok(None));
    }
    let s = d.snapshot();
    d.restore(s);
    for _ in 0..600 {
        let _ = d.add_bit(true); // must return normally
    }
}
