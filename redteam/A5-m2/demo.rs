// m2 demo: C15/C16 - with NumLock off the keypad digit keys are reported as their own
// navigation alias (Numpad9 = PageUp, Numpad3 = PageDown, ...), on every layout.
use pc_keyboard::layouts::*;
use pc_keyboard::{DecodedKey, HandleControl, KeyCode, KeyboardLayout, Modifiers};

fn check<L: KeyboardLayout>(l: &L, name: &str) {
    let keys = [
        (KeyCode::Numpad0, KeyCode::Insert), (KeyCode::Numpad1, KeyCode::End),
        (KeyCode::Numpad2, KeyCode::ArrowDown), (KeyCode::Numpad3, KeyCode::PageDown),
        (KeyCode::Numpad4, KeyCode::ArrowLeft), (KeyCode::Numpad6, KeyCode::ArrowRight),
        (KeyCode::Numpad7, KeyCode::Home), (KeyCode::Numpad8, KeyCode::ArrowUp),
        (KeyCode::Numpad9, KeyCode::PageUp),
    ];
    for bits in 0u16..512 {
        let m = Modifiers {
            lshift: bits & 1 != 0, rshift: bits & 2 != 0, lctrl: bits & 4 != 0,
            rctrl: bits & 8 != 0, numlock: false, capslock: bits & 32 != 0,
            lalt: bits & 64 != 0, ralt: bits & 128 != 0, rctrl2: bits & 256 != 0,
        };
        for hc in [HandleControl::Ignore, HandleControl::MapLettersToUnicode] {
            for (k, a) in keys.iter() {
                assert_eq!(l.map_keycode(*k, &m, hc), DecodedKey::RawKey(*a), "{} {:?} {:?}", name, k, m);
            }
        }
    }
}

#[test]
fn keypad_navigation_aliases() {
    check(&Us104Key, "us"); check(&Uk105Key, "uk"); check(&De105Key, "de"); check(&No105Key, "no");
    check(&FiSe105Key, "fi"); check(&Jis109Key, "jis"); check(&Dvorak104Key, "dv"); check(&Azerty, "az");
    check(&Colemak, "co"); check(&DVP104Key, "dvp");
    check(&AnyLayout::De105Key(De105Key), "any-de");
}
