// C14: a press must yield what the installed layout returns under the CURRENT Ctrl-handling mode.
// The mode handed to the constructor is the current mode until set_ctrl_handling is called.
use pc_keyboard::layouts::Us104Key;
use pc_keyboard::{
    DecodedKey, EventDecoder, HandleControl, KeyCode, KeyEvent, KeyState, Keyboard, KeyboardLayout,
    ScancodeSet2,
};

#[test]
fn constructor_mode_is_the_current_mode_event_decoder() {
    for mode in [HandleControl::Ignore, HandleControl::MapLettersToUnicode] {
        let mut dec = EventDecoder::new(Us104Key, mode);
        assert_eq!(
            dec.process_keyevent(KeyEvent::new(KeyCode::LControl, KeyState::Down)),
            Some(DecodedKey::RawKey(KeyCode::LControl))
        );
        let mut mods = pc_keyboard::Modifiers::default();
        mods.numlock = true;
        mods.lctrl = true;
        let expected = Us104Key.map_keycode(KeyCode::A, &mods, mode);
        let got = dec.process_keyevent(KeyEvent::new(KeyCode::A, KeyState::Down));
        assert_eq!(got, Some(expected), "mode {:?}", mode);
    }
}

#[test]
fn constructor_mode_is_the_current_mode_keyboard() {
    let mut kb = Keyboard::new(ScancodeSet2::new(), Us104Key, HandleControl::Ignore);
    kb.process_keyevent(KeyEvent::new(KeyCode::LControl, KeyState::Down));
    let expected = Us104Key.map_keycode(KeyCode::A, kb.get_modifiers(), HandleControl::Ignore);
    assert_eq!(expected, DecodedKey::Unicode('a'));
    let got = kb.process_keyevent(KeyEvent::new(KeyCode::A, KeyState::Down));
    assert_eq!(got, Some(expected));
    assert_eq!(kb.get_ctrl_handling(), HandleControl::Ignore);
}
