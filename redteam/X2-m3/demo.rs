// m3 demo (C08): every public operation must return normally when called from a context with
// a small stack (the crate is meant to be called from interrupt handlers on microcontrollers).
// The frame decoder's whole job is a handful of shifts and a popcount; 48 KiB of stack is far
// more than any interrupt stack it will meet in the field.  With the mutant the call needs a
// 60 000 byte frame, the guard page is hit and the test process dies with
// "thread ... has overflowed its stack" (SIGSEGV/abort), so `cargo test` fails.
use pc_keyboard::{layouts, HandleControl, KeyCode, KeyEvent, KeyState, Keyboard, Ps2Decoder, ScancodeSet2};

fn frame(byte: u8) -> u16 {
    let parity = (byte.count_ones() % 2 == 0) as u16;
    ((byte as u16) << 1) | (parity << 9) | (1 << 10)
}

#[test]
fn add_word_runs_on_a_48k_stack() {
    let t = std::thread::Builder::new()
        .stack_size(48 * 1024)
        .spawn(|| {
            let d = Ps2Decoder::new();
            let mut ok = 0u32;
            for b in 0..=255u8 {
                if d.add_word(frame(b)) == Ok(b) {
                    ok += 1;
                }
            }
            let mut kb = Keyboard::new(
                ScancodeSet2::new(),
                layouts::Us104Key,
                HandleControl::MapLettersToUnicode,
            );
            let ev = kb.add_word(frame(0x1C));
            (ok, ev)
        })
        .unwrap();
    let (ok, ev) = t.join().expect("decoder thread died");
    assert_eq!(ok, 256);
    assert_eq!(ev, Ok(Some(KeyEvent::new(KeyCode::A, KeyState::Down))));
}
