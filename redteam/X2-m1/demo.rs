// m1 demo (C18, and C06 at Keyboard level): the combined Keyboard must behave exactly like a
// Ps2Decoder + ScancodeSet2 wired in sequence, for every bit stream - in particular a frame
// rejected for a stop-bit error must not leak into the next frame.
use pc_keyboard::{
    layouts, HandleControl, KeyCode, KeyEvent, KeyState, Keyboard, Ps2Decoder, ScancodeSet,
    ScancodeSet2,
};

fn frame(byte: u8) -> u16 {
    let parity = (byte.count_ones() % 2 == 0) as u16;
    ((byte as u16) << 1) | (parity << 9) | (1 << 10)
}

fn bits(word: u16) -> impl Iterator<Item = bool> {
    (0..11).map(move |i| (word >> i) & 1 == 1)
}

/// The reference wiring: three separate stages, as C18 describes it.
struct Separate {
    ps2: Ps2Decoder,
    set: ScancodeSet2,
}

impl Separate {
    fn add_bit(&mut self, bit: bool) -> Result<Option<KeyEvent>, pc_keyboard::Error> {
        match self.ps2.add_bit(bit)? {
            Some(byte) => self.set.advance_state(byte),
            None => Ok(None),
        }
    }
}

#[test]
fn keyboard_equals_separate_stages_after_a_stop_bit_error() {
    let mut kb = Keyboard::new(
        ScancodeSet2::new(),
        layouts::Us104Key,
        HandleControl::MapLettersToUnicode,
    );
    let mut sep = Separate {
        ps2: Ps2Decoder::new(),
        set: ScancodeSet2::new(),
    };

    // frame 1: 0x1C ('A' make) with the stop bit knocked out by line noise
    let bad = frame(0x1C) & !(1 << 10);
    // frame 2: a clean 0x1C
    let good = frame(0x1C);

    let mut last = None;
    for (n, bit) in bits(bad).chain(bits(good)).enumerate() {
        let a = kb.add_bit(bit);
        let b = sep.add_bit(bit);
        assert_eq!(a, b, "Keyboard and separate stages disagree at bit {}", n);
        last = Some(a);
    }
    assert_eq!(
        last.unwrap(),
        Ok(Some(KeyEvent::new(KeyCode::A, KeyState::Down)))
    );
}

#[test]
fn every_frame_after_every_stop_bit_error() {
    // all 256 bytes as the corrupted frame x a fixed following frame
    for byte in 0..=255u8 {
        let mut kb = Keyboard::new(
            ScancodeSet2::new(),
            layouts::Us104Key,
            HandleControl::MapLettersToUnicode,
        );
        let bad = frame(byte) & !(1 << 10);
        let mut res = Ok(None);
        for bit in bits(bad) {
            res = kb.add_bit(bit);
        }
        assert_eq!(res, Err(pc_keyboard::Error::BadStopBit));
        let mut res = Ok(None);
        for (n, bit) in bits(frame(0x29)).enumerate() {
            res = kb.add_bit(bit);
            if n < 10 {
                assert_eq!(res, Ok(None), "byte {:#x} bit {}", byte, n);
            }
        }
        assert_eq!(
            res,
            Ok(Some(KeyEvent::new(KeyCode::Spacebar, KeyState::Down))),
            "frame after a rejected frame (byte {:#x})",
            byte
        );
    }
}
