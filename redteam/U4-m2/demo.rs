//! m2 demo: German layout, CapsLock engaged, AltGr+Q must still type '@'
//! (and AltGr+E '€'): the AltGr level is selected by AltGr without Shift,
//! "whatever the lock ... flags are" (C03).  Public API only, end-to-end from
//! Scancode Set 2 bytes.
use pc_keyboard::{
    layouts::De105Key, DecodedKey, HandleControl, KeyCode, KeyState, Keyboard, KeyEvent,
    KeyboardLayout, Modifiers, ScancodeSet2,
};

fn feed(kb: &mut Keyboard<De105Key, ScancodeSet2>, bytes: &[u8]) -> Option<DecodedKey> {
    let mut last = None;
    for &b in bytes {
        if let Some(ev) = kb.add_byte(b).unwrap() {
            last = kb.process_keyevent(ev);
        }
    }
    last
}

#[test]
fn capslock_does_not_disable_altgr_q_end_to_end() {
    for mode in [HandleControl::Ignore, HandleControl::MapLettersToUnicode] {
        let mut kb = Keyboard::new(ScancodeSet2::new(), De105Key, mode);
        // sanity: AltGr+Q without CapsLock
        feed(&mut kb, &[0xE0, 0x11]); // RAltGr down
        assert_eq!(feed(&mut kb, &[0x15]), Some(DecodedKey::Unicode('@')));
        feed(&mut kb, &[0xF0, 0x15, 0xE0, 0xF0, 0x11]); // Q up, RAltGr up
        // CapsLock press + release -> lock engaged
        feed(&mut kb, &[0x58, 0xF0, 0x58]);
        assert!(kb.get_modifiers().capslock);
        // plain Q is now capital
        assert_eq!(feed(&mut kb, &[0x15]), Some(DecodedKey::Unicode('Q')));
        feed(&mut kb, &[0xF0, 0x15]);
        // AltGr+Q must still be '@'
        feed(&mut kb, &[0xE0, 0x11]);
        assert_eq!(
            feed(&mut kb, &[0x15]),
            Some(DecodedKey::Unicode('@')),
            "CapsLock on: AltGr+Q on the German layout must type '@'"
        );
        feed(&mut kb, &[0xF0, 0x15]);
        // AltGr+E must still be the euro sign
        assert_eq!(feed(&mut kb, &[0x24]), Some(DecodedKey::Unicode('€')));
    }
}

#[test]
fn altgr_level_is_independent_of_capslock_for_every_other_flag() {
    // Direct layout calls: every modifier state with AltGr selected
    // (ralt, or lalt+ctrl), no Shift, CapsLock ON, Ctrl not being mapped.
    let flags = [false, true];
    for lctrl in flags { for rctrl in flags { for lalt in flags { for ralt in flags {
    for numlock in flags { for rctrl2 in flags {
        let m = Modifiers {
            lshift: false, rshift: false, lctrl, rctrl, numlock, capslock: true,
            lalt, ralt, rctrl2,
        };
        if !m.is_altgr() { continue; }
        let out = De105Key.map_keycode(KeyCode::Q, &m, HandleControl::Ignore);
        assert_eq!(out, DecodedKey::Unicode('@'), "{:?}", m);
        let out = De105Key.map_keycode(KeyCode::E, &m, HandleControl::Ignore);
        assert_eq!(out, DecodedKey::Unicode('€'), "{:?}", m);
        // and the other AltGr keys of the layout agree that CapsLock is irrelevant
        let out = De105Key.map_keycode(KeyCode::Key7, &m, HandleControl::Ignore);
        assert_eq!(out, DecodedKey::Unicode('{'), "{:?}", m);
    }}}}}}
    let _ = (KeyState::Down, KeyEvent::new(KeyCode::Q, KeyState::Down));
}
