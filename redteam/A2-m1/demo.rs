// C20 (and C08): every modifier predicate can be evaluated in a const / static
// initialiser, for every Modifiers value, and returns normally at run time.
use pc_keyboard::Modifiers;

const BOTH_ALTS: Modifiers = Modifiers {
    lshift: false,
    rshift: false,
    lctrl: false,
    rctrl: false,
    numlock: true,
    capslock: false,
    lalt: true,
    ralt: true,
    rctrl2: false,
};

// Const-context evaluation: with the mutant this item does not compile (E0080).
const BOTH_ALTS_IS_ALT: bool = BOTH_ALTS.is_alt();
static BOTH_ALTS_IS_ALT_STATIC: bool = BOTH_ALTS.is_alt();

#[test]
fn is_alt_const_evaluable_for_every_modifier_set() {
    assert!(BOTH_ALTS_IS_ALT);
    assert!(BOTH_ALTS_IS_ALT_STATIC);
}

#[test]
fn is_alt_total_at_runtime() {
    // all 512 modifier sets; must equal lalt | ralt and never panic
    for bits in 0u16..512 {
        let b = |i: u16| (bits >> i) & 1 == 1;
        let m = Modifiers {
            lshift: b(0),
            rshift: b(1),
            lctrl: b(2),
            rctrl: b(3),
            numlock: b(4),
            capslock: b(5),
            lalt: b(6),
            ralt: b(7),
            rctrl2: b(8),
        };
        let m = core::hint::black_box(m);
        assert_eq!(m.is_alt(), b(6) | b(7), "bits={bits:#b}");
    }
}
