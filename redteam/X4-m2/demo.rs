//! m2 demo (C03): the AltGr level of Nordic E (euro sign) and M (micro sign)
//! must hold "in every modifier state that selects that level ... whatever the
//! lock, left-Alt and hidden flags are".
//!
//! A state selects the AltGr level when AltGr is in effect (RAlt, or LAlt with
//! a Ctrl key - `Modifiers::is_altgr`), Shift is up and CapsLock is off.  The
//! only exemption C03 makes is "Ctrl being mapped": with Ctrl-letter mapping
//! enabled the key may yield its control character instead.  If the key yields
//! anything that is not that control character, Ctrl is not being mapped and
//! the AltGr character is due.
use pc_keyboard::layouts::{AnyLayout, FiSe105Key, No105Key};
use pc_keyboard::{
    DecodedKey, HandleControl, KeyCode, Keyboard, KeyboardLayout, Modifiers, ScancodeSet1,
};

fn mods(bits: u16) -> Modifiers {
    Modifiers {
        lshift: bits & 1 != 0,
        rshift: bits & 2 != 0,
        lctrl: bits & 4 != 0,
        rctrl: bits & 8 != 0,
        numlock: bits & 16 != 0,
        capslock: bits & 32 != 0,
        lalt: bits & 64 != 0,
        ralt: bits & 128 != 0,
        rctrl2: bits & 256 != 0,
    }
}

fn check(layout: &dyn KeyboardLayout, key: KeyCode, ctrl: char, altgr: char) {
    for mode in [HandleControl::Ignore, HandleControl::MapLettersToUnicode] {
        for bits in 0..512u16 {
            let m = mods(bits);
            if !m.is_altgr() || m.is_shifted() || m.capslock {
                continue;
            }
            let got = layout.map_keycode(key, &m, mode);
            if mode == HandleControl::MapLettersToUnicode
                && m.is_ctrl()
                && got == DecodedKey::Unicode(ctrl)
            {
                continue; // Ctrl is being mapped
            }
            assert_eq!(
                got,
                DecodedKey::Unicode(altgr),
                "{:?} AltGr level (mode {:?}, {:?})",
                key,
                mode,
                m
            );
        }
    }
}

#[test]
fn nordic_altgr_level_whatever_ctrl_and_mode() {
    check(&No105Key, KeyCode::E, '\u{5}', '€');
    check(&No105Key, KeyCode::M, '\u{d}', 'µ');
    check(&FiSe105Key, KeyCode::E, '\u{5}', '€');
    check(&FiSe105Key, KeyCode::M, '\u{d}', 'µ');
    check(&AnyLayout::FiSe105Key(FiSe105Key), KeyCode::E, '\u{5}', '€');
}

#[test]
fn finnish_altgr_e_with_right_ctrl_end_to_end_set1() {
    // Set 1: RCtrl (E0 1D) and AltGr (E0 38) held, then E (12).  The same
    // chord types the euro sign with mapping disabled.
    for mode in [HandleControl::Ignore, HandleControl::MapLettersToUnicode] {
        let mut kb = Keyboard::new(ScancodeSet1::new(), FiSe105Key, mode);
        let mut last = None;
        for byte in [0xE0u8, 0x1D, 0xE0, 0x38, 0x12] {
            if let Some(ev) = kb.add_byte(byte).unwrap() {
                last = kb.process_keyevent(ev);
            }
        }
        assert!(
            last == Some(DecodedKey::Unicode('€'))
                || (mode == HandleControl::MapLettersToUnicode
                    && last == Some(DecodedKey::Unicode('\u{5}'))),
            "RCtrl+AltGr+E on the Finnish layout typed {:?} in mode {:?}",
            last,
            mode
        );
    }
}
