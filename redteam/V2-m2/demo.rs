//! C18: `Keyboard` fed bit by bit must behave exactly like a separate
//! `Ps2Decoder` whose accepted bytes are handed to a separate scancode decoder.

use pc_keyboard::{
    layouts, Error, HandleControl, KeyEvent, Keyboard, Ps2Decoder, ScancodeSet, ScancodeSet2,
};

/// The three-stage reference: separate frame decoder + separate scancode decoder.
struct Separate {
    ps2: Ps2Decoder,
    set: ScancodeSet2,
}

impl Separate {
    fn new() -> Self {
        Separate {
            ps2: Ps2Decoder::new(),
            set: ScancodeSet2::new(),
        }
    }
    fn add_bit(&mut self, bit: bool) -> Result<Option<KeyEvent>, Error> {
        match self.ps2.add_bit(bit)? {
            Some(byte) => self.set.advance_state(byte),
            None => Ok(None),
        }
    }
    fn clear(&mut self) {
        self.ps2.clear();
    }
}

fn frame(byte: u8) -> [bool; 11] {
    let mut bits = [false; 11];
    for i in 0..8 {
        bits[1 + i] = (byte >> i) & 1 != 0;
    }
    bits[9] = byte.count_ones() % 2 == 0; // odd parity
    bits[10] = true;
    bits
}

fn keyboard() -> Keyboard<layouts::Us104Key, ScancodeSet2> {
    Keyboard::new(
        ScancodeSet2::new(),
        layouts::Us104Key,
        HandleControl::MapLettersToUnicode,
    )
}

#[test]
fn one_stray_bit_then_a_frame() {
    // a single 1 followed by the valid frame for 0x1C ('A' make code)
    let mut stream = vec![true];
    stream.extend_from_slice(&frame(0x1C));

    let mut kb = keyboard();
    let mut sep = Separate::new();
    for (i, bit) in stream.iter().enumerate() {
        assert_eq!(kb.add_bit(*bit), sep.add_bit(*bit), "bit #{i} of the stream");
    }
}

#[test]
fn all_short_bit_streams_agree() {
    // every bit stream of length 13 (8192 streams), compared step by step,
    // followed by clear() and one valid frame
    for pattern in 0u32..(1 << 13) {
        let mut kb = keyboard();
        let mut sep = Separate::new();
        for i in 0..13 {
            let bit = (pattern >> i) & 1 != 0;
            assert_eq!(
                kb.add_bit(bit),
                sep.add_bit(bit),
                "stream {pattern:#015b}, bit #{i}"
            );
        }
        kb.clear();
        sep.clear();
        for bit in frame(0x76) {
            assert_eq!(kb.add_bit(bit), sep.add_bit(bit));
        }
    }
}
