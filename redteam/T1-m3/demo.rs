//! Demo for mutant m3 (C07, and the C01 transition table): after an error the Set 2 decoder
//! must be back in its initial condition, so an unknown code costs at most its own sequence.
use pc_keyboard::{Error, KeyCode, KeyEvent, KeyState, ScancodeSet, ScancodeSet2};

#[test]
fn set2_resynchronises_after_unknown_break_code() {
    let mut s = ScancodeSet2::new();
    assert_eq!(s.advance_state(0xF0), Ok(None));
    // 0x02 is not a Set 2 code
    assert_eq!(s.advance_state(0x02), Err(Error::UnknownKeyCode));
    // the next byte starts a new sequence: plain make code of 'A'
    assert_eq!(
        s.advance_state(0x1C),
        Ok(Some(KeyEvent::new(KeyCode::A, KeyState::Down)))
    );
}

#[test]
fn set2_every_event_or_error_returns_to_the_initial_state() {
    // C07: whenever the decoder reports an event or an error it is back in its initial
    // condition - the following byte decodes exactly as on a fresh decoder.
    for a in 0..=255u8 {
        for b in 0..=255u8 {
            for c in [0x1Cu8, 0x12, 0x5A, 0x76, 0xF0, 0xE0] {
                let mut t = ScancodeSet2::new();
                let _ = t.advance_state(a);
                if matches!(t.advance_state(b), Ok(None)) {
                    continue; // `b` did not complete a sequence
                }
                assert_eq!(
                    t.advance_state(c),
                    ScancodeSet2::new().advance_state(c),
                    "history {:#04x} {:#04x}, then {:#04x}",
                    a,
                    b,
                    c
                );
            }
        }
    }
}
