// Demonstration for extra x1 (property C04, also observable through C14).
//
// C04: "each momentary modifier (... the hidden Pause-Ctrl) is reported held iff its
// most recent event was a press ... NumLock ... presses made while the hidden
// Pause-Ctrl is held (the Pause key) not counting. No other key ... changes any modifier."
use pc_keyboard::{
    layouts, DecodedKey, HandleControl, KeyCode, KeyEvent, KeyState, Keyboard, ScancodeSet2,
};

fn kb() -> Keyboard<layouts::Us104Key, ScancodeSet2> {
    Keyboard::new(ScancodeSet2::new(), layouts::Us104Key, HandleControl::Ignore)
}

#[test]
fn hidden_ctrl_stays_held_until_its_own_release() {
    let mut k = kb();
    assert_eq!(
        k.process_keyevent(KeyEvent::new(KeyCode::RControl2, KeyState::Down)),
        Some(DecodedKey::RawKey(KeyCode::RControl2))
    );
    assert!(k.get_modifiers().rctrl2);
    // the NumLock half of Pause: a key other than RControl2, must not change rctrl2
    assert_eq!(
        k.process_keyevent(KeyEvent::new(KeyCode::NumpadLock, KeyState::Down)),
        Some(DecodedKey::RawKey(KeyCode::PauseBreak))
    );
    assert!(
        k.get_modifiers().rctrl2,
        "last RControl2 event was a press, so it must still be reported held"
    );
    assert!(k.get_modifiers().numlock);
}

#[test]
fn repeated_pause_never_toggles_numlock() {
    let mut k = kb();
    k.process_keyevent(KeyEvent::new(KeyCode::RControl2, KeyState::Down));
    for _ in 0..2 {
        // typematic repeat / second NumLock make while the hidden Ctrl is still down
        assert_eq!(
            k.process_keyevent(KeyEvent::new(KeyCode::NumpadLock, KeyState::Down)),
            Some(DecodedKey::RawKey(KeyCode::PauseBreak))
        );
        assert_eq!(
            k.process_keyevent(KeyEvent::new(KeyCode::NumpadLock, KeyState::Up)),
            None
        );
    }
    assert!(k.get_modifiers().numlock, "presses made while Pause-Ctrl is held do not count");
    // numpad still types digits
    assert_eq!(
        k.process_keyevent(KeyEvent::new(KeyCode::Numpad1, KeyState::Down)),
        Some(DecodedKey::Unicode('1'))
    );
}
