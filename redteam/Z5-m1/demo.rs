// C15: with NumLock off the keypad digit keys must act as the navigation keys.
use pc_keyboard::layouts::{AnyLayout, De105Key, Uk105Key, Us104Key};
use pc_keyboard::{
    DecodedKey, EventDecoder, HandleControl, KeyCode, KeyEvent, KeyState, KeyboardLayout, Modifiers,
};

const PAIRS: [(KeyCode, KeyCode, char); 8] = [
    (KeyCode::Numpad7, KeyCode::Home, '7'),
    (KeyCode::Numpad8, KeyCode::ArrowUp, '8'),
    (KeyCode::Numpad9, KeyCode::PageUp, '9'),
    (KeyCode::Numpad4, KeyCode::ArrowLeft, '4'),
    (KeyCode::Numpad6, KeyCode::ArrowRight, '6'),
    (KeyCode::Numpad1, KeyCode::End, '1'),
    (KeyCode::Numpad2, KeyCode::ArrowDown, '2'),
    (KeyCode::Numpad3, KeyCode::PageDown, '3'),
];

fn mods(numlock: bool) -> Modifiers {
    Modifiers {
        lshift: false,
        rshift: false,
        lctrl: false,
        rctrl: false,
        numlock,
        capslock: false,
        lalt: false,
        ralt: false,
        rctrl2: false,
    }
}

#[test]
fn numpad_follows_numlock_direct() {
    for (key, nav, digit) in PAIRS {
        for mode in [HandleControl::Ignore, HandleControl::MapLettersToUnicode] {
            assert_eq!(Us104Key.map_keycode(key, &mods(true), mode), DecodedKey::Unicode(digit));
            assert_eq!(Us104Key.map_keycode(key, &mods(false), mode), DecodedKey::RawKey(nav));
            assert_eq!(De105Key.map_keycode(key, &mods(false), mode), DecodedKey::RawKey(nav));
            assert_eq!(
                AnyLayout::Uk105Key(Uk105Key).map_keycode(key, &mods(false), mode),
                DecodedKey::RawKey(nav)
            );
        }
    }
}

#[test]
fn numpad_follows_numlock_through_decoder() {
    let mut dec = EventDecoder::new(Us104Key, HandleControl::Ignore);
    // NumLock is on after power-up; switch it off.
    dec.process_keyevent(KeyEvent::new(KeyCode::NumpadLock, KeyState::Down));
    dec.process_keyevent(KeyEvent::new(KeyCode::NumpadLock, KeyState::Up));
    for (key, nav, _) in PAIRS {
        assert_eq!(
            dec.process_keyevent(KeyEvent::new(key, KeyState::Down)),
            Some(DecodedKey::RawKey(nav))
        );
    }
}
