//! m1 demo: C14 - every key press yields exactly one decoded key; a modifier
//! press yields that raw key itself.  Public API only.
use pc_keyboard::{
    layouts, DecodedKey, HandleControl, KeyCode, KeyEvent, KeyState, Keyboard, ScancodeSet2,
};

#[test]
fn every_modifier_press_yields_its_raw_key() {
    let mods = [
        KeyCode::LShift,
        KeyCode::RShift,
        KeyCode::LControl,
        KeyCode::RControl,
        KeyCode::LAlt,
        KeyCode::RAltGr,
        KeyCode::RControl2,
        KeyCode::CapsLock,
    ];
    for mode in [HandleControl::Ignore, HandleControl::MapLettersToUnicode] {
        for k in mods {
            let mut kb = Keyboard::new(ScancodeSet2::new(), layouts::De105Key, mode);
            let got = kb.process_keyevent(KeyEvent::new(k, KeyState::Down));
            assert_eq!(got, Some(DecodedKey::RawKey(k)), "press of {:?}", k);
            let got = kb.process_keyevent(KeyEvent::new(k, KeyState::Up));
            assert_eq!(got, None, "release of {:?}", k);
        }
    }
}

#[test]
fn altgr_press_end_to_end_from_scancodes() {
    // Set 2: E0 11 = AltGr make
    let mut kb = Keyboard::new(
        ScancodeSet2::new(),
        layouts::De105Key,
        HandleControl::Ignore,
    );
    assert_eq!(kb.add_byte(0xE0), Ok(None));
    let ev = kb.add_byte(0x11).unwrap().unwrap();
    assert_eq!(ev, KeyEvent::new(KeyCode::RAltGr, KeyState::Down));
    assert_eq!(
        kb.process_keyevent(ev),
        Some(DecodedKey::RawKey(KeyCode::RAltGr))
    );
    assert!(kb.get_modifiers().ralt);
}
