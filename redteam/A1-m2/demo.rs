// C01 / C19 / C13: codes the E1 page does not define are UnknownKeyCode, make and break alike.
use pc_keyboard::{Error, KeyCode, KeyEvent, KeyState, ScancodeSet, ScancodeSet1, ScancodeSet2};

fn run<S: ScancodeSet>(mut s: S, bytes: &[u8]) -> Vec<Result<Option<KeyEvent>, Error>> {
    bytes.iter().map(|b| s.advance_state(*b)).collect()
}

#[test]
fn set2_e1_break_of_undefined_code_is_unknown() {
    // E0 75 is ArrowUp; neither E1 75 nor E1 F0 75 is defined by the table.
    let make = run(ScancodeSet2::new(), &[0xE1, 0x75]);
    assert_eq!(make[1], Err(Error::UnknownKeyCode));
    let brk = run(ScancodeSet2::new(), &[0xE1, 0xF0, 0x75]);
    assert_eq!(brk[2], Err(Error::UnknownKeyCode));
}

#[test]
fn set2_release_only_of_keys_that_can_be_pressed_and_sequences_one_to_one() {
    for code in 0u8..=255 {
        let make = run(ScancodeSet2::new(), &[0xE1, code]);
        let brk = run(ScancodeSet2::new(), &[0xE1, 0xF0, code]);
        if code == 0xF0 {
            continue;
        }
        match (&make[1], &brk[2]) {
            (Ok(Some(d)), Ok(Some(u))) => {
                assert_eq!(d.state, KeyState::Down);
                assert_eq!(u.state, KeyState::Up);
                assert_eq!(d.code, u.code);
            }
            (Err(_), Err(_)) => {}
            other => panic!("E1 {:02x}: make/break disagree: {:?}", code, other),
        }
    }
    let _ = KeyCode::ArrowUp;
}

#[test]
fn set2_and_translated_set1_agree() {
    // i8042: E1 F0 75  ->  E1 C8
    let a = run(ScancodeSet2::new(), &[0xE1, 0xF0, 0x75]);
    let b = run(ScancodeSet1::new(), &[0xE1, 0xC8]);
    assert_eq!(a[2], b[1]);
}
