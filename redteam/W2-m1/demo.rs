//! C05 / C18 demonstration: whole-word frame decoding must not depend on the
//! bit-serial shift register.  A valid 11-bit frame (start=0, stop=1, odd
//! parity) must be accepted and yield its data byte, whatever was shifted in
//! through `add_bit` before.
use pc_keyboard::{layouts, Error, HandleControl, KeyCode, KeyEvent, KeyState, Keyboard, Ps2Decoder, ScancodeSet2};

fn frame(byte: u8) -> u16 {
    let parity = (byte.count_ones() % 2 == 0) as u16;
    ((byte as u16) << 1) | (parity << 9) | (1 << 10)
}

#[test]
fn every_valid_frame_is_accepted_in_every_partial_state() {
    for bits in 0..=10usize {
        for fill in [false, true] {
            let mut d = Ps2Decoder::new();
            for _ in 0..bits {
                assert_eq!(d.add_bit(fill), Ok(None));
            }
            for byte in 0..=255u8 {
                assert_eq!(
                    d.add_word(frame(byte)),
                    Ok(byte),
                    "valid frame for {byte:#04x} rejected after {bits} stray bit(s)"
                );
            }
        }
    }
}

#[test]
fn rejected_frames_report_the_right_error_in_every_partial_state() {
    let mut d = Ps2Decoder::new();
    assert_eq!(d.add_bit(false), Ok(None));
    // stop bit missing, start bit fine -> BadStopBit, not BadStartBit
    assert_eq!(d.add_word(frame(0x1C) & !(1 << 10)), Err(Error::BadStopBit));
    // parity flipped -> ParityError
    assert_eq!(d.add_word(frame(0x1C) ^ (1 << 9)), Err(Error::ParityError));
}

#[test]
fn keyboard_add_word_after_line_noise_bit() {
    let mut k = Keyboard::new(ScancodeSet2::new(), layouts::Us104Key, HandleControl::Ignore);
    // one glitch bit arrives through the bit-serial path ...
    assert_eq!(k.add_bit(false), Ok(None));
    // ... then the driver hands over a complete, valid frame for F9 (0x01)
    assert_eq!(k.add_word(0x0402), Ok(Some(KeyEvent::new(KeyCode::F9, KeyState::Down))));
}
