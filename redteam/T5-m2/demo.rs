//! Demonstration for mutant m2 - property C12.
//!
//! On every shipped layout each of the 95 printable ASCII characters must be
//! produced by at least one key at its unshifted, shifted or AltGr level.
//!
//! Public API only.  Copy to tests/demo.rs and run `cargo test --offline --test demo`
//! (a plain build, i.e. without RUSTC_WORKSPACE_WRAPPER in the environment).

use pc_keyboard::layouts::*;
use pc_keyboard::{
    DecodedKey, HandleControl, KeyCode, KeyEvent, KeyState, Keyboard, KeyboardLayout, Modifiers,
    ScancodeSet2,
};

use KeyCode::*;
const KEYS: [KeyCode; 124] = [
    Escape, F1, F2, F3, F4, F5, F6, F7, F8, F9, F10, F11, F12, PrintScreen, SysRq, ScrollLock,
    PauseBreak, Oem8, Key1, Key2, Key3, Key4, Key5, Key6, Key7, Key8, Key9, Key0, OemMinus,
    OemPlus, Backspace, Insert, Home, PageUp, NumpadLock, NumpadDivide, NumpadMultiply,
    NumpadSubtract, Tab, Q, W, E, R, T, Y, U, I, O, P, Oem4, Oem6, Oem5, Oem7, Delete, End,
    PageDown, Numpad7, Numpad8, Numpad9, NumpadAdd, CapsLock, A, S, D, F, G, H, J, K, L, Oem1,
    Oem3, Return, Numpad4, Numpad5, Numpad6, LShift, Z, X, C, V, B, N, M, OemComma, OemPeriod,
    Oem2, RShift, ArrowUp, Numpad1, Numpad2, Numpad3, NumpadEnter, LControl, LWin, LAlt, Spacebar,
    RAltGr, RWin, Apps, RControl, ArrowLeft, ArrowDown, ArrowRight, Numpad0, NumpadPeriod, Oem9,
    Oem10, Oem11, Oem12, Oem13, PrevTrack, NextTrack, Mute, Calculator, Play, Stop, VolumeDown,
    VolumeUp, WWWHome, PowerOnTestOk, TooManyKeys, RControl2, RAlt2,
];

fn level(shift: bool, altgr: bool) -> Modifiers {
    Modifiers {
        lshift: shift,
        rshift: false,
        lctrl: false,
        rctrl: false,
        numlock: true,
        capslock: false,
        lalt: false,
        ralt: altgr,
        rctrl2: false,
    }
}

fn missing(layout: &dyn KeyboardLayout) -> String {
    let mut typed = [false; 128];
    for mode in [HandleControl::Ignore, HandleControl::MapLettersToUnicode] {
        for m in [level(false, false), level(true, false), level(false, true)] {
            for &key in KEYS.iter() {
                if let DecodedKey::Unicode(c) = layout.map_keycode(key, &m, mode) {
                    if (c as u32) < 128 {
                        typed[c as usize] = true;
                    }
                }
            }
        }
    }
    (0x20u8..=0x7E).filter(|&c| !typed[c as usize]).map(|c| c as char).collect()
}

#[test]
fn c12_every_printable_ascii_character_can_be_typed() {
    let layouts: [(&str, &dyn KeyboardLayout); 10] = [
        ("Us104Key", &Us104Key),
        ("Uk105Key", &Uk105Key),
        ("Jis109Key", &Jis109Key),
        ("Azerty", &Azerty),
        ("Colemak", &Colemak),
        ("De105Key", &De105Key),
        ("No105Key", &No105Key),
        ("FiSe105Key", &FiSe105Key),
        ("Dvorak104Key", &Dvorak104Key),
        ("DVP104Key", &DVP104Key),
    ];
    let mut bad = Vec::new();
    for (name, layout) in layouts {
        let m = missing(layout);
        if !m.is_empty() {
            bad.push(format!("{name}: cannot type {m:?}"));
        }
    }
    assert!(bad.is_empty(), "C12 violated:\n{}", bad.join("\n"));
}

/// End to end on a Norwegian keyboard: AltGr+2 is the only way to type '@'.
#[test]
fn c12_norwegian_at_sign() {
    let mut kb = Keyboard::new(ScancodeSet2::new(), No105Key, HandleControl::Ignore);
    kb.process_keyevent(KeyEvent::new(RAltGr, KeyState::Down));
    let got = kb.process_keyevent(KeyEvent::new(Key2, KeyState::Down));
    assert_eq!(got, Some(DecodedKey::Unicode('@')));
}
