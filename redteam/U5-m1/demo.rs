//! C15: "in every modifier state ... the numpad decimal key types the
//! layout's decimal separator with NumLock on and the Delete character with
//! it off."  A layout has ONE decimal separator, so with NumLock on the key
//! must type the same character whatever else is held.
use pc_keyboard::layouts::{AnyLayout, De105Key};
use pc_keyboard::{
    DecodedKey, EventDecoder, HandleControl, KeyCode, KeyEvent, KeyState, KeyboardLayout,
    Modifiers,
};

fn mods(bits: u16) -> Modifiers {
    Modifiers {
        lshift: bits & 1 != 0,
        rshift: bits & 2 != 0,
        lctrl: bits & 4 != 0,
        rctrl: bits & 8 != 0,
        numlock: bits & 16 != 0,
        capslock: bits & 32 != 0,
        lalt: bits & 64 != 0,
        ralt: bits & 128 != 0,
        rctrl2: bits & 256 != 0,
    }
}

fn separator_is_one_character(layout: &dyn KeyboardLayout) {
    let plain = Modifiers {
        numlock: true,
        ..mods(0)
    };
    let separator = layout.map_keycode(KeyCode::NumpadPeriod, &plain, HandleControl::Ignore);
    assert!(
        separator == DecodedKey::Unicode('.') || separator == DecodedKey::Unicode(','),
        "decimal separator is {separator:?}"
    );
    for bits in 0..512u16 {
        let m = mods(bits);
        for hc in [HandleControl::Ignore, HandleControl::MapLettersToUnicode] {
            let got = layout.map_keycode(KeyCode::NumpadPeriod, &m, hc);
            if m.numlock {
                assert_eq!(
                    got, separator,
                    "NumLock on: the decimal key must type the layout's separator; modifiers {m:?}"
                );
            } else {
                assert_eq!(got, DecodedKey::Unicode('\u{7f}'), "NumLock off; modifiers {m:?}");
            }
        }
    }
}

#[test]
fn de105_numpad_decimal_key_types_one_separator() {
    separator_is_one_character(&De105Key);
    separator_is_one_character(&AnyLayout::De105Key(De105Key));
}

#[test]
fn de105_numpad_decimal_key_through_event_decoder() {
    let mut plain = EventDecoder::new(De105Key, HandleControl::Ignore);
    let unshifted = plain.process_keyevent(KeyEvent::new(KeyCode::NumpadPeriod, KeyState::Down));

    let mut shifted = EventDecoder::new(De105Key, HandleControl::Ignore);
    shifted.process_keyevent(KeyEvent::new(KeyCode::RShift, KeyState::Down));
    let with_shift = shifted.process_keyevent(KeyEvent::new(KeyCode::NumpadPeriod, KeyState::Down));

    assert_eq!(unshifted, with_shift, "holding Shift changed the decimal separator");
}
