// C16: a key without a character decodes to its OWN raw key code, on every layout.
use pc_keyboard::layouts::{AnyLayout, Colemak};
use pc_keyboard::{
    DecodedKey, HandleControl, KeyCode, KeyEvent, KeyState, Keyboard, KeyboardLayout, Modifiers,
    ScancodeSet2,
};

fn mods() -> Modifiers {
    Modifiers {
        lshift: false,
        rshift: false,
        lctrl: false,
        rctrl: false,
        numlock: true,
        capslock: false,
        lalt: false,
        ralt: false,
        rctrl2: false,
    }
}

#[test]
fn hidden_keys_report_themselves_direct() {
    for mode in [HandleControl::Ignore, HandleControl::MapLettersToUnicode] {
        for key in [KeyCode::RAlt2, KeyCode::RControl2, KeyCode::F1, KeyCode::RAltGr] {
            assert_eq!(Colemak.map_keycode(key, &mods(), mode), DecodedKey::RawKey(key));
            assert_eq!(
                AnyLayout::Colemak(Colemak).map_keycode(key, &mods(), mode),
                DecodedKey::RawKey(key)
            );
        }
    }
}

#[test]
fn print_screen_prefix_reports_itself_end_to_end() {
    // Set 2: E0 12 is the 'hidden' RAlt2 half of Print Screen.
    let mut kb = Keyboard::new(ScancodeSet2::new(), Colemak, HandleControl::Ignore);
    assert_eq!(kb.add_byte(0xE0), Ok(None));
    let ev = kb.add_byte(0x12).unwrap().unwrap();
    assert_eq!(ev, KeyEvent::new(KeyCode::RAlt2, KeyState::Down));
    assert_eq!(kb.process_keyevent(ev), Some(DecodedKey::RawKey(KeyCode::RAlt2)));
}
