//! Demonstration for mutant m1 (property C04, also the Pause clause of C14).
//!
//! Public API only.  Run with the ordinary `cargo test --offline --test demo`.
//! C04: "each momentary modifier (... the hidden Pause-Ctrl) is reported held
//! iff its most recent event was a press"; "presses made while the hidden
//! Pause-Ctrl is held (the Pause key) [do] not count[]" for NumLock; "No other
//! key ... changes any modifier."

use pc_keyboard::layouts::Us104Key;
use pc_keyboard::{
    DecodedKey, EventDecoder, HandleControl, KeyCode, KeyEvent, KeyState, Keyboard, ScancodeSet1,
    ScancodeSet2,
};

fn down(code: KeyCode) -> KeyEvent {
    KeyEvent::new(code, KeyState::Down)
}

fn up(code: KeyCode) -> KeyEvent {
    KeyEvent::new(code, KeyState::Up)
}

/// The hidden Pause-Ctrl was pressed and never released: it must still be
/// reported as held after the NumLock press that completes "Pause".
#[test]
fn hidden_ctrl_stays_held_until_it_is_released() {
    let mut k = Keyboard::new(ScancodeSet2::new(), Us104Key, HandleControl::Ignore);
    assert_eq!(
        k.process_keyevent(down(KeyCode::RControl2)),
        Some(DecodedKey::RawKey(KeyCode::RControl2))
    );
    assert!(k.get_modifiers().rctrl2);
    assert_eq!(
        k.process_keyevent(down(KeyCode::NumpadLock)),
        Some(DecodedKey::RawKey(KeyCode::PauseBreak))
    );
    // NumpadLock is "another key" as far as rctrl2 is concerned.
    assert!(
        k.get_modifiers().rctrl2,
        "rctrl2 was cleared by a NumpadLock press; its most recent event is a press"
    );
    assert!(k.get_modifiers().numlock, "Pause must not toggle NumLock");
    assert_eq!(k.process_keyevent(up(KeyCode::NumpadLock)), None);
    assert!(k.get_modifiers().rctrl2);
    assert_eq!(k.process_keyevent(up(KeyCode::RControl2)), None);
    assert!(!k.get_modifiers().rctrl2);
}

/// A second NumLock make code while the hidden Ctrl is still down (a held
/// Pause key on keyboards/adapters that repeat it, or simply a bouncing
/// contact) is still Pause and still does not count as a NumLock press.
#[test]
fn numlock_presses_under_hidden_ctrl_never_count() {
    let mut d = EventDecoder::new(Us104Key, HandleControl::MapLettersToUnicode);
    let mut k = Keyboard::new(ScancodeSet1::new(), Us104Key, HandleControl::Ignore);
    assert_eq!(
        d.process_keyevent(down(KeyCode::RControl2)),
        Some(DecodedKey::RawKey(KeyCode::RControl2))
    );
    k.process_keyevent(down(KeyCode::RControl2));
    for round in 0..4 {
        assert_eq!(
            d.process_keyevent(down(KeyCode::NumpadLock)),
            Some(DecodedKey::RawKey(KeyCode::PauseBreak)),
            "round {round}: NumLock under the hidden Ctrl must decode as Pause"
        );
        assert_eq!(
            k.process_keyevent(down(KeyCode::NumpadLock)),
            Some(DecodedKey::RawKey(KeyCode::PauseBreak)),
            "round {round}"
        );
        assert!(k.get_modifiers().numlock, "round {round}: NumLock toggled by Pause");
        assert!(k.get_modifiers().rctrl2, "round {round}: hidden Ctrl lost");
    }
    // numlock is still on, so Numpad1 types '1' (observable through EventDecoder too).
    assert_eq!(d.process_keyevent(up(KeyCode::NumpadLock)), None);
    assert_eq!(d.process_keyevent(up(KeyCode::RControl2)), None);
    assert_eq!(
        d.process_keyevent(down(KeyCode::Numpad1)),
        Some(DecodedKey::Unicode('1'))
    );
}

/// End to end from Set 1 bytes: Pause make sequence sent twice without the
/// break sequence in between.
#[test]
fn pause_from_scancodes_twice() {
    let mut k = Keyboard::new(ScancodeSet1::new(), Us104Key, HandleControl::Ignore);
    let mut decoded = Vec::new();
    for byte in [0xE1u8, 0x1D, 0x45, 0x45] {
        if let Some(ev) = k.add_byte(byte).unwrap() {
            decoded.push(k.process_keyevent(ev));
        }
    }
    assert_eq!(
        decoded,
        vec![
            Some(DecodedKey::RawKey(KeyCode::RControl2)),
            Some(DecodedKey::RawKey(KeyCode::PauseBreak)),
            Some(DecodedKey::RawKey(KeyCode::PauseBreak)),
        ]
    );
    assert!(k.get_modifiers().numlock);
    assert!(k.get_modifiers().rctrl2);
}
