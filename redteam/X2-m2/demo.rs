// m2 demo (C18): key events fed to the combined Keyboard must be handled exactly as by an
// EventDecoder used separately; the Ctrl-handling mode is changed by set_ctrl_handling only.
use pc_keyboard::{
    layouts, DecodedKey, EventDecoder, HandleControl, KeyCode, KeyEvent, KeyState, Keyboard,
    ScancodeSet2,
};

fn run(mode: HandleControl) {
    let mut kb = Keyboard::new(ScancodeSet2::new(), layouts::Us104Key, mode);
    let mut ev = EventDecoder::new(layouts::Us104Key, mode);

    let seq = [
        (KeyCode::LAlt, KeyState::Down),
        (KeyCode::Tab, KeyState::Down),
        (KeyCode::Tab, KeyState::Up),
        (KeyCode::LAlt, KeyState::Up),
        (KeyCode::LControl, KeyState::Down),
        (KeyCode::A, KeyState::Down),
        (KeyCode::A, KeyState::Up),
        (KeyCode::LControl, KeyState::Up),
    ];
    for (n, (code, state)) in seq.iter().enumerate() {
        let a = kb.process_keyevent(KeyEvent::new(*code, state.clone()));
        let b = ev.process_keyevent(KeyEvent::new(*code, state.clone()));
        assert_eq!(a, b, "step {}: Keyboard and EventDecoder disagree", n);
        assert_eq!(
            kb.get_ctrl_handling(),
            ev.get_ctrl_handling(),
            "step {}: Ctrl mode differs",
            n
        );
        assert_eq!(kb.get_ctrl_handling(), mode, "step {}: Ctrl mode changed", n);
    }
}

#[test]
fn keyboard_equals_event_decoder_mode_ignore() {
    run(HandleControl::Ignore);
}

#[test]
fn keyboard_equals_event_decoder_mode_map() {
    run(HandleControl::MapLettersToUnicode);
}

#[test]
fn ctrl_a_stays_a_letter_in_ignore_mode_after_alt_tab() {
    let mut kb = Keyboard::new(
        ScancodeSet2::new(),
        layouts::Us104Key,
        HandleControl::Ignore,
    );
    kb.process_keyevent(KeyEvent::new(KeyCode::LAlt, KeyState::Down));
    kb.process_keyevent(KeyEvent::new(KeyCode::LAlt, KeyState::Up));
    kb.process_keyevent(KeyEvent::new(KeyCode::LControl, KeyState::Down));
    assert_eq!(
        kb.process_keyevent(KeyEvent::new(KeyCode::A, KeyState::Down)),
        Some(DecodedKey::Unicode('a'))
    );
}
