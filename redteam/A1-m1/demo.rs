// C19 / C01: distinct complete Set 2 sequences denote distinct keys.
use pc_keyboard::{KeyCode, KeyState, ScancodeSet, ScancodeSet2};
use std::collections::BTreeSet;

fn feed(bytes: &[u8]) -> Vec<pc_keyboard::KeyEvent> {
    let mut s = ScancodeSet2::new();
    let mut out = Vec::new();
    for b in bytes {
        if let Ok(Some(ev)) = s.advance_state(*b) {
            out.push(ev);
        }
    }
    out
}

#[test]
fn distinct_sequences_are_distinct_keys_for_ordered_collections() {
    // E0 14 = right control, E1 14 = the Pause sequence's control key.
    let evs = feed(&[0xE0, 0x14, 0xE1, 0x14]);
    assert_eq!(evs.len(), 2);
    assert_eq!(evs[0].state, KeyState::Down);
    assert_eq!(evs[1].state, KeyState::Down);
    // a pressed-key set as every consumer keeps one
    let mut held: BTreeSet<KeyCode> = BTreeSet::new();
    for e in &evs {
        held.insert(e.code);
    }
    assert_eq!(held.len(), 2, "two different sequences must be two different keys");
    assert_ne!(evs[0].code.cmp(&evs[1].code), core::cmp::Ordering::Equal);
    // releasing one must not release the other
    for e in feed(&[0xE1, 0xF0, 0x14]) {
        held.remove(&e.code);
    }
    assert!(held.contains(&KeyCode::RControl));
}
