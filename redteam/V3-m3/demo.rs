//! m3 demo (C14): a change of Ctrl handling takes effect on the very next key -
//! whatever scancode set the Keyboard was built with.

use pc_keyboard::layouts::Us104Key;
use pc_keyboard::{
    DecodedKey, HandleControl, KeyCode, KeyEvent, KeyState, Keyboard, KeyboardLayout, ScancodeSet,
    ScancodeSet1, ScancodeSet2,
};

fn down(c: KeyCode) -> KeyEvent {
    KeyEvent::new(c, KeyState::Down)
}

fn ctrl_a<L: KeyboardLayout, S: ScancodeSet>(k: &mut Keyboard<L, S>) -> Option<DecodedKey> {
    k.process_keyevent(down(KeyCode::LControl));
    let r = k.process_keyevent(down(KeyCode::A));
    k.process_keyevent(KeyEvent::new(KeyCode::LControl, KeyState::Up));
    r
}

#[test]
fn set2_keyboard_mode_change() {
    let mut k = Keyboard::new(ScancodeSet2::new(), Us104Key, HandleControl::Ignore);
    assert_eq!(ctrl_a(&mut k), Some(DecodedKey::Unicode('a')));
    k.set_ctrl_handling(HandleControl::MapLettersToUnicode);
    assert_eq!(ctrl_a(&mut k), Some(DecodedKey::Unicode('\u{0001}')));
}

#[test]
fn set1_keyboard_mode_change() {
    let mut k = Keyboard::new(ScancodeSet1::new(), Us104Key, HandleControl::Ignore);
    assert_eq!(ctrl_a(&mut k), Some(DecodedKey::Unicode('a')));
    k.set_ctrl_handling(HandleControl::MapLettersToUnicode);
    assert_eq!(
        ctrl_a(&mut k),
        Some(DecodedKey::Unicode('\u{0001}')),
        "C14: the mode set just now must be the one the layout is consulted with"
    );
}
