//! Demo for mutant m1: a decoder obtained through `Default` must decode exactly like a
//! fresh one (C01 / C02: "for every stream of bytes ... each well-formed key sequence is
//! reported as exactly the key the table assigns"; C13: same key through both sets).
use pc_keyboard::{
    layouts, HandleControl, KeyCode, KeyEvent, KeyState, Keyboard, ScancodeSet, ScancodeSet1,
    ScancodeSet2,
};

#[test]
fn set2_default_decoder_decodes_plain_codes() {
    // 0x70 unprefixed is Numpad0 in Set 2 (E0 70 would be Insert).
    let mut s = ScancodeSet2::default();
    assert_eq!(
        s.advance_state(0x70),
        Ok(Some(KeyEvent::new(KeyCode::Numpad0, KeyState::Down)))
    );
    // 0x1C unprefixed is A (E0 1C is undefined).
    let mut s = ScancodeSet2::default();
    assert_eq!(
        s.advance_state(0x1C),
        Ok(Some(KeyEvent::new(KeyCode::A, KeyState::Down)))
    );
    // 0x14 unprefixed is LControl (E0 14 is RControl).
    let mut s = ScancodeSet2::default();
    assert_eq!(
        s.advance_state(0x14),
        Ok(Some(KeyEvent::new(KeyCode::LControl, KeyState::Down)))
    );
}

#[test]
fn set1_default_decoder_decodes_plain_codes() {
    // 0x1C unprefixed is Return in Set 1 (E0 1C is NumpadEnter).
    let mut s = ScancodeSet1::default();
    assert_eq!(
        s.advance_state(0x1C),
        Ok(Some(KeyEvent::new(KeyCode::Return, KeyState::Down)))
    );
    // 0x9D = break of 0x1D = LControl (E0 9D is RControl).
    let mut s = ScancodeSet1::default();
    assert_eq!(
        s.advance_state(0x9D),
        Ok(Some(KeyEvent::new(KeyCode::LControl, KeyState::Up)))
    );
}

#[test]
fn default_and_new_decoders_agree_on_every_first_byte() {
    for b in 0..=255u8 {
        assert_eq!(
            ScancodeSet2::default().advance_state(b),
            ScancodeSet2::new().advance_state(b),
            "set2 byte {:#04x}",
            b
        );
        assert_eq!(
            ScancodeSet1::default().advance_state(b),
            ScancodeSet1::new().advance_state(b),
            "set1 byte {:#04x}",
            b
        );
    }
}

#[test]
fn keyboard_built_from_default_decoder_types_the_right_key() {
    let mut kb = Keyboard::new(
        ScancodeSet2::default(),
        layouts::Us104Key,
        HandleControl::Ignore,
    );
    // Set 2 make code of the 'A' key.
    let ev = kb.add_byte(0x1C).expect("A is a defined code");
    assert_eq!(ev, Some(KeyEvent::new(KeyCode::A, KeyState::Down)));
}
