// Demonstration for mutant m3 (property C17).
//
// C17: "For each of the ten layouts, the runtime-selectable wrapper holding that layout -
// used by value or by reference - returns exactly what the wrapped layout returns for
// every key, modifier set and Ctrl mode."
use pc_keyboard::layouts::*;
use pc_keyboard::{
    DecodedKey, EventDecoder, HandleControl, KeyCode, KeyEvent, KeyState, KeyboardLayout,
    Modifiers,
};

fn mods(bits: u16) -> Modifiers {
    Modifiers {
        lshift: bits & 1 != 0,
        rshift: bits & 2 != 0,
        lctrl: bits & 4 != 0,
        rctrl: bits & 8 != 0,
        numlock: bits & 16 != 0,
        capslock: bits & 32 != 0,
        lalt: bits & 64 != 0,
        ralt: bits & 128 != 0,
        rctrl2: bits & 256 != 0,
    }
}

const KEYS: [KeyCode; 8] = [
    KeyCode::A,
    KeyCode::Key2,
    KeyCode::Oem7,
    KeyCode::Delete,
    KeyCode::NumpadPeriod,
    KeyCode::Numpad1,
    KeyCode::Backspace,
    KeyCode::Insert,
];

fn same<L: KeyboardLayout>(wrapper: AnyLayout, plain: L) {
    for bits in 0..512u16 {
        let m = mods(bits);
        for key in KEYS {
            for mode in [HandleControl::Ignore, HandleControl::MapLettersToUnicode] {
                let want = plain.map_keycode(key, &m, mode);
                assert_eq!(wrapper.map_keycode(key, &m, mode), want, "by value {:?} {:?}", key, m);
                assert_eq!((&wrapper).map_keycode(key, &m, mode), want, "by ref {:?} {:?}", key, m);
            }
        }
    }
}

#[test]
fn every_wrapper_equals_its_layout() {
    same(AnyLayout::DVP104Key(DVP104Key), DVP104Key);
    same(AnyLayout::Dvorak104Key(Dvorak104Key), Dvorak104Key);
    same(AnyLayout::Us104Key(Us104Key), Us104Key);
    same(AnyLayout::Uk105Key(Uk105Key), Uk105Key);
    same(AnyLayout::Jis109Key(Jis109Key), Jis109Key);
    same(AnyLayout::Azerty(Azerty), Azerty);
    same(AnyLayout::Colemak(Colemak), Colemak);
    same(AnyLayout::De105Key(De105Key), De105Key);
    same(AnyLayout::No105Key(No105Key), No105Key);
    same(AnyLayout::FiSe105Key(FiSe105Key), FiSe105Key);
}

#[test]
fn delete_key_through_a_wrapped_decoder() {
    let mut plain = EventDecoder::new(Us104Key, HandleControl::Ignore);
    let mut wrapped = EventDecoder::new(AnyLayout::Us104Key(Us104Key), HandleControl::Ignore);
    let ev = KeyEvent::new(KeyCode::Delete, KeyState::Down);
    assert_eq!(plain.process_keyevent(ev.clone()), Some(DecodedKey::Unicode('\u{7f}')));
    assert_eq!(wrapped.process_keyevent(ev), Some(DecodedKey::Unicode('\u{7f}')));
}
