//! m3 demo: after an unknown E0-prefixed code the Set 2 decoder must be back in its
//! initial condition (C07), so the next unprefixed byte is decoded as a plain key (C01).
//!
//! The crate's own manifest now switches debug assertions off for in-tree builds, but a
//! downstream crate builds its dependencies with ITS OWN profile (cargo ignores profile
//! sections of dependencies), i.e. an ordinary `cargo build` has debug assertions on.
//! Reproduce the downstream dev build in-tree with:
//!   CARGO_PROFILE_DEV_DEBUG_ASSERTIONS=true cargo test --offline --test demo
use pc_keyboard::{Error, KeyCode, KeyEvent, KeyState, ScancodeSet, ScancodeSet2};

#[test]
fn set2_resynchronises_after_unknown_extended_code() {
    let mut s = ScancodeSet2::new();
    assert_eq!(s.advance_state(0xE0), Ok(None));
    assert_eq!(s.advance_state(0x02), Err(Error::UnknownKeyCode));
    // 0x75 unprefixed is keypad 8; E0 75 would be the Up arrow.
    assert_eq!(
        s.advance_state(0x75),
        Ok(Some(KeyEvent::new(KeyCode::Numpad8, KeyState::Down)))
    );
}

#[test]
fn set2_error_never_outlives_its_sequence() {
    for bad in 0u8..=255 {
        let mut s = ScancodeSet2::new();
        assert_eq!(s.advance_state(0xE0), Ok(None));
        if s.advance_state(bad) == Err(Error::UnknownKeyCode) {
            assert_eq!(
                s.advance_state(0x1C),
                Ok(Some(KeyEvent::new(KeyCode::A, KeyState::Down))),
                "after E0 {:02x}",
                bad
            );
        }
    }
}
