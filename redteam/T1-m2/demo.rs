//! Demo for mutant m2: in Scancode Set 1, 0xAA is the break code of LShift (0x2A | 0x80).
//! C02: every well-formed sequence is reported as exactly the key the Set 1 table assigns,
//!      press or release; C19: K can go down iff its break form reports Up(K);
//! C13: Set 2 `F0 12` and its i8042 translation `AA` decode to the same event.
use pc_keyboard::{
    layouts, DecodedKey, EventDecoder, HandleControl, KeyCode, KeyEvent, KeyState, ScancodeSet,
    ScancodeSet1, ScancodeSet2,
};

#[test]
fn set1_lshift_break_is_reported() {
    let mut s = ScancodeSet1::new();
    assert_eq!(
        s.advance_state(0x2A),
        Ok(Some(KeyEvent::new(KeyCode::LShift, KeyState::Down)))
    );
    assert_eq!(
        s.advance_state(0xAA),
        Ok(Some(KeyEvent::new(KeyCode::LShift, KeyState::Up)))
    );
}

#[test]
fn set1_make_break_pairing_for_every_plain_code() {
    // C19: (ctx, c) gives Down(K)  <=>  (ctx, c | 0x80) gives Up(K)
    for c in 0u8..0x80 {
        if c == 0x60 || c == 0x61 {
            continue; // 0xE0 / 0xE1 are the prefix bytes, not break codes
        }
        let make = ScancodeSet1::new().advance_state(c);
        let brk = ScancodeSet1::new().advance_state(c | 0x80);
        match (make, brk) {
            (Ok(Some(m)), Ok(Some(b))) => {
                assert_eq!(m.state, KeyState::Down, "code {:#04x}", c);
                assert_eq!(b.state, KeyState::Up, "code {:#04x}", c);
                assert_eq!(m.code, b.code, "code {:#04x}", c);
            }
            (Err(_), Err(_)) => {}
            (Ok(None), Ok(None)) => {}
            (m, b) => panic!("code {:#04x}: make={:?} break={:?}", c, m, b),
        }
    }
}

#[test]
fn set1_and_set2_agree_on_lshift_release() {
    // C13: Set 2 `F0 12` --i8042--> Set 1 `AA`
    let mut s2 = ScancodeSet2::new();
    assert_eq!(s2.advance_state(0xF0), Ok(None));
    let e2 = s2.advance_state(0x12);
    let e1 = ScancodeSet1::new().advance_state(0xAA);
    assert_eq!(e1, e2);
}

#[test]
fn shift_does_not_stick_when_typed_through_set1() {
    let mut s = ScancodeSet1::new();
    let mut d = EventDecoder::new(layouts::Us104Key, HandleControl::Ignore);
    let mut out = Vec::new();
    // LShift down, A down, A up, LShift up, A down
    for b in [0x2Au8, 0x1E, 0x9E, 0xAA, 0x1E] {
        if let Ok(Some(ev)) = s.advance_state(b) {
            if let Some(k) = d.process_keyevent(ev) {
                out.push(k);
            }
        }
    }
    assert_eq!(
        out,
        vec![
            DecodedKey::RawKey(KeyCode::LShift),
            DecodedKey::Unicode('A'),
            DecodedKey::Unicode('a'),
        ]
    );
}
