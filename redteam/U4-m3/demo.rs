//! m3 demo (C09): Norwegian layout, Ctrl-letter mapping enabled.
//! Ctrl+E must be U+0005 and Ctrl+M must be U+000D "whatever Shift and
//! CapsLock are".  Public API only; first end-to-end from Scancode Set 1,
//! then over every Ctrl/Shift/CapsLock/NumLock/hidden-flag combination.
use pc_keyboard::{
    layouts::No105Key, DecodedKey, HandleControl, KeyCode, Keyboard, KeyboardLayout, Modifiers,
    ScancodeSet1,
};

#[test]
fn ctrl_shift_e_is_still_ctrl_e() {
    let mut kb = Keyboard::new(
        ScancodeSet1::new(),
        No105Key,
        HandleControl::MapLettersToUnicode,
    );
    let mut press = |b: u8| {
        let ev = kb.add_byte(b).unwrap().unwrap();
        kb.process_keyevent(ev)
    };
    press(0x1D); // LControl down
    assert_eq!(press(0x12), Some(DecodedKey::Unicode('\u{0005}'))); // Ctrl+E
    press(0x92); // E up
    press(0x2A); // LShift down
    assert_eq!(
        press(0x12),
        Some(DecodedKey::Unicode('\u{0005}')),
        "Ctrl+Shift+E must still be U+0005"
    );
    press(0x92);
    assert_eq!(
        press(0x32),
        Some(DecodedKey::Unicode('\u{000D}')),
        "Ctrl+Shift+M must still be U+000D"
    );
}

#[test]
fn ctrl_letter_whatever_shift_and_capslock_are() {
    let f = [false, true];
    for lshift in f { for rshift in f { for lctrl in f { for rctrl in f {
    for numlock in f { for capslock in f { for rctrl2 in f {
        if !(lctrl || rctrl) { continue; }
        let m = Modifiers {
            lshift, rshift, lctrl, rctrl, numlock, capslock,
            lalt: false, ralt: false, rctrl2,
        };
        for (key, want) in [(KeyCode::E, '\u{0005}'), (KeyCode::M, '\u{000D}'), (KeyCode::A, '\u{0001}')] {
            assert_eq!(
                No105Key.map_keycode(key, &m, HandleControl::MapLettersToUnicode),
                DecodedKey::Unicode(want),
                "{:?} {:?}", key, m
            );
        }
    }}}}}}}
}
