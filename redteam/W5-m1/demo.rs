//! C15 demo: on every layout and in every modifier state the numpad digit keys
//! type their digit while NumLock is on and are reported as their navigation
//! alias (Insert/End/Down/PageDown/Left/Right/Home/Up/PageUp) while it is off.
//! Public API only.

use pc_keyboard::layouts::{
    AnyLayout, Azerty, Colemak, DVP104Key, De105Key, Dvorak104Key, FiSe105Key, Jis109Key,
    No105Key, Uk105Key, Us104Key,
};
use pc_keyboard::{
    DecodedKey, HandleControl, KeyCode, KeyEvent, KeyState, Keyboard, KeyboardLayout, Modifiers,
    ScancodeSet2,
};

const DIGITS: [(KeyCode, char, Option<KeyCode>); 10] = [
    (KeyCode::Numpad0, '0', Some(KeyCode::Insert)),
    (KeyCode::Numpad1, '1', Some(KeyCode::End)),
    (KeyCode::Numpad2, '2', Some(KeyCode::ArrowDown)),
    (KeyCode::Numpad3, '3', Some(KeyCode::PageDown)),
    (KeyCode::Numpad4, '4', Some(KeyCode::ArrowLeft)),
    (KeyCode::Numpad5, '5', None),
    (KeyCode::Numpad6, '6', Some(KeyCode::ArrowRight)),
    (KeyCode::Numpad7, '7', Some(KeyCode::Home)),
    (KeyCode::Numpad8, '8', Some(KeyCode::ArrowUp)),
    (KeyCode::Numpad9, '9', Some(KeyCode::PageUp)),
];

fn modifiers(bits: u16) -> Modifiers {
    Modifiers {
        lshift: bits & 1 != 0,
        rshift: bits & 2 != 0,
        lctrl: bits & 4 != 0,
        rctrl: bits & 8 != 0,
        numlock: bits & 16 != 0,
        capslock: bits & 32 != 0,
        lalt: bits & 64 != 0,
        ralt: bits & 128 != 0,
        rctrl2: bits & 256 != 0,
    }
}

fn check(name: &str, layout: &dyn KeyboardLayout) -> usize {
    let mut bad = 0;
    for bits in 0..512u16 {
        let m = modifiers(bits);
        for mode in [HandleControl::Ignore, HandleControl::MapLettersToUnicode] {
            for (key, digit, nav) in DIGITS {
                let got = layout.map_keycode(key, &m, mode);
                let ok = if m.numlock {
                    got == DecodedKey::Unicode(digit)
                } else {
                    match nav {
                        Some(nav) => got == DecodedKey::RawKey(nav),
                        None => true,
                    }
                };
                if !ok {
                    if bad < 3 {
                        eprintln!("{name}: {key:?} with {m:?} ({mode:?}) decodes to {got:?}");
                    }
                    bad += 1;
                }
            }
        }
    }
    bad
}

#[test]
fn numpad_digits_follow_numlock_on_every_layout() {
    let mut bad = 0;
    bad += check("Us104Key", &Us104Key);
    bad += check("Uk105Key", &Uk105Key);
    bad += check("De105Key", &De105Key);
    bad += check("No105Key", &No105Key);
    bad += check("FiSe105Key", &FiSe105Key);
    bad += check("Jis109Key", &Jis109Key);
    bad += check("Dvorak104Key", &Dvorak104Key);
    bad += check("DVP104Key", &DVP104Key);
    bad += check("Azerty", &Azerty);
    bad += check("Colemak", &Colemak);
    bad += check("AnyLayout::Us104Key", &AnyLayout::Us104Key(Us104Key));
    assert_eq!(bad, 0, "{bad} numpad cells violate C15");
}

#[test]
fn numpad7_is_home_after_numlock_is_switched_off() {
    let mut kb = Keyboard::new(ScancodeSet2::new(), Us104Key, HandleControl::Ignore);
    assert_eq!(
        kb.process_keyevent(KeyEvent::new(KeyCode::Numpad7, KeyState::Down)),
        Some(DecodedKey::Unicode('7'))
    );
    kb.process_keyevent(KeyEvent::new(KeyCode::NumpadLock, KeyState::Down));
    kb.process_keyevent(KeyEvent::new(KeyCode::NumpadLock, KeyState::Up));
    assert_eq!(
        kb.process_keyevent(KeyEvent::new(KeyCode::Numpad7, KeyState::Down)),
        Some(DecodedKey::RawKey(KeyCode::Home))
    );
}
