// m2 demo: C10 on the Norwegian layout - CapsLock must act as an inversion of Shift
// on the national letters (å ø æ), as it does on a..z.
use pc_keyboard::{layouts::No105Key, DecodedKey, HandleControl, KeyCode, KeyboardLayout, Modifiers};

fn mods(shift: bool, caps: bool) -> Modifiers {
    Modifiers {
        lshift: false,
        rshift: shift,
        lctrl: false,
        rctrl: false,
        numlock: true,
        capslock: caps,
        lalt: false,
        ralt: false,
        rctrl2: false,
    }
}

#[test]
fn capslock_inverts_shift_on_norwegian_letters() {
    for (key, lower, upper) in [
        (KeyCode::Oem4, 'å', 'Å'),
        (KeyCode::Oem1, 'ø', 'Ø'),
        (KeyCode::Oem3, 'æ', 'Æ'),
        (KeyCode::A, 'a', 'A'),
    ] {
        for mode in [HandleControl::Ignore, HandleControl::MapLettersToUnicode] {
            let out = |shift, caps| No105Key.map_keycode(key, &mods(shift, caps), mode);
            assert_eq!(out(false, false), DecodedKey::Unicode(lower));
            assert_eq!(out(true, false), DecodedKey::Unicode(upper));
            // CapsLock alone gives the capital, CapsLock + Shift the small letter
            assert_eq!(out(false, true), DecodedKey::Unicode(upper), "{:?} CapsLock", key);
            assert_eq!(out(true, true), DecodedKey::Unicode(lower), "{:?} CapsLock+Shift", key);
        }
    }
}
