//! C08 demonstration: every public operation must return normally for every
//! input.  A frame with a parity error must come back as `Err(ParityError)` -
//! from `add_word`, from the bit-serial path and through `Keyboard` - instead
//! of taking the process down.
use pc_keyboard::{layouts, Error, HandleControl, Keyboard, Ps2Decoder, ScancodeSet2};

fn frame(byte: u8) -> u16 {
    let parity = (byte.count_ones() % 2 == 0) as u16;
    ((byte as u16) << 1) | (parity << 9) | (1 << 10)
}

#[test]
fn parity_error_is_reported_not_fatal_word() {
    let d = Ps2Decoder::new();
    for byte in 0..=255u8 {
        assert_eq!(d.add_word(frame(byte) ^ (1 << 9)), Err(Error::ParityError));
    }
}

#[test]
fn parity_error_is_reported_not_fatal_bits() {
    let mut k = Keyboard::new(ScancodeSet2::new(), layouts::Us104Key, HandleControl::Ignore);
    let bad = frame(0x1C) ^ (1 << 3);
    let mut last = Ok(None);
    for i in 0..11 {
        last = k.add_bit((bad >> i) & 1 != 0);
    }
    assert_eq!(last, Err(Error::ParityError));
}
