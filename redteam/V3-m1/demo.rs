//! m1 demo (C04 / C14): a layout change between two key events must not
//! disturb the tracked modifier state.
//!
//! The mutant adds `Keyboard::change_layout`.  So that this file also builds
//! (and passes) on the unchanged crate, a reference implementation of "change
//! the layout of a Keyboard" built only from the old public API is provided as
//! an extension-trait method; an inherent method of the same name, when the
//! crate has one, takes precedence over it in method resolution.

use pc_keyboard::layouts::{AnyLayout, Azerty, Uk105Key};
use pc_keyboard::{
    DecodedKey, HandleControl, KeyCode, KeyEvent, KeyState, Keyboard, KeyboardLayout, ScancodeSet2,
};

trait ChangeLayoutReference<L> {
    fn change_layout(&mut self, new_layout: L);
}

impl<L: KeyboardLayout> ChangeLayoutReference<L> for Keyboard<L, ScancodeSet2> {
    /// Old-API reference: build a new keyboard and replay the modifier history.
    fn change_layout(&mut self, new_layout: L) {
        let m = self.get_modifiers().clone();
        let mut k = Keyboard::new(ScancodeSet2::new(), new_layout, self.get_ctrl_handling());
        let mut press = |c| {
            k.process_keyevent(KeyEvent::new(c, KeyState::Down));
        };
        if m.lshift {
            press(KeyCode::LShift)
        }
        if m.rshift {
            press(KeyCode::RShift)
        }
        if m.lctrl {
            press(KeyCode::LControl)
        }
        if m.rctrl {
            press(KeyCode::RControl)
        }
        if m.lalt {
            press(KeyCode::LAlt)
        }
        if m.ralt {
            press(KeyCode::RAltGr)
        }
        if m.capslock {
            press(KeyCode::CapsLock)
        }
        if !m.numlock {
            press(KeyCode::NumpadLock)
        }
        if m.rctrl2 {
            press(KeyCode::RControl2)
        }
        *self = k;
    }
}

fn down(c: KeyCode) -> KeyEvent {
    KeyEvent::new(c, KeyState::Down)
}

#[test]
fn layout_change_keeps_modifier_history() {
    let mut k = Keyboard::new(
        ScancodeSet2::new(),
        AnyLayout::Uk105Key(Uk105Key),
        HandleControl::Ignore,
    );
    // history: LShift pressed (and still held), CapsLock pressed once, NumLock pressed once
    assert_eq!(k.process_keyevent(down(KeyCode::LShift)), Some(DecodedKey::RawKey(KeyCode::LShift)));
    k.process_keyevent(down(KeyCode::CapsLock));
    k.process_keyevent(KeyEvent::new(KeyCode::CapsLock, KeyState::Up));
    k.process_keyevent(down(KeyCode::NumpadLock));
    k.process_keyevent(KeyEvent::new(KeyCode::NumpadLock, KeyState::Up));
    assert!(k.get_modifiers().lshift && k.get_modifiers().capslock && !k.get_modifiers().numlock);

    // a layout change is not a key event
    k.change_layout(AnyLayout::Azerty(Azerty));

    // C04: most recent LShift event was a press; CapsLock / NumLock parity is odd
    assert!(k.get_modifiers().lshift, "C04: LShift is still held");
    assert!(k.get_modifiers().capslock, "C04: CapsLock was pressed once");
    assert!(!k.get_modifiers().numlock, "C04: NumLock was pressed once (starts on)");

    // C14: the next press is decoded by the new layout under the current modifier state
    // (Shift held, CapsLock switched off again): AZERTY Shift+Key1 is '1'.
    k.process_keyevent(down(KeyCode::CapsLock));
    assert_eq!(k.process_keyevent(down(KeyCode::Key1)), Some(DecodedKey::Unicode('1')));
}
