//! C15: with NumLock off the keypad digits act as Insert/End/Down/PageDown/
//! Left/Right/Home/Up/PageUp, on every layout and in every modifier state.
use pc_keyboard::layouts::*;
use pc_keyboard::*;

const NAV: [(KeyCode, KeyCode); 9] = [
    (KeyCode::Numpad0, KeyCode::Insert),
    (KeyCode::Numpad1, KeyCode::End),
    (KeyCode::Numpad2, KeyCode::ArrowDown),
    (KeyCode::Numpad3, KeyCode::PageDown),
    (KeyCode::Numpad4, KeyCode::ArrowLeft),
    (KeyCode::Numpad6, KeyCode::ArrowRight),
    (KeyCode::Numpad7, KeyCode::Home),
    (KeyCode::Numpad8, KeyCode::ArrowUp),
    (KeyCode::Numpad9, KeyCode::PageUp),
];

fn check<L: KeyboardLayout>(name: &str, layout: L) {
    for bits in 0..512u16 {
        let m = Modifiers {
            lshift: bits & 1 != 0,
            rshift: bits & 2 != 0,
            lctrl: bits & 4 != 0,
            rctrl: bits & 8 != 0,
            numlock: bits & 16 != 0,
            capslock: bits & 32 != 0,
            lalt: bits & 64 != 0,
            ralt: bits & 128 != 0,
            rctrl2: bits & 256 != 0,
        };
        for mode in [HandleControl::Ignore, HandleControl::MapLettersToUnicode] {
            for (pad, nav) in NAV {
                let got = layout.map_keycode(pad, &m, mode);
                if m.numlock {
                    assert!(matches!(got, DecodedKey::Unicode('0'..='9')), "{name}: {pad:?}");
                } else {
                    assert_eq!(got, DecodedKey::RawKey(nav), "{name}: {pad:?} with NumLock off");
                }
            }
        }
    }
}

#[test]
fn keypad_follows_numlock() {
    check("Us104Key", Us104Key);
    check("Uk105Key", Uk105Key);
    check("De105Key", De105Key);
    check("No105Key", No105Key);
    check("FiSe105Key", FiSe105Key);
    check("Jis109Key", Jis109Key);
    check("Azerty", Azerty);
    check("Colemak", Colemak);
    check("Dvorak104Key", Dvorak104Key);
    check("DVP104Key", DVP104Key);
}

#[test]
fn end_to_end_keypad_3_is_page_down() {
    let mut kb = Keyboard::new(ScancodeSet2::new(), De105Key, HandleControl::Ignore);
    // NumLock make / break: NumLock is on after power-up, this turns it off
    for b in [0x77u8, 0xF0, 0x77] {
        if let Some(ev) = kb.add_byte(b).unwrap() {
            kb.process_keyevent(ev);
        }
    }
    assert!(!kb.get_modifiers().numlock);
    // keypad 3 is 0x7A in set 2
    let ev = kb.add_byte(0x7A).unwrap().unwrap();
    assert_eq!(ev.code, KeyCode::Numpad3);
    assert_eq!(
        kb.process_keyevent(ev),
        Some(DecodedKey::RawKey(KeyCode::PageDown))
    );
}
