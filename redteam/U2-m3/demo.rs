//! m3 demo: C08 (no public operation panics in any reachable state) and, as a
//! consequence, C20 (the modifier predicates can be evaluated in a const).
use pc_keyboard::{
    layouts::Us104Key, HandleControl, KeyCode, KeyEvent, KeyState, Keyboard, Modifiers,
    ScancodeSet2,
};

#[test]
fn both_alt_keys_held() {
    let mut kb = Keyboard::new(ScancodeSet2::new(), Us104Key, HandleControl::Ignore);
    // Set 2: LAlt make = 0x11, AltGr make = E0 0x11
    for byte in [0x11u8, 0xE0, 0x11] {
        if let Ok(Some(ev)) = kb.add_byte(byte) {
            kb.process_keyevent(ev);
        }
    }
    let m = kb.get_modifiers();
    assert!(m.lalt && m.ralt);
    assert!(m.is_alt());
    assert!(m.is_altgr());
}

#[test]
fn predicates_are_total_over_all_512_modifier_sets() {
    for bits in 0u16..512 {
        let b = |i: u16| bits & (1 << i) != 0;
        let m = Modifiers {
            lshift: b(0),
            rshift: b(1),
            lctrl: b(2),
            rctrl: b(3),
            numlock: b(4),
            capslock: b(5),
            lalt: b(6),
            ralt: b(7),
            rctrl2: b(8),
        };
        assert_eq!(m.is_shifted(), m.lshift || m.rshift);
        assert_eq!(m.is_ctrl(), m.lctrl || m.rctrl);
        assert_eq!(m.is_alt(), m.lalt || m.ralt);
        assert_eq!(m.is_altgr(), m.ralt || (m.lalt && (m.lctrl || m.rctrl)));
        assert_eq!(m.is_caps(), (m.lshift || m.rshift) ^ m.capslock);
    }
    let _ = KeyEvent::new(KeyCode::LAlt, KeyState::Down);
}
