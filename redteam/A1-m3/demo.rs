// C02 / C19 / C13: codes the Set 1 E1 page does not define are UnknownKeyCode, make and break alike.
use pc_keyboard::{Error, KeyEvent, KeyState, ScancodeSet, ScancodeSet1, ScancodeSet2};

fn run<S: ScancodeSet>(mut s: S, bytes: &[u8]) -> Vec<Result<Option<KeyEvent>, Error>> {
    bytes.iter().map(|b| s.advance_state(*b)).collect()
}

#[test]
fn set1_e1_break_of_undefined_code_is_unknown() {
    // E0 48 is ArrowUp; neither E1 48 nor E1 C8 is defined by the table.
    assert_eq!(run(ScancodeSet1::new(), &[0xE1, 0x48])[1], Err(Error::UnknownKeyCode));
    assert_eq!(run(ScancodeSet1::new(), &[0xE1, 0xC8])[1], Err(Error::UnknownKeyCode));
}

#[test]
fn set1_e1_make_and_break_pair_up() {
    for code in 0u8..0x80 {
        let make = run(ScancodeSet1::new(), &[0xE1, code]);
        let brk = run(ScancodeSet1::new(), &[0xE1, code | 0x80]);
        match (&make[1], &brk[1]) {
            (Ok(Some(d)), Ok(Some(u))) => {
                assert_eq!(d.state, KeyState::Down);
                assert_eq!(u.state, KeyState::Up);
                assert_eq!(d.code, u.code);
            }
            (Err(_), Err(_)) => {}
            other => panic!("E1 {:02x}: make/break disagree: {:?}", code, other),
        }
    }
}

#[test]
fn set2_and_translated_set1_agree() {
    // i8042: E1 F0 75  ->  E1 C8
    let a = run(ScancodeSet2::new(), &[0xE1, 0xF0, 0x75]);
    let b = run(ScancodeSet1::new(), &[0xE1, 0xC8]);
    assert_eq!(a[2], b[1]);
}
