// Demonstration for mutant m2 (property C14).
//
// C14: "... any other press yields precisely what the currently installed layout returns
// for that key under the current modifier state and current Ctrl-handling mode, so a
// change of Ctrl handling or of layout takes effect on the very next key."
//
// A recording layout shows which (key, modifiers, mode) triple was consulted.
use core::cell::Cell;
use pc_keyboard::{
    layouts, DecodedKey, EventDecoder, HandleControl, KeyCode, KeyEvent, KeyState, Keyboard,
    KeyboardLayout, Modifiers, ScancodeSet2,
};

struct Recorder<'a> {
    seen: &'a Cell<Option<(KeyCode, Modifiers, HandleControl)>>,
}

impl KeyboardLayout for Recorder<'_> {
    fn map_keycode(&self, k: KeyCode, m: &Modifiers, h: HandleControl) -> DecodedKey {
        self.seen.set(Some((k, m.clone(), h)));
        DecodedKey::RawKey(k)
    }
}

fn down(c: KeyCode) -> KeyEvent {
    KeyEvent::new(c, KeyState::Down)
}
fn up(c: KeyCode) -> KeyEvent {
    KeyEvent::new(c, KeyState::Up)
}

#[test]
fn mode_consulted_is_the_mode_last_set_ignore() {
    let seen = Cell::new(None);
    let mut d = EventDecoder::new(Recorder { seen: &seen }, HandleControl::Ignore);
    // tap left Alt (e.g. the user opened and closed a menu)
    assert_eq!(d.process_keyevent(down(KeyCode::LAlt)), Some(DecodedKey::RawKey(KeyCode::LAlt)));
    assert_eq!(d.process_keyevent(up(KeyCode::LAlt)), None);
    assert_eq!(d.process_keyevent(down(KeyCode::A)), Some(DecodedKey::RawKey(KeyCode::A)));
    let (k, _m, h) = seen.take().expect("layout consulted exactly once");
    assert_eq!(k, KeyCode::A);
    assert_eq!(h, HandleControl::Ignore, "nobody called set_ctrl_handling");
    assert_eq!(d.get_ctrl_handling(), HandleControl::Ignore);
}

#[test]
fn mode_consulted_is_the_mode_last_set_map() {
    let seen = Cell::new(None);
    let mut d = EventDecoder::new(Recorder { seen: &seen }, HandleControl::MapLettersToUnicode);
    d.process_keyevent(down(KeyCode::LAlt));
    d.process_keyevent(down(KeyCode::A));
    let (_k, m, h) = seen.take().unwrap();
    assert!(m.lalt);
    assert_eq!(h, HandleControl::MapLettersToUnicode);
    // a change of Ctrl handling takes effect on the very next key - and stays
    d.set_ctrl_handling(HandleControl::Ignore);
    d.process_keyevent(up(KeyCode::LAlt));
    d.process_keyevent(down(KeyCode::B));
    let (_k, _m, h) = seen.take().unwrap();
    assert_eq!(h, HandleControl::Ignore);
}

#[test]
fn end_to_end_ctrl_a_after_alt_tap_in_ignore_mode() {
    let mut k = Keyboard::new(ScancodeSet2::new(), layouts::Us104Key, HandleControl::Ignore);
    k.process_keyevent(down(KeyCode::LAlt));
    k.process_keyevent(up(KeyCode::LAlt));
    k.process_keyevent(down(KeyCode::LControl));
    // Ignore mode: letters stay letters
    assert_eq!(k.process_keyevent(down(KeyCode::A)), Some(DecodedKey::Unicode('a')));
    assert_eq!(k.get_ctrl_handling(), HandleControl::Ignore);
}
