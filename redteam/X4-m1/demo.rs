//! m1 demo (C03): "wherever a layout gives a key a distinct AltGr-level
//! character it is the standard's AltGr character for that key" - German
//! AltGr+E is the euro sign and AltGr+Q is '@', never something else.
//!
//! AltGr is in effect with RAlt held, or with LAlt + a Ctrl key (the crate's
//! own `Modifiers::is_altgr`).  Over all 512 modifier combinations x both
//! Ctrl-handling modes with AltGr in effect, the key may type
//!   * its AltGr character,
//!   * the control character (Ctrl-letter mapping on and Ctrl held: Ctrl is
//!     being mapped, which C03 leaves to C09),
//!   * its plain letter (Shift+AltGr together is unconstrained),
//! and nothing else - in particular not another key's AltGr character.
use pc_keyboard::layouts::{AnyLayout, De105Key};
use pc_keyboard::{
    DecodedKey, HandleControl, KeyCode, Keyboard, KeyboardLayout, Modifiers, ScancodeSet2,
};

fn mods(bits: u16) -> Modifiers {
    Modifiers {
        lshift: bits & 1 != 0,
        rshift: bits & 2 != 0,
        lctrl: bits & 4 != 0,
        rctrl: bits & 8 != 0,
        numlock: bits & 16 != 0,
        capslock: bits & 32 != 0,
        lalt: bits & 64 != 0,
        ralt: bits & 128 != 0,
        rctrl2: bits & 256 != 0,
    }
}

fn check(layout: &dyn KeyboardLayout, key: KeyCode, lower: char, altgr: char) {
    let upper = lower.to_ascii_uppercase();
    let ctrl = char::from(lower as u8 - 0x60);
    for mode in [HandleControl::Ignore, HandleControl::MapLettersToUnicode] {
        for bits in 0..512u16 {
            let m = mods(bits);
            if !m.is_altgr() {
                continue;
            }
            let got = layout.map_keycode(key, &m, mode);
            let ctrl_mapped = mode == HandleControl::MapLettersToUnicode && m.is_ctrl();
            let ok = got == DecodedKey::Unicode(altgr)
                || (ctrl_mapped && got == DecodedKey::Unicode(ctrl))
                || (m.is_shifted()
                    && (got == DecodedKey::Unicode(lower) || got == DecodedKey::Unicode(upper)));
            assert!(
                ok,
                "{:?} with AltGr in effect types {:?}, expected {:?} (mode {:?}, {:?})",
                key, got, altgr, mode, m
            );
        }
    }
}

#[test]
fn german_altgr_characters_are_the_standard_ones() {
    check(&De105Key, KeyCode::Q, 'q', '@');
    check(&De105Key, KeyCode::E, 'e', '€');
    check(&AnyLayout::De105Key(De105Key), KeyCode::E, 'e', '€');
    check(&&AnyLayout::De105Key(De105Key), KeyCode::E, 'e', '€');
}

#[test]
fn german_ctrl_alt_e_end_to_end_set2() {
    // LCtrl (0x14) and LAlt (0x11) held - the Windows-style AltGr chord -
    // then E (0x24), Ctrl-letter mapping enabled.
    let mut kb = Keyboard::new(
        ScancodeSet2::new(),
        De105Key,
        HandleControl::MapLettersToUnicode,
    );
    let mut last = None;
    for byte in [0x14u8, 0x11, 0x24] {
        if let Some(ev) = kb.add_byte(byte).unwrap() {
            last = kb.process_keyevent(ev);
        }
    }
    assert!(
        last == Some(DecodedKey::Unicode('€')) || last == Some(DecodedKey::Unicode('\u{5}')),
        "Ctrl+Alt+E on the German layout typed {:?}",
        last
    );
}
