//! m1 demo (C03, AltGr clause): the German layout must type its AltGr-level
//! characters in EVERY modifier state that selects the AltGr level
//! (G = ralt || (lalt && ctrl), Shift up, CapsLock off, Ctrl not being mapped).
//! Public API only.

use pc_keyboard::layouts::{AnyLayout, De105Key};
use pc_keyboard::{
    DecodedKey, HandleControl, KeyCode, KeyState, Keyboard, KeyboardLayout, Modifiers,
    ScancodeSet2,
};

/// DIN 2137 third level for the keys the crate models.
const ALTGR: &[(KeyCode, char)] = &[
    (KeyCode::Key7, '{'),
    (KeyCode::Key8, '['),
    (KeyCode::Key9, ']'),
    (KeyCode::Key0, '}'),
    (KeyCode::OemMinus, '\\'),
    (KeyCode::Q, '@'),
    (KeyCode::E, '€'),
    (KeyCode::Oem6, '~'),
    (KeyCode::Oem5, '|'),
];

fn all_modifiers() -> impl Iterator<Item = Modifiers> {
    (0u16..512).map(|b| Modifiers {
        lshift: b & 1 != 0,
        rshift: b & 2 != 0,
        lctrl: b & 4 != 0,
        rctrl: b & 8 != 0,
        numlock: b & 16 != 0,
        capslock: b & 32 != 0,
        lalt: b & 64 != 0,
        ralt: b & 128 != 0,
        rctrl2: b & 256 != 0,
    })
}

/// Every one of the 512 states that selects the AltGr level, in the mode where
/// Ctrl is not mapped, on the layout itself and through both wrappers.
#[test]
fn altgr_level_in_every_selecting_state() {
    let any = AnyLayout::De105Key(De105Key);
    let mut checked = 0;
    for m in all_modifiers() {
        let shift = m.lshift || m.rshift;
        let ctrl = m.lctrl || m.rctrl;
        let altgr = m.ralt || (m.lalt && ctrl);
        if m.capslock || shift || !altgr {
            continue;
        }
        for &(key, want) in ALTGR {
            let mode = HandleControl::Ignore; // Ctrl is never mapped in this mode
            let want = DecodedKey::Unicode(want);
            assert_eq!(De105Key.map_keycode(key, &m, mode), want, "{:?} {:?}", key, m);
            assert_eq!(any.map_keycode(key, &m, mode), want, "AnyLayout {:?} {:?}", key, m);
            assert_eq!((&any).map_keycode(key, &m, mode), want, "&AnyLayout {:?} {:?}", key, m);
            checked += 1;
        }
    }
    assert!(checked > 0);
}

/// End to end from Set 2 scancodes: LCtrl down, LAlt down (the classic
/// Ctrl+Alt = AltGr chord), then the 7 key: a German keyboard types '{'.
#[test]
fn ctrl_alt_7_types_brace_end_to_end() {
    let mut kb = Keyboard::new(ScancodeSet2::new(), De105Key, HandleControl::Ignore);
    let mut last = None;
    for byte in [0x14u8, 0x11, 0x3D] {
        if let Some(ev) = kb.add_byte(byte).unwrap() {
            assert_eq!(ev.state, KeyState::Down);
            last = kb.process_keyevent(ev);
        }
    }
    assert_eq!(last, Some(DecodedKey::Unicode('{')));

    // and with the real AltGr key (E0 11) while right Ctrl (E0 14) is held
    let mut kb = Keyboard::new(ScancodeSet2::new(), De105Key, HandleControl::Ignore);
    let mut last = None;
    for byte in [0xE0u8, 0x14, 0xE0, 0x11, 0x15] {
        if let Some(ev) = kb.add_byte(byte).unwrap() {
            last = kb.process_keyevent(ev);
        }
    }
    assert_eq!(last, Some(DecodedKey::Unicode('@')));
}
