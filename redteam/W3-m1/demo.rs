//! C17 demonstration: AnyLayout, used by value and by reference, must return
//! exactly what the wrapped layout returns for every key, modifier set and
//! Ctrl mode.  Public API only.
use pc_keyboard::layouts::*;
use pc_keyboard::{
    DecodedKey, EventDecoder, HandleControl, KeyCode, KeyEvent, KeyState, KeyboardLayout, Modifiers,
};

use KeyCode::*;
const KEYS: [KeyCode; 124] = [
    Escape, F1, F2, F3, F4, F5, F6, F7, F8, F9, F10, F11, F12, PrintScreen, SysRq, ScrollLock,
    PauseBreak, Oem8, Key1, Key2, Key3, Key4, Key5, Key6, Key7, Key8, Key9, Key0, OemMinus,
    OemPlus, Backspace, Insert, Home, PageUp, NumpadLock, NumpadDivide, NumpadMultiply,
    NumpadSubtract, Tab, Q, W, E, R, T, Y, U, I, O, P, Oem4, Oem6, Oem5, Oem7, Delete, End,
    PageDown, Numpad7, Numpad8, Numpad9, NumpadAdd, CapsLock, A, S, D, F, G, H, J, K, L, Oem1,
    Oem3, Return, Numpad4, Numpad5, Numpad6, LShift, Z, X, C, V, B, N, M, OemComma, OemPeriod,
    Oem2, RShift, ArrowUp, Numpad1, Numpad2, Numpad3, NumpadEnter, LControl, LWin, LAlt, Spacebar,
    RAltGr, RWin, Apps, RControl, ArrowLeft, ArrowDown, ArrowRight, Numpad0, NumpadPeriod, Oem9,
    Oem10, Oem11, Oem12, Oem13, PrevTrack, NextTrack, Mute, Calculator, Play, Stop, VolumeDown,
    VolumeUp, WWWHome, PowerOnTestOk, TooManyKeys, RControl2, RAlt2,
];

fn mods(bits: u16) -> Modifiers {
    Modifiers {
        lshift: bits & 1 != 0,
        rshift: bits & 2 != 0,
        lctrl: bits & 4 != 0,
        rctrl: bits & 8 != 0,
        numlock: bits & 16 != 0,
        capslock: bits & 32 != 0,
        lalt: bits & 64 != 0,
        ralt: bits & 128 != 0,
        rctrl2: bits & 256 != 0,
    }
}

/// `by_ref` is generic so that `L = &AnyLayout` really selects the by-reference impl.
fn through<L: KeyboardLayout>(l: L, k: KeyCode, m: &Modifiers, h: HandleControl) -> DecodedKey {
    l.map_keycode(k, m, h)
}

fn check<T: KeyboardLayout>(name: &str, inner: T, any: AnyLayout) {
    let mut bad = 0usize;
    let mut first = None;
    for &k in KEYS.iter() {
        for bits in 0..512u16 {
            let m = mods(bits);
            for h in [HandleControl::MapLettersToUnicode, HandleControl::Ignore] {
                let want = inner.map_keycode(k, &m, h);
                let by_val = any.map_keycode(k, &m, h);
                let by_ref = through(&any, k, &m, h);
                if by_val != want || by_ref != want {
                    bad += 1;
                    first.get_or_insert((k, bits, h, want, by_val, by_ref));
                }
            }
        }
    }
    assert!(
        bad == 0,
        "{name}: {bad} cells differ; first (key, mods, mode, wrapped, by value, by ref) = {first:?}"
    );
}

#[test]
fn anylayout_equals_wrapped_layout_everywhere() {
    check("DVP104Key", DVP104Key, AnyLayout::DVP104Key(DVP104Key));
    check("Dvorak104Key", Dvorak104Key, AnyLayout::Dvorak104Key(Dvorak104Key));
    check("Us104Key", Us104Key, AnyLayout::Us104Key(Us104Key));
    check("Uk105Key", Uk105Key, AnyLayout::Uk105Key(Uk105Key));
    check("Jis109Key", Jis109Key, AnyLayout::Jis109Key(Jis109Key));
    check("Azerty", Azerty, AnyLayout::Azerty(Azerty));
    check("Colemak", Colemak, AnyLayout::Colemak(Colemak));
    check("De105Key", De105Key, AnyLayout::De105Key(De105Key));
    check("No105Key", No105Key, AnyLayout::No105Key(No105Key));
    check("FiSe105Key", FiSe105Key, AnyLayout::FiSe105Key(FiSe105Key));
}

/// The same thing the way an application meets it: a decoder that borrows a
/// runtime-selected layout, in Ctrl-mapping mode, must turn Ctrl+C into U+0003.
#[test]
fn borrowed_anylayout_in_a_decoder_maps_ctrl_c() {
    let any = AnyLayout::Us104Key(Us104Key);
    let mut dec = EventDecoder::new(&any, HandleControl::MapLettersToUnicode);
    dec.process_keyevent(KeyEvent::new(KeyCode::LControl, KeyState::Down));
    let got = dec.process_keyevent(KeyEvent::new(KeyCode::C, KeyState::Down));
    assert_eq!(got, Some(DecodedKey::Unicode('\u{3}')));
}
