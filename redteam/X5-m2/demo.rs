//! Demonstration for mutant m2 (property C15, also C16's alias clause is untouched).
//!
//! C15: on every layout and in every modifier state the numpad digit keys type
//! their digit while NumLock is on and act as Insert/End/Down/PageDown/Left/
//! Right/Home/Up/PageUp (reported as those raw keys) while it is off.
//! Public API only.

use pc_keyboard::layouts::{
    AnyLayout, De105Key, Dvorak104Key, FiSe105Key, Jis109Key, No105Key, Uk105Key, Us104Key,
};
use pc_keyboard::{
    DecodedKey, HandleControl, KeyCode, KeyEvent, KeyState, Keyboard, KeyboardLayout, Modifiers,
    ScancodeSet1,
};

const NAV: [(KeyCode, char, KeyCode); 9] = [
    (KeyCode::Numpad0, '0', KeyCode::Insert),
    (KeyCode::Numpad1, '1', KeyCode::End),
    (KeyCode::Numpad2, '2', KeyCode::ArrowDown),
    (KeyCode::Numpad3, '3', KeyCode::PageDown),
    (KeyCode::Numpad4, '4', KeyCode::ArrowLeft),
    (KeyCode::Numpad6, '6', KeyCode::ArrowRight),
    (KeyCode::Numpad7, '7', KeyCode::Home),
    (KeyCode::Numpad8, '8', KeyCode::ArrowUp),
    (KeyCode::Numpad9, '9', KeyCode::PageUp),
];

fn mods(bits: u16) -> Modifiers {
    Modifiers {
        lshift: bits & 1 != 0,
        rshift: bits & 2 != 0,
        lctrl: bits & 4 != 0,
        rctrl: bits & 8 != 0,
        numlock: bits & 16 != 0,
        capslock: bits & 32 != 0,
        lalt: bits & 64 != 0,
        ralt: bits & 128 != 0,
        rctrl2: bits & 256 != 0,
    }
}

fn check<L: KeyboardLayout>(name: &str, layout: &L) {
    for bits in 0..512u16 {
        let m = mods(bits);
        for mode in [HandleControl::Ignore, HandleControl::MapLettersToUnicode] {
            for (key, digit, nav) in NAV {
                let want = if m.numlock {
                    DecodedKey::Unicode(digit)
                } else {
                    DecodedKey::RawKey(nav)
                };
                assert_eq!(
                    layout.map_keycode(key, &m, mode),
                    want,
                    "{name} {key:?} {m:?} {mode:?}"
                );
            }
        }
    }
}

#[test]
fn numpad_digits_follow_numlock_in_every_modifier_state() {
    check("Us104Key", &Us104Key);
    check("Uk105Key", &Uk105Key);
    check("Jis109Key", &Jis109Key);
    check("De105Key", &De105Key);
    check("No105Key", &No105Key);
    check("FiSe105Key", &FiSe105Key);
    check("Dvorak104Key", &Dvorak104Key);
    check("AnyLayout::Uk105Key", &AnyLayout::Uk105Key(Uk105Key));
}

#[test]
fn numlock_off_through_the_keyboard() {
    // Set 1: 0x45 = NumLock make/0xC5 break, 0x47 = keypad 7, 0x50 = keypad 2
    let mut kb = Keyboard::new(ScancodeSet1::new(), Us104Key, HandleControl::Ignore);
    let mut feed = |b: u8| {
        let ev = kb.add_byte(b).unwrap().unwrap();
        assert!(ev.state != KeyState::SingleShot);
        kb.process_keyevent(KeyEvent::new(ev.code, ev.state))
    };
    assert_eq!(feed(0x47), Some(DecodedKey::Unicode('7')));
    assert_eq!(feed(0xC7), None);
    assert_eq!(feed(0x45), Some(DecodedKey::RawKey(KeyCode::NumpadLock)));
    assert_eq!(feed(0xC5), None);
    assert_eq!(feed(0x47), Some(DecodedKey::RawKey(KeyCode::Home)));
    assert_eq!(feed(0xC7), None);
    assert_eq!(feed(0x50), Some(DecodedKey::RawKey(KeyCode::ArrowDown)));
}
