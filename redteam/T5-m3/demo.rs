//! Demonstration for mutant m3 - property C16 (and the numpad clause of C15),
//! on the "30 layout objects": the ten layouts, each also wrapped in an
//! `AnyLayout` and behind a `&AnyLayout`.
//!
//! Keys without a character decode to their own raw key; whenever any key
//! decodes to a raw key it is the pressed key itself or, for a numpad key with
//! NumLock off, its navigation alias; numpad digits type their digit while
//! NumLock is on.
//!
//! Public API only.  Copy to tests/demo.rs and run `cargo test --offline --test demo`.

use pc_keyboard::layouts::*;
use pc_keyboard::{DecodedKey, HandleControl, KeyCode, KeyboardLayout, Modifiers};

use KeyCode::*;
const KEYS: [KeyCode; 124] = [
    Escape, F1, F2, F3, F4, F5, F6, F7, F8, F9, F10, F11, F12, PrintScreen, SysRq, ScrollLock,
    PauseBreak, Oem8, Key1, Key2, Key3, Key4, Key5, Key6, Key7, Key8, Key9, Key0, OemMinus,
    OemPlus, Backspace, Insert, Home, PageUp, NumpadLock, NumpadDivide, NumpadMultiply,
    NumpadSubtract, Tab, Q, W, E, R, T, Y, U, I, O, P, Oem4, Oem6, Oem5, Oem7, Delete, End,
    PageDown, Numpad7, Numpad8, Numpad9, NumpadAdd, CapsLock, A, S, D, F, G, H, J, K, L, Oem1,
    Oem3, Return, Numpad4, Numpad5, Numpad6, LShift, Z, X, C, V, B, N, M, OemComma, OemPeriod,
    Oem2, RShift, ArrowUp, Numpad1, Numpad2, Numpad3, NumpadEnter, LControl, LWin, LAlt, Spacebar,
    RAltGr, RWin, Apps, RControl, ArrowLeft, ArrowDown, ArrowRight, Numpad0, NumpadPeriod, Oem9,
    Oem10, Oem11, Oem12, Oem13, PrevTrack, NextTrack, Mute, Calculator, Play, Stop, VolumeDown,
    VolumeUp, WWWHome, PowerOnTestOk, TooManyKeys, RControl2, RAlt2,
];

fn mods(bits: u16) -> Modifiers {
    Modifiers {
        lshift: bits & 1 != 0,
        rshift: bits & 2 != 0,
        lctrl: bits & 4 != 0,
        rctrl: bits & 8 != 0,
        numlock: bits & 16 != 0,
        capslock: bits & 32 != 0,
        lalt: bits & 64 != 0,
        ralt: bits & 128 != 0,
        rctrl2: bits & 256 != 0,
    }
}

const CHARACTERLESS: [KeyCode; 52] = [
    F1, F2, F3, F4, F5, F6, F7, F8, F9, F10, F11, F12, PrintScreen, SysRq, ScrollLock, PauseBreak,
    Insert, Home, PageUp, End, PageDown, ArrowUp, ArrowLeft, ArrowDown, ArrowRight, NumpadLock,
    CapsLock, LShift, RShift, LControl, RControl, LWin, RWin, LAlt, RAltGr, Apps, Oem9, Oem10,
    Oem11, PrevTrack, NextTrack, Mute, Calculator, Play, Stop, VolumeDown, VolumeUp, WWWHome,
    PowerOnTestOk, TooManyKeys, RControl2, RAlt2,
];

fn alias(k: KeyCode) -> Option<(KeyCode, char)> {
    Some(match k {
        Numpad0 => (Insert, '0'),
        Numpad1 => (End, '1'),
        Numpad2 => (ArrowDown, '2'),
        Numpad3 => (PageDown, '3'),
        Numpad4 => (ArrowLeft, '4'),
        Numpad6 => (ArrowRight, '6'),
        Numpad7 => (Home, '7'),
        Numpad8 => (ArrowUp, '8'),
        Numpad9 => (PageUp, '9'),
        _ => return None,
    })
}

/// Checks one layout object, given as a closure that performs the call exactly
/// as a user of that object would write it.
fn check(name: &str, f: &dyn Fn(KeyCode, &Modifiers, HandleControl) -> DecodedKey) -> Vec<String> {
    let mut bad = Vec::new();
    for mode in [HandleControl::Ignore, HandleControl::MapLettersToUnicode] {
        for &key in KEYS.iter() {
            for bits in 0..512u16 {
                let m = mods(bits);
                let got = f(key, &m, mode);
                let mut ok = true;
                if CHARACTERLESS.contains(&key) {
                    ok &= got == DecodedKey::RawKey(key);
                }
                if let DecodedKey::RawKey(x) = got {
                    ok &= x == key || (!m.numlock && alias(key).map(|a| a.0) == Some(x));
                }
                if let Some((nav, digit)) = alias(key) {
                    ok &= got == if m.numlock { DecodedKey::Unicode(digit) } else { DecodedKey::RawKey(nav) };
                }
                if !ok && bad.len() < 3 {
                    bad.push(format!("{name}: {key:?} numlock={} -> {got:?}", m.numlock));
                }
            }
        }
    }
    bad
}

macro_rules! three_forms {
    ($bad:ident, $($l:ident),*) => {$(
        // the layout itself
        $bad.extend(check(stringify!($l), &|k, m, h| $l.map_keycode(k, m, h)));
        // wrapped in an AnyLayout
        let any = AnyLayout::$l($l);
        $bad.extend(check(concat!("AnyLayout::", stringify!($l)), &|k, m, h| any.map_keycode(k, m, h)));
        // behind a reference to an AnyLayout
        let by_ref: &AnyLayout = &any;
        $bad.extend(check(concat!("&AnyLayout::", stringify!($l)), &|k, m, h| by_ref.map_keycode(k, m, h)));
    )*};
}

#[test]
fn c16_raw_keys_are_the_pressed_key_on_all_30_layout_objects() {
    let mut bad: Vec<String> = Vec::new();
    three_forms!(
        bad, Us104Key, Uk105Key, Jis109Key, Azerty, Colemak, De105Key, No105Key, FiSe105Key,
        Dvorak104Key, DVP104Key
    );
    assert!(bad.is_empty(), "C16/C15 violated:\n{}", bad.join("\n"));
}

/// The smallest instance: NumLock is on, numpad 7 is pressed on a wrapped US layout.
#[test]
fn c16_numpad7_with_numlock_on_is_not_home() {
    let m = Modifiers {
        lshift: false,
        rshift: false,
        lctrl: false,
        rctrl: false,
        numlock: true,
        capslock: false,
        lalt: false,
        ralt: false,
        rctrl2: false,
    };
    let any = AnyLayout::Us104Key(Us104Key);
    assert_eq!(
        any.map_keycode(Numpad7, &m, HandleControl::Ignore),
        Us104Key.map_keycode(Numpad7, &m, HandleControl::Ignore)
    );
    assert_eq!(any.map_keycode(Numpad7, &m, HandleControl::Ignore), DecodedKey::Unicode('7'));
}
