//! m1 demo: C19 (distinct sequences denote distinct keys) and C01/C02
//! ("reported as exactly the key ... rather than as some other key").
use pc_keyboard::{KeyCode, KeyEvent, KeyState, ScancodeSet, ScancodeSet1, ScancodeSet2};

fn feed<S: ScancodeSet>(s: &mut S, bytes: &[u8]) -> KeyEvent {
    let mut last = None;
    for b in bytes {
        last = s.advance_state(*b).expect("defined sequence");
    }
    last.expect("complete sequence")
}

#[test]
fn set2_distinct_sequences_denote_distinct_keys() {
    let mut s = ScancodeSet2::new();
    let rctrl = feed(&mut s, &[0xE0, 0x14]);
    let rctrl2 = feed(&mut s, &[0xE1, 0x14]);
    // two different complete sequences: the reported keys must differ
    assert_ne!(rctrl.code, rctrl2.code);
    assert_ne!(rctrl, rctrl2);
    // E1 14 is RControl2 and not some other key
    assert!(rctrl2.code != KeyCode::RControl);
    assert_ne!(rctrl2, KeyEvent::new(KeyCode::RControl, KeyState::Down));
}

#[test]
fn set1_distinct_sequences_denote_distinct_keys() {
    let mut s = ScancodeSet1::new();
    let rctrl = feed(&mut s, &[0xE0, 0x1D]);
    let rctrl2 = feed(&mut s, &[0xE1, 0x1D]);
    assert_ne!(rctrl.code, rctrl2.code);
    let up = feed(&mut s, &[0xE1, 0x9D]);
    assert_ne!(up, KeyEvent::new(KeyCode::RControl, KeyState::Up));
}
