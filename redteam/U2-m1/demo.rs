//! m1 demo: C05 (a rejected frame must *report* BadStartBit/BadStopBit/ParityError)
//! and C08 (no public operation panics on any wire input).
use pc_keyboard::{layouts::Us104Key, Error, HandleControl, Keyboard, Ps2Decoder, ScancodeSet2};

fn parity_ok(byte: u8) -> u16 {
    // start=0, data LSB first in bits 1..8, odd parity in bit 9, stop bit in bit 10
    let p = if byte.count_ones() % 2 == 0 { 1u16 } else { 0 };
    ((byte as u16) << 1) | (p << 9) | (1 << 10)
}

#[test]
fn every_11_bit_frame_is_classified_without_panicking() {
    let d = Ps2Decoder::new();
    for word in 0u16..2048 {
        let start = word & 1 != 0;
        let stop = word & 0x400 != 0;
        let data = ((word >> 1) & 0xFF) as u8;
        let ones = ((word >> 1) & 0x1FF).count_ones();
        let expected = if start {
            Err(Error::BadStartBit)
        } else if !stop {
            Err(Error::BadStopBit)
        } else if ones % 2 == 0 {
            Err(Error::ParityError)
        } else {
            Ok(data)
        };
        assert_eq!(d.add_word(word), expected, "word {:#06x}", word);
    }
}

#[test]
fn stop_bit_corruption_is_reported_bit_serially() {
    // line noise: the stop bit of an otherwise valid frame reads 0
    let mut kb = Keyboard::new(ScancodeSet2::new(), Us104Key, HandleControl::Ignore);
    let word = parity_ok(0x1C) & !0x400;
    let mut last = Ok(None);
    for i in 0..11 {
        last = kb.add_bit(word & (1 << i) != 0);
    }
    assert_eq!(last, Err(Error::BadStopBit));
}
