//! m3 demo: the UK layout has `"` on Shift+2 and `@` on Shift+' (property C03),
//! directly, through the AnyLayout wrappers and end-to-end from scancodes.
use pc_keyboard::layouts::{AnyLayout, Uk105Key};
use pc_keyboard::{
    DecodedKey, HandleControl, KeyCode, Keyboard, KeyboardLayout, Modifiers, ScancodeSet1,
};

fn mods(lshift: bool, rshift: bool) -> Modifiers {
    Modifiers {
        lshift,
        rshift,
        lctrl: false,
        rctrl: false,
        numlock: true,
        capslock: false,
        lalt: false,
        ralt: false,
        rctrl2: false,
    }
}

#[test]
fn uk_shift_2_and_shift_quote() {
    for hc in [HandleControl::Ignore, HandleControl::MapLettersToUnicode] {
        for (l, r) in [(true, false), (false, true), (true, true)] {
            let m = mods(l, r);
            assert_eq!(
                Uk105Key.map_keycode(KeyCode::Key2, &m, hc),
                DecodedKey::Unicode('"')
            );
            assert_eq!(
                Uk105Key.map_keycode(KeyCode::Oem3, &m, hc),
                DecodedKey::Unicode('@')
            );
            let any = AnyLayout::Uk105Key(Uk105Key);
            assert_eq!(any.map_keycode(KeyCode::Key2, &m, hc), DecodedKey::Unicode('"'));
            assert_eq!((&any).map_keycode(KeyCode::Oem3, &m, hc), DecodedKey::Unicode('@'));
        }
    }
}

#[test]
fn uk_shift_2_end_to_end() {
    let mut kb = Keyboard::new(ScancodeSet1::new(), Uk105Key, HandleControl::Ignore);
    // Set 1: LShift make 0x2A, '2' make 0x03
    let ev = kb.add_byte(0x2A).unwrap().unwrap();
    kb.process_keyevent(ev);
    let ev = kb.add_byte(0x03).unwrap().unwrap();
    assert_eq!(ev.code, KeyCode::Key2);
    assert_eq!(kb.process_keyevent(ev), Some(DecodedKey::Unicode('"')));
}
