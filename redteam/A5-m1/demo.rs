// m1 demo: C15 - with NumLock on every keypad digit key types its own digit, on every layout.
use pc_keyboard::layouts::*;
use pc_keyboard::{DecodedKey, HandleControl, KeyCode, KeyboardLayout, Modifiers};

fn check<L: KeyboardLayout>(l: &L, name: &str) {
    let keys = [
        (KeyCode::Numpad0, '0'), (KeyCode::Numpad1, '1'), (KeyCode::Numpad2, '2'),
        (KeyCode::Numpad3, '3'), (KeyCode::Numpad4, '4'), (KeyCode::Numpad5, '5'),
        (KeyCode::Numpad6, '6'), (KeyCode::Numpad7, '7'), (KeyCode::Numpad8, '8'),
        (KeyCode::Numpad9, '9'),
    ];
    for bits in 0u16..512 {
        let m = Modifiers {
            lshift: bits & 1 != 0, rshift: bits & 2 != 0, lctrl: bits & 4 != 0,
            rctrl: bits & 8 != 0, numlock: true, capslock: bits & 32 != 0,
            lalt: bits & 64 != 0, ralt: bits & 128 != 0, rctrl2: bits & 256 != 0,
        };
        for hc in [HandleControl::Ignore, HandleControl::MapLettersToUnicode] {
            for (k, c) in keys.iter() {
                assert_eq!(l.map_keycode(*k, &m, hc), DecodedKey::Unicode(*c), "{} {:?} {:?}", name, k, m);
            }
        }
    }
}

#[test]
fn keypad_digits_follow_numlock() {
    check(&Us104Key, "us"); check(&Uk105Key, "uk"); check(&De105Key, "de"); check(&No105Key, "no");
    check(&FiSe105Key, "fi"); check(&Jis109Key, "jis"); check(&Dvorak104Key, "dv"); check(&Azerty, "az");
    check(&Colemak, "co"); check(&DVP104Key, "dvp");
    check(&AnyLayout::De105Key(De105Key), "any-de");
}
