// Demonstration for mutant m1 (property C01, also C13/C19).
// Public API only.  Passes on the unchanged crate, fails with m1 applied.
use pc_keyboard::{KeyCode, KeyEvent, KeyState, ScancodeSet, ScancodeSet2};

fn feed(bytes: &[u8]) -> Result<Option<KeyEvent>, pc_keyboard::Error> {
    let mut set = ScancodeSet2::new();
    let mut last = Ok(None);
    for b in bytes {
        last = set.advance_state(*b);
    }
    last
}

#[test]
fn set2_extended_keys_decode_to_the_standard_keys() {
    // (code after E0, key) - the README / IBM-Microsoft Set 2 table
    let table = [
        (0x11u8, KeyCode::RAltGr),
        (0x14, KeyCode::RControl),
        (0x21, KeyCode::VolumeDown),
        (0x23, KeyCode::Mute),
        (0x32, KeyCode::VolumeUp),
        (0x4A, KeyCode::NumpadDivide),
        (0x4D, KeyCode::NextTrack),
        (0x5A, KeyCode::NumpadEnter),
        (0x69, KeyCode::End),
        (0x6B, KeyCode::ArrowLeft),
        (0x70, KeyCode::Insert),
        (0x71, KeyCode::Delete),
        (0x75, KeyCode::ArrowUp),
    ];
    for (code, key) in table {
        assert_eq!(
            feed(&[0xE0, code]),
            Ok(Some(KeyEvent::new(key, KeyState::Down))),
            "E0 {:02X} make",
            code
        );
        assert_eq!(
            feed(&[0xE0, 0xF0, code]),
            Ok(Some(KeyEvent::new(key, KeyState::Up))),
            "E0 F0 {:02X} break",
            code
        );
    }
}
