//! m1 demo: Set 1 make codes must be reported as presses, in every build profile.
//! Run with `cargo test --offline --release --test demo` (the defect only exists in optimised builds).
use pc_keyboard::{KeyCode, KeyEvent, KeyState, ScancodeSet, ScancodeSet1, ScancodeSet2};

#[test]
fn set1_make_is_down_and_break_is_up() {
    let mut s = ScancodeSet1::new();
    assert_eq!(
        s.advance_state(0x1E),
        Ok(Some(KeyEvent::new(KeyCode::A, KeyState::Down)))
    );
    assert_eq!(
        s.advance_state(0x9E),
        Ok(Some(KeyEvent::new(KeyCode::A, KeyState::Up)))
    );
    assert_eq!(s.advance_state(0xE0), Ok(None));
    assert_eq!(
        s.advance_state(0x48),
        Ok(Some(KeyEvent::new(KeyCode::ArrowUp, KeyState::Down)))
    );
}

#[test]
fn set1_agrees_with_set2_under_translation() {
    // Set 2 `1C` (A make) is translated by the i8042 to Set 1 `1E`.
    let mut s1 = ScancodeSet1::new();
    let mut s2 = ScancodeSet2::new();
    assert_eq!(s2.advance_state(0x1C), s1.advance_state(0x1E));
}
