//! C11: left and right modifier keys are interchangeable; what a layout types
//! depends on the flags only through Shift, Ctrl, AltGr, CapsLock and NumLock.
use pc_keyboard::layouts::*;
use pc_keyboard::*;

const ALL_KEYS: [KeyCode; 20] = [
    KeyCode::Oem8,
    KeyCode::Key1,
    KeyCode::Key2,
    KeyCode::Key3,
    KeyCode::Key4,
    KeyCode::Key5,
    KeyCode::Oem3,
    KeyCode::Oem5,
    KeyCode::Oem7,
    KeyCode::Oem1,
    KeyCode::Q,
    KeyCode::A,
    KeyCode::Z,
    KeyCode::OemComma,
    KeyCode::Spacebar,
    KeyCode::Numpad1,
    KeyCode::NumpadPeriod,
    KeyCode::F1,
    KeyCode::Return,
    KeyCode::OemMinus,
];

fn mods(bits: u16) -> Modifiers {
    Modifiers {
        lshift: bits & 1 != 0,
        rshift: bits & 2 != 0,
        lctrl: bits & 4 != 0,
        rctrl: bits & 8 != 0,
        numlock: bits & 16 != 0,
        capslock: bits & 32 != 0,
        lalt: bits & 64 != 0,
        ralt: bits & 128 != 0,
        rctrl2: bits & 256 != 0,
    }
}

/// The five facts a layout may see.
fn facts(m: &Modifiers) -> (bool, bool, bool, bool, bool) {
    let shift = m.lshift | m.rshift;
    let ctrl = m.lctrl | m.rctrl;
    let altgr = m.ralt | (m.lalt & ctrl);
    (shift, ctrl, altgr, m.capslock, m.numlock)
}

fn check<L: KeyboardLayout>(name: &str, layout: L) {
    for mode in [HandleControl::Ignore, HandleControl::MapLettersToUnicode] {
        for k in ALL_KEYS {
            for a in 0..512u16 {
                for b in (a + 1)..512u16 {
                    let (ma, mb) = (mods(a), mods(b));
                    if facts(&ma) == facts(&mb) {
                        assert_eq!(
                            layout.map_keycode(k, &ma, mode),
                            layout.map_keycode(k, &mb, mode),
                            "{name}: {k:?} differs between {ma:?} and {mb:?}"
                        );
                    }
                }
            }
        }
    }
}

#[test]
fn left_and_right_are_interchangeable() {
    check("Us104Key", Us104Key);
    check("Uk105Key", Uk105Key);
    check("De105Key", De105Key);
    check("AnyLayout::Uk105Key", AnyLayout::Uk105Key(Uk105Key));
}

#[test]
fn end_to_end_right_shift_3_is_pound() {
    let mut kb = Keyboard::new(ScancodeSet2::new(), Uk105Key, HandleControl::Ignore);
    // right shift make (0x59), then the 3 key (0x26)
    let ev = kb.add_byte(0x59).unwrap().unwrap();
    assert_eq!(kb.process_keyevent(ev), Some(DecodedKey::RawKey(KeyCode::RShift)));
    let ev = kb.add_byte(0x26).unwrap().unwrap();
    assert_eq!(kb.process_keyevent(ev), Some(DecodedKey::Unicode('£')));
}
