//! C05: a frame is accepted iff start = 0, stop = 1 and data + parity hold an
//! odd number of ones; an accepted frame yields its data byte.  All 2048 frames,
//! the round trip of all 256 bytes, and all single-bit corruptions.

use pc_keyboard::{layouts, Error, HandleControl, KeyCode, KeyEvent, KeyState, Keyboard, Ps2Decoder, ScancodeSet2};

fn spec(word: u16) -> Result<u8, Error> {
    if word & 1 != 0 {
        Err(Error::BadStartBit)
    } else if word & 0x400 == 0 {
        Err(Error::BadStopBit)
    } else if ((word >> 1) & 0x1FF).count_ones() % 2 == 0 {
        Err(Error::ParityError)
    } else {
        Ok(((word >> 1) & 0xFF) as u8)
    }
}

fn encode(byte: u8) -> u16 {
    let parity = (byte.count_ones() % 2 == 0) as u16;
    ((byte as u16) << 1) | (parity << 9) | (1 << 10)
}

#[test]
fn all_2048_frames_follow_the_specification() {
    let d = Ps2Decoder::new();
    for word in 0u16..2048 {
        assert_eq!(d.add_word(word), spec(word), "frame {word:#013b}");
    }
}

#[test]
fn every_byte_round_trips_and_single_bit_errors_are_rejected() {
    let d = Ps2Decoder::new();
    for byte in 0u8..=255 {
        let word = encode(byte);
        assert_eq!(d.add_word(word), Ok(byte), "byte {byte:#04x}");
        for bit in 0..11 {
            assert!(
                d.add_word(word ^ (1 << bit)).is_err(),
                "byte {byte:#04x} with bit {bit} flipped was accepted"
            );
        }
    }
}

#[test]
fn bit_serial_decoding_of_every_byte() {
    for byte in 0u8..=255 {
        let word = encode(byte);
        let mut d = Ps2Decoder::new();
        for i in 0..10 {
            assert_eq!(d.add_bit((word >> i) & 1 != 0), Ok(None));
        }
        assert_eq!(d.add_bit(true), Ok(Some(byte)), "byte {byte:#04x}");
    }
}

#[test]
fn keyboard_decodes_spacebar_frame() {
    // 0x29 = Spacebar in Set 2
    let mut k = Keyboard::new(
        ScancodeSet2::new(),
        layouts::Us104Key,
        HandleControl::MapLettersToUnicode,
    );
    assert_eq!(
        k.add_word(encode(0x29)),
        Ok(Some(KeyEvent::new(KeyCode::Spacebar, KeyState::Down)))
    );
}
