//! m1 demo (C01, also C19): after an E0 prefix, a code byte that the Set 2 table does not
//! define must be reported as UnknownKeyCode - never as some other key.
use pc_keyboard::{Error, KeyCode, KeyEvent, KeyState, ScancodeSet, ScancodeSet2};

#[test]
fn undefined_extended_codes_are_unknown() {
    // the 28 defined E0 codes
    let defined: [u8; 28] = [
        0x11, 0x12, 0x14, 0x15, 0x1F, 0x21, 0x23, 0x27, 0x2B, 0x2F, 0x32, 0x34, 0x3A, 0x3B, 0x4A,
        0x4D, 0x5A, 0x69, 0x6B, 0x6C, 0x70, 0x71, 0x72, 0x74, 0x75, 0x7A, 0x7C, 0x7D,
    ];
    let mut bad = Vec::new();
    for code in 0u8..=255 {
        if defined.contains(&code) || code == 0xF0 {
            continue;
        }
        // make: E0 code
        let mut s = ScancodeSet2::new();
        assert_eq!(s.advance_state(0xE0), Ok(None));
        let r = s.advance_state(code);
        if r != Err(Error::UnknownKeyCode) {
            bad.push((false, code, r));
        }
        // break: E0 F0 code
        let mut s = ScancodeSet2::new();
        assert_eq!(s.advance_state(0xE0), Ok(None));
        assert_eq!(s.advance_state(0xF0), Ok(None));
        let r = s.advance_state(code);
        if r != Err(Error::UnknownKeyCode) {
            bad.push((true, code, r));
        }
    }
    assert!(bad.is_empty(), "undefined E0 codes decoded as keys: {:X?}", bad);
}

#[test]
fn garbled_arrow_is_not_an_arrow() {
    // E0 F5 is not a Set 2 sequence (ArrowUp is E0 75)
    let mut s = ScancodeSet2::new();
    s.advance_state(0xE0).unwrap();
    assert_ne!(
        s.advance_state(0xF5),
        Ok(Some(KeyEvent::new(KeyCode::ArrowUp, KeyState::Down)))
    );
}
