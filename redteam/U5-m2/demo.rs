//! C11: a lone left Alt never changes what is typed, and `is_altgr` is
//!      "right Alt, or left Alt together with Ctrl".
//! C16: a character-less key decodes to its own raw key code on every layout
//!      in every modifier state - it never masquerades as another key.
use pc_keyboard::layouts::*;
use pc_keyboard::{
    DecodedKey, EventDecoder, HandleControl, KeyCode, KeyEvent, KeyState, KeyboardLayout,
    Modifiers,
};

fn mods(bits: u16) -> Modifiers {
    Modifiers {
        lshift: bits & 1 != 0,
        rshift: bits & 2 != 0,
        lctrl: bits & 4 != 0,
        rctrl: bits & 8 != 0,
        numlock: bits & 16 != 0,
        capslock: bits & 32 != 0,
        lalt: bits & 64 != 0,
        ralt: bits & 128 != 0,
        rctrl2: bits & 256 != 0,
    }
}

fn layouts() -> [(&'static str, &'static dyn KeyboardLayout); 10] {
    [
        ("Us104Key", &Us104Key),
        ("Uk105Key", &Uk105Key),
        ("Jis109Key", &Jis109Key),
        ("De105Key", &De105Key),
        ("No105Key", &No105Key),
        ("FiSe105Key", &FiSe105Key),
        ("Dvorak104Key", &Dvorak104Key),
        ("DVP104Key", &DVP104Key),
        ("Azerty", &Azerty),
        ("Colemak", &Colemak),
    ]
}

#[test]
fn c11_is_altgr_is_ralt_or_lalt_with_ctrl() {
    for bits in 0..512u16 {
        let m = mods(bits);
        let expected = m.ralt || (m.lalt && (m.lctrl || m.rctrl));
        assert_eq!(m.is_altgr(), expected, "{m:?}");
    }
}

#[test]
fn c11_lone_left_alt_never_changes_what_is_typed() {
    // Q on the German layout: AltGr+Q is '@', a lone left Alt must leave it 'q'.
    let mut d = EventDecoder::new(De105Key, HandleControl::Ignore);
    d.process_keyevent(KeyEvent::new(KeyCode::LAlt, KeyState::Down));
    assert_eq!(
        d.process_keyevent(KeyEvent::new(KeyCode::Q, KeyState::Down)),
        Some(DecodedKey::Unicode('q'))
    );
    // and for every layout, key-independent: toggling a lone lalt (no Ctrl,
    // no right Alt) changes nothing.
    for (name, layout) in layouts() {
        for bits in 0..512u16 {
            let m = mods(bits);
            if m.lalt || m.ralt || m.lctrl || m.rctrl {
                continue;
            }
            let with_lalt = Modifiers { lalt: true, ..mods(bits) };
            for key in [KeyCode::Q, KeyCode::E, KeyCode::Key2, KeyCode::Key7, KeyCode::Oem5] {
                assert_eq!(
                    layout.map_keycode(key, &m, HandleControl::Ignore),
                    layout.map_keycode(key, &with_lalt, HandleControl::Ignore),
                    "{name} {key:?} {m:?}"
                );
            }
        }
    }
}

#[test]
fn c16_sysrq_decodes_to_its_own_raw_key() {
    for (name, layout) in layouts() {
        for bits in 0..512u16 {
            let m = mods(bits);
            for hc in [HandleControl::Ignore, HandleControl::MapLettersToUnicode] {
                assert_eq!(
                    layout.map_keycode(KeyCode::SysRq, &m, hc),
                    DecodedKey::RawKey(KeyCode::SysRq),
                    "{name} {m:?}"
                );
            }
        }
    }
}
