//! m1 demo: a `Ps2Decoder` obtained through the public `Default` impl must frame
//! bits exactly like whole-word decoding (C06) and must never panic (C08).
use pc_keyboard::Ps2Decoder;

fn frame_for(byte: u8) -> u16 {
    let parity = (byte.count_ones() % 2 == 0) as u16; // odd parity
    ((byte as u16) << 1) | (parity << 9) | (1 << 10)
}

#[test]
fn default_decoder_frames_like_whole_word_decoding() {
    let reference = Ps2Decoder::new();
    for byte in 0..=255u8 {
        let word = frame_for(byte);
        let mut dec = Ps2Decoder::default();
        for i in 0..10 {
            assert_eq!(dec.add_bit((word >> i) & 1 != 0), Ok(None), "bit {i} of {byte:#04x}");
        }
        let last = dec.add_bit((word >> 10) & 1 != 0);
        assert_eq!(last, reference.add_word(word).map(Some), "byte {byte:#04x}");
        assert_eq!(last, Ok(Some(byte)));
    }
}

#[test]
fn default_decoder_never_panics_on_a_long_bit_stream() {
    let mut dec = Ps2Decoder::default();
    for i in 0..64u32 {
        let _ = dec.add_bit(i % 3 == 0);
    }
}
