//! m2 demo (C09 "with mapping disabled ... Ctrl handling changes nothing";
//! C03 "x both Ctrl-handling modes ... end-to-end from scancodes").
//! A keyboard that was built with Ctrl-letter mapping DISABLED must type the
//! layout's ordinary character while Ctrl is held. Public API only.

use pc_keyboard::layouts::*;
use pc_keyboard::{
    DecodedKey, HandleControl, KeyCode, KeyEvent, KeyState, Keyboard, KeyboardLayout,
    ScancodeSet1, ScancodeSet2,
};

const LETTER_POSITIONS: [KeyCode; 30] = [
    KeyCode::Q, KeyCode::W, KeyCode::E, KeyCode::R, KeyCode::T, KeyCode::Y, KeyCode::U,
    KeyCode::I, KeyCode::O, KeyCode::P, KeyCode::A, KeyCode::S, KeyCode::D, KeyCode::F,
    KeyCode::G, KeyCode::H, KeyCode::J, KeyCode::K, KeyCode::L, KeyCode::Z, KeyCode::X,
    KeyCode::C, KeyCode::V, KeyCode::B, KeyCode::N, KeyCode::M, KeyCode::Oem1,
    KeyCode::OemComma, KeyCode::OemPeriod, KeyCode::Oem2,
];

fn ctrl_changes_nothing_when_disabled<L: KeyboardLayout>(name: &str, make: fn() -> L) {
    for ctrl in [KeyCode::LControl, KeyCode::RControl] {
        for key in LETTER_POSITIONS {
            let mut plain = Keyboard::new(ScancodeSet2::new(), make(), HandleControl::Ignore);
            let mut held = Keyboard::new(ScancodeSet2::new(), make(), HandleControl::Ignore);
            held.process_keyevent(KeyEvent::new(ctrl, KeyState::Down));
            let a = plain.process_keyevent(KeyEvent::new(key, KeyState::Down));
            let b = held.process_keyevent(KeyEvent::new(key, KeyState::Down));
            assert_eq!(a, b, "{}: {:?}+{:?} with mapping disabled", name, ctrl, key);
        }
    }
}

#[test]
fn mapping_disabled_means_ctrl_changes_nothing() {
    ctrl_changes_nothing_when_disabled("Us104Key", || Us104Key);
    ctrl_changes_nothing_when_disabled("Uk105Key", || Uk105Key);
    ctrl_changes_nothing_when_disabled("Jis109Key", || Jis109Key);
    ctrl_changes_nothing_when_disabled("Azerty", || Azerty);
    ctrl_changes_nothing_when_disabled("Colemak", || Colemak);
    ctrl_changes_nothing_when_disabled("De105Key", || De105Key);
    ctrl_changes_nothing_when_disabled("No105Key", || No105Key);
    ctrl_changes_nothing_when_disabled("FiSe105Key", || FiSe105Key);
    ctrl_changes_nothing_when_disabled("Dvorak104Key", || Dvorak104Key);
    ctrl_changes_nothing_when_disabled("DVP104Key", || DVP104Key);
    ctrl_changes_nothing_when_disabled("AnyLayout", || AnyLayout::Azerty(Azerty));
}

/// End to end from scancodes, both sets: AZERTY, mapping disabled, Ctrl held,
/// the key in the QWERTY-Q position types 'a'.
#[test]
fn azerty_ctrl_q_position_types_a_end_to_end() {
    let mut kb = Keyboard::new(ScancodeSet2::new(), Azerty, HandleControl::Ignore);
    let mut last = None;
    for byte in [0x14u8, 0x15] {
        let ev = kb.add_byte(byte).unwrap().unwrap();
        last = kb.process_keyevent(ev);
    }
    assert_eq!(last, Some(DecodedKey::Unicode('a')));

    let mut kb = Keyboard::new(ScancodeSet1::new(), Azerty, HandleControl::Ignore);
    let mut last = None;
    for byte in [0x1Du8, 0x10] {
        let ev = kb.add_byte(byte).unwrap().unwrap();
        last = kb.process_keyevent(ev);
    }
    assert_eq!(last, Some(DecodedKey::Unicode('a')));
}
