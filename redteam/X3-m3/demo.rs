//! m3 demo: C04 - after any sequence of key events a modifier is reported
//! held iff its most recent event was a press, and the lock flags equal the
//! parity of their presses.  A copy of a decoder has seen the same history as
//! the decoder it was copied from.  Public API only.
//!
//! `EventDecoder` is not `Clone` on the unchanged tree; so that this file
//! builds (and passes) there as well, the copy is taken through an
//! autoref-dispatch helper that yields `None` when the type has no `Clone`.
use pc_keyboard::{
    layouts::{AnyLayout, Us104Key},
    DecodedKey, EventDecoder, HandleControl, KeyCode, KeyEvent, KeyState,
};

struct Probe<'a, T>(&'a T);
trait ViaClone<T> {
    fn try_clone(&self) -> Option<T>;
}
impl<'a, T: Clone> ViaClone<T> for Probe<'a, T> {
    fn try_clone(&self) -> Option<T> {
        Some(self.0.clone())
    }
}
trait NoClone<T> {
    fn try_clone(&self) -> Option<T>;
}
impl<'a, T> NoClone<T> for &Probe<'a, T> {
    fn try_clone(&self) -> Option<T> {
        None
    }
}

fn down(d: &mut EventDecoder<&AnyLayout>, k: KeyCode) -> Option<DecodedKey> {
    d.process_keyevent(KeyEvent::new(k, KeyState::Down))
}
fn up(d: &mut EventDecoder<&AnyLayout>, k: KeyCode) -> Option<DecodedKey> {
    d.process_keyevent(KeyEvent::new(k, KeyState::Up))
}

#[test]
fn a_copied_decoder_reports_the_history_it_has_seen() {
    static LAYOUT: AnyLayout = AnyLayout::Us104Key(Us104Key);
    let mut original = EventDecoder::new(&LAYOUT, HandleControl::Ignore);

    // history: LShift pressed (still held), NumLock pressed once (now off)
    down(&mut original, KeyCode::LShift);
    down(&mut original, KeyCode::NumpadLock);
    up(&mut original, KeyCode::NumpadLock);

    let copy: Option<EventDecoder<&AnyLayout>> = (&Probe(&original)).try_clone();
    let mut copy = match copy {
        Some(c) => c,
        None => return, // no Clone on this tree: nothing to compare
    };

    for k in [KeyCode::A, KeyCode::Key1, KeyCode::Numpad7, KeyCode::NumpadPeriod] {
        let want = down(&mut original, k);
        let got = down(&mut copy, k);
        assert_eq!(got, want, "key {:?} after LShift-down, NumLock toggled", k);
        up(&mut original, k);
        up(&mut copy, k);
    }
    // and concretely: Shift is held, NumLock is off
    assert_eq!(down(&mut copy, KeyCode::A), Some(DecodedKey::Unicode('A')));
    assert_eq!(
        down(&mut copy, KeyCode::Numpad7),
        Some(DecodedKey::RawKey(KeyCode::Home))
    );
}
