//! Demonstration for mutant m3 (property C14; C04's NumLock-parity clause too).
//!
//! Public API only.  Run with the ordinary `cargo test --offline --test demo`:
//! the manifest's dev-dependency on the crate itself switches the optional
//! `lock-repeat-filter` feature on for every `cargo test` build (and for any
//! downstream crate that enables the feature), while `cargo check --lib` /
//! `cargo build` of the package alone compile the crate without it.
//!
//! C14: "Every key press yields exactly one decoded key ... A modifier or lock
//! key press yields that raw key itself".  C04: "CapsLock and NumLock equal the
//! parity of their presses".
//!
//! Only *complete* press/release cycles are used here, so nothing below is an
//! auto-repeat that the feature is documented to drop.

use pc_keyboard::layouts::Us104Key;
use pc_keyboard::{
    DecodedKey, EventDecoder, HandleControl, KeyCode, KeyEvent, KeyState, Keyboard, ScancodeSet2,
};

fn down(code: KeyCode) -> KeyEvent {
    KeyEvent::new(code, KeyState::Down)
}

fn up(code: KeyCode) -> KeyEvent {
    KeyEvent::new(code, KeyState::Up)
}

#[test]
fn every_numlock_press_is_decoded_and_counts() {
    let mut k = Keyboard::new(ScancodeSet2::new(), Us104Key, HandleControl::Ignore);
    assert!(k.get_modifiers().numlock);
    for press in 1..=6 {
        assert_eq!(
            k.process_keyevent(down(KeyCode::NumpadLock)),
            Some(DecodedKey::RawKey(KeyCode::NumpadLock)),
            "press #{press} of NumLock produced no decoded key"
        );
        assert_eq!(
            k.get_modifiers().numlock,
            press % 2 == 0,
            "NumLock is not the parity of its presses after press #{press}"
        );
        assert_eq!(k.process_keyevent(up(KeyCode::NumpadLock)), None);
    }
}

#[test]
fn capslock_for_comparison() {
    let mut d = EventDecoder::new(Us104Key, HandleControl::Ignore);
    for press in 1..=6 {
        assert_eq!(
            d.process_keyevent(down(KeyCode::CapsLock)),
            Some(DecodedKey::RawKey(KeyCode::CapsLock)),
            "press #{press}"
        );
        assert_eq!(d.process_keyevent(up(KeyCode::CapsLock)), None);
    }
}

/// Seen from the user: NumLock off, NumLock on again, then the numpad must
/// type digits.
#[test]
fn numpad_types_digits_after_numlock_off_and_on_again() {
    let mut d = EventDecoder::new(Us104Key, HandleControl::Ignore);
    assert_eq!(d.process_keyevent(down(KeyCode::Numpad7)), Some(DecodedKey::Unicode('7')));
    assert_eq!(d.process_keyevent(up(KeyCode::Numpad7)), None);
    // off
    d.process_keyevent(down(KeyCode::NumpadLock));
    d.process_keyevent(up(KeyCode::NumpadLock));
    assert_eq!(
        d.process_keyevent(down(KeyCode::Numpad7)),
        Some(DecodedKey::RawKey(KeyCode::Home))
    );
    assert_eq!(d.process_keyevent(up(KeyCode::Numpad7)), None);
    // other keys in between, then on again
    assert_eq!(d.process_keyevent(down(KeyCode::A)), Some(DecodedKey::Unicode('a')));
    assert_eq!(d.process_keyevent(up(KeyCode::A)), None);
    assert_eq!(
        d.process_keyevent(down(KeyCode::NumpadLock)),
        Some(DecodedKey::RawKey(KeyCode::NumpadLock))
    );
    d.process_keyevent(up(KeyCode::NumpadLock));
    assert_eq!(d.process_keyevent(down(KeyCode::Numpad7)), Some(DecodedKey::Unicode('7')));
}
