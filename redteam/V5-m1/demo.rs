//! Demonstration for mutant m1 (property C16).
//!
//! C16: "Function, navigation, modifier, lock, media, system and status keys
//! decode to the raw key code of exactly the key pressed, on every layout and
//! in every modifier state - they never type a character".
//!
//! The test only uses the public API and does not name the new key, so it
//! compiles on the unchanged tree as well: it feeds the multimedia "E-mail"
//! key (Scancode Set 2 `E0 48`, Set 1 `E0 6C` in the Microsoft scan code
//! specification) to a keyboard and requires that *if* the driver knows the
//! key, the key is reported as a raw key and never types a character.

use pc_keyboard::layouts::{
    AnyLayout, Azerty, Colemak, DVP104Key, De105Key, Dvorak104Key, FiSe105Key, Jis109Key,
    No105Key, Uk105Key, Us104Key,
};
use pc_keyboard::{
    DecodedKey, HandleControl, KeyEvent, KeyState, Keyboard, KeyboardLayout, ScancodeSet1,
    ScancodeSet2,
};

/// Decode the make code of the mail key with Scancode Set 2.
fn mail_key_set2() -> Option<KeyEvent> {
    let mut kb = Keyboard::new(ScancodeSet2::new(), Us104Key, HandleControl::Ignore);
    assert_eq!(kb.add_byte(0xE0), Ok(None));
    kb.add_byte(0x48).ok().flatten()
}

/// Decode the make code of the mail key with Scancode Set 1.
fn mail_key_set1() -> Option<KeyEvent> {
    let mut kb = Keyboard::new(ScancodeSet1::new(), Us104Key, HandleControl::Ignore);
    assert_eq!(kb.add_byte(0xE0), Ok(None));
    kb.add_byte(0x6C).ok().flatten()
}

fn check<L: KeyboardLayout>(name: &str, layout: L, ev: &KeyEvent, failures: &mut Vec<String>) {
    for mode in [HandleControl::Ignore, HandleControl::MapLettersToUnicode] {
        let mut kb = Keyboard::new(ScancodeSet2::new(), layout_ref(&layout), mode);
        assert_eq!(ev.state, KeyState::Down);
        match kb.process_keyevent(ev.clone()) {
            Some(DecodedKey::RawKey(code)) if code == ev.code => {}
            other => failures.push(format!(
                "{name}: media key {:?} decoded to {:?} instead of its own raw key",
                ev.code, other
            )),
        }
    }
}

/// Borrowing adapter so that one layout value can be used for both modes.
struct Borrowed<'a, L: KeyboardLayout>(&'a L);
impl<'a, L: KeyboardLayout> KeyboardLayout for Borrowed<'a, L> {
    fn map_keycode(
        &self,
        keycode: pc_keyboard::KeyCode,
        modifiers: &pc_keyboard::Modifiers,
        handle_ctrl: HandleControl,
    ) -> DecodedKey {
        self.0.map_keycode(keycode, modifiers, handle_ctrl)
    }
}
fn layout_ref<L: KeyboardLayout>(l: &L) -> Borrowed<'_, L> {
    Borrowed(l)
}

#[test]
fn media_keys_never_type_a_character() {
    let mut failures = Vec::new();
    for ev in [mail_key_set2(), mail_key_set1()].into_iter().flatten() {
        check("Us104Key", Us104Key, &ev, &mut failures);
        check("Uk105Key", Uk105Key, &ev, &mut failures);
        check("Jis109Key", Jis109Key, &ev, &mut failures);
        check("De105Key", De105Key, &ev, &mut failures);
        check("No105Key", No105Key, &ev, &mut failures);
        check("FiSe105Key", FiSe105Key, &ev, &mut failures);
        check("Dvorak104Key", Dvorak104Key, &ev, &mut failures);
        check("DVP104Key", DVP104Key, &ev, &mut failures);
        check("Azerty", Azerty, &ev, &mut failures);
        check("Colemak", Colemak, &ev, &mut failures);
        check("AnyLayout::Us104Key", AnyLayout::Us104Key(Us104Key), &ev, &mut failures);
        check("&AnyLayout::De105Key", &AnyLayout::De105Key(De105Key), &ev, &mut failures);
    }
    assert!(failures.is_empty(), "C16 violated:\n{}", failures.join("\n"));
}
