//! m2 demo: what a Set 2 byte means must not depend on what was received
//! before the previous event (C01 "after every possible history", C07).
use pc_keyboard::{KeyCode, KeyEvent, KeyState, ScancodeSet, ScancodeSet1, ScancodeSet2};

#[test]
fn meaning_of_5d_does_not_depend_on_history() {
    let mut fresh = ScancodeSet2::new();
    let mut used = ScancodeSet2::new();
    // `AA` is a complete one-shot event; afterwards the decoder must be as new.
    assert_eq!(
        used.advance_state(0xAA),
        Ok(Some(KeyEvent::new(KeyCode::PowerOnTestOk, KeyState::SingleShot)))
    );
    for code in 0..=255u8 {
        // skip nothing: prefixes leave both in the same prefix context, too
        assert_eq!(fresh.advance_state(code), used.advance_state(code), "code {code:#04x}");
    }
}

#[test]
fn readme_row_oem7_after_self_test() {
    let mut s2 = ScancodeSet2::new();
    let _ = s2.advance_state(0xAA);
    assert_eq!(
        s2.advance_state(0x5D),
        Ok(Some(KeyEvent::new(KeyCode::Oem7, KeyState::Down)))
    );
    // and the i8042 translation of `5D` is Set 1 `2B`: same key in both sets (C13)
    let mut s1 = ScancodeSet1::new();
    let mut s2 = ScancodeSet2::new();
    let _ = s2.advance_state(0xAA);
    assert_eq!(s2.advance_state(0x5D), s1.advance_state(0x2B));
}

// The change keeps the decoder const-constructible, Send and Sync (C20 stays true).
static _KB: pc_keyboard::Keyboard<pc_keyboard::layouts::Us104Key, ScancodeSet2> = pc_keyboard::Keyboard::new(
    ScancodeSet2::new(),
    pc_keyboard::layouts::Us104Key,
    pc_keyboard::HandleControl::Ignore,
);
