//! Demonstration for mutant m1 - property C11.
//!
//! What a layout types may depend on the nine modifier flags only through
//! Shift, Ctrl, AltGr (= right Alt, or left Alt + Ctrl), CapsLock and NumLock.
//! In particular a lone left Alt never changes what is typed.
//!
//! Public API only.  Copy to tests/demo.rs and run `cargo test --offline --test demo`.

use pc_keyboard::layouts::*;
use pc_keyboard::{
    DecodedKey, HandleControl, KeyCode, KeyEvent, KeyState, Keyboard, KeyboardLayout, Modifiers,
    ScancodeSet2,
};

use KeyCode::*;
const KEYS: [KeyCode; 124] = [
    Escape, F1, F2, F3, F4, F5, F6, F7, F8, F9, F10, F11, F12, PrintScreen, SysRq, ScrollLock,
    PauseBreak, Oem8, Key1, Key2, Key3, Key4, Key5, Key6, Key7, Key8, Key9, Key0, OemMinus,
    OemPlus, Backspace, Insert, Home, PageUp, NumpadLock, NumpadDivide, NumpadMultiply,
    NumpadSubtract, Tab, Q, W, E, R, T, Y, U, I, O, P, Oem4, Oem6, Oem5, Oem7, Delete, End,
    PageDown, Numpad7, Numpad8, Numpad9, NumpadAdd, CapsLock, A, S, D, F, G, H, J, K, L, Oem1,
    Oem3, Return, Numpad4, Numpad5, Numpad6, LShift, Z, X, C, V, B, N, M, OemComma, OemPeriod,
    Oem2, RShift, ArrowUp, Numpad1, Numpad2, Numpad3, NumpadEnter, LControl, LWin, LAlt, Spacebar,
    RAltGr, RWin, Apps, RControl, ArrowLeft, ArrowDown, ArrowRight, Numpad0, NumpadPeriod, Oem9,
    Oem10, Oem11, Oem12, Oem13, PrevTrack, NextTrack, Mute, Calculator, Play, Stop, VolumeDown,
    VolumeUp, WWWHome, PowerOnTestOk, TooManyKeys, RControl2, RAlt2,
];

fn mods(bits: u16) -> Modifiers {
    Modifiers {
        lshift: bits & 1 != 0,
        rshift: bits & 2 != 0,
        lctrl: bits & 4 != 0,
        rctrl: bits & 8 != 0,
        numlock: bits & 16 != 0,
        capslock: bits & 32 != 0,
        lalt: bits & 64 != 0,
        ralt: bits & 128 != 0,
        rctrl2: bits & 256 != 0,
    }
}

/// The canonical member of the abstract class of `m`.
fn canon(m: &Modifiers) -> Modifiers {
    let s = m.lshift || m.rshift;
    let c = m.lctrl || m.rctrl;
    let g = m.ralt || (m.lalt && c);
    Modifiers {
        lshift: s,
        rshift: false,
        lctrl: c,
        rctrl: false,
        numlock: m.numlock,
        capslock: m.capslock,
        lalt: false,
        ralt: g,
        rctrl2: false,
    }
}

fn is_numpad(k: KeyCode) -> bool {
    matches!(
        k,
        Numpad0 | Numpad1 | Numpad2 | Numpad3 | Numpad4 | Numpad5 | Numpad6 | Numpad7 | Numpad8
            | Numpad9 | NumpadPeriod | NumpadAdd | NumpadSubtract | NumpadMultiply | NumpadDivide
            | NumpadEnter | NumpadLock
    )
}

fn check(name: &str, layout: &dyn KeyboardLayout) -> Vec<String> {
    let mut bad = Vec::new();
    for mode in [HandleControl::Ignore, HandleControl::MapLettersToUnicode] {
        for &key in KEYS.iter() {
            for bits in 0..512u16 {
                let m = mods(bits);
                let got = layout.map_keycode(key, &m, mode);
                let want = layout.map_keycode(key, &canon(&m), mode);
                if got != want && bad.len() < 5 {
                    bad.push(format!(
                        "{name} {key:?} {mode:?} {m:?}: {got:?}, but the canonical state of the same class gives {want:?}"
                    ));
                }
                if !is_numpad(key) {
                    let mut m2 = m.clone();
                    m2.numlock = !m2.numlock;
                    let other = layout.map_keycode(key, &m2, mode);
                    if got != other && bad.len() < 5 {
                        bad.push(format!("{name} {key:?} depends on NumLock"));
                    }
                }
            }
        }
    }
    bad
}

#[test]
fn c11_layouts_see_only_the_five_modifier_facts() {
    let mut bad = Vec::new();
    bad.extend(check("Us104Key", &Us104Key));
    bad.extend(check("Uk105Key", &Uk105Key));
    bad.extend(check("Jis109Key", &Jis109Key));
    bad.extend(check("Azerty", &Azerty));
    bad.extend(check("Colemak", &Colemak));
    bad.extend(check("De105Key", &De105Key));
    bad.extend(check("No105Key", &No105Key));
    bad.extend(check("FiSe105Key", &FiSe105Key));
    bad.extend(check("Dvorak104Key", &Dvorak104Key));
    bad.extend(check("DVP104Key", &DVP104Key));
    assert!(bad.is_empty(), "C11 violated:\n{}", bad.join("\n"));
}

#[test]
fn c11_predicates() {
    for bits in 0..512u16 {
        let m = mods(bits);
        assert_eq!(m.is_shifted(), m.lshift || m.rshift);
        assert_eq!(m.is_ctrl(), m.lctrl || m.rctrl);
        assert_eq!(m.is_alt(), m.lalt || m.ralt);
        assert_eq!(m.is_altgr(), m.ralt || (m.lalt && (m.lctrl || m.rctrl)));
        assert_eq!(m.is_caps(), (m.lshift || m.rshift) ^ m.capslock);
    }
}

/// The same thing end to end: hold the left Alt key, then press A.
#[test]
fn c11_lone_left_alt_does_not_change_what_is_typed() {
    let mut kb = Keyboard::new(ScancodeSet2::new(), Us104Key, HandleControl::Ignore);
    let plain = kb.process_keyevent(KeyEvent::new(A, KeyState::Down));
    kb.process_keyevent(KeyEvent::new(A, KeyState::Up));
    kb.process_keyevent(KeyEvent::new(LAlt, KeyState::Down));
    let with_alt = kb.process_keyevent(KeyEvent::new(A, KeyState::Down));
    assert_eq!(plain, Some(DecodedKey::Unicode('a')));
    assert_eq!(with_alt, plain, "left Alt alone changed what the A key types");
}
