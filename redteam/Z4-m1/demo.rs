//! m1 demo: German AltGr+Q must type '@' (property C03 names this very cell:
//! "German AltGr+Q is '@', never something else").
//! Public API only.  Passes on the unchanged crate, fails with m1 applied.
use pc_keyboard::layouts::{AnyLayout, De105Key};
use pc_keyboard::{
    DecodedKey, EventDecoder, HandleControl, KeyCode, KeyEvent, KeyState, Keyboard, ScancodeSet2,
};

fn down(code: KeyCode) -> KeyEvent {
    KeyEvent::new(code, KeyState::Down)
}

#[test]
fn german_altgr_q_is_at_sign_direct() {
    for mode in [HandleControl::Ignore, HandleControl::MapLettersToUnicode] {
        let mut dec = EventDecoder::new(De105Key, mode);
        assert_eq!(
            dec.process_keyevent(down(KeyCode::RAltGr)),
            Some(DecodedKey::RawKey(KeyCode::RAltGr))
        );
        assert_eq!(
            dec.process_keyevent(down(KeyCode::Q)),
            Some(DecodedKey::Unicode('@')),
            "German AltGr+Q must be '@'"
        );
    }
}

#[test]
fn german_altgr_q_is_at_sign_through_anylayout() {
    let mut dec = EventDecoder::new(AnyLayout::De105Key(De105Key), HandleControl::Ignore);
    dec.process_keyevent(down(KeyCode::RAltGr));
    assert_eq!(
        dec.process_keyevent(down(KeyCode::Q)),
        Some(DecodedKey::Unicode('@'))
    );
}

#[test]
fn german_altgr_q_is_at_sign_from_scancodes() {
    // Set 2: E0 11 = right Alt (AltGr) make, 15 = Q make
    let mut kb = Keyboard::new(ScancodeSet2::new(), De105Key, HandleControl::Ignore);
    let mut out = None;
    for byte in [0xE0u8, 0x11, 0x15] {
        if let Ok(Some(ev)) = kb.add_byte(byte) {
            out = kb.process_keyevent(ev);
        }
    }
    assert_eq!(out, Some(DecodedKey::Unicode('@')));
}

#[test]
fn german_at_sign_is_on_a_key_a_german_keyboard_has() {
    // The 48 character keys of a German 105-key board.  '@' has to be reachable on one of
    // them at the plain, Shift or AltGr level (C12: "fully usable whichever layout is selected").
    use KeyCode::*;
    let keys = [
        Oem8, Key1, Key2, Key3, Key4, Key5, Key6, Key7, Key8, Key9, Key0, OemMinus, OemPlus, Q, W,
        E, R, T, Y, U, I, O, P, Oem4, Oem6, Oem7, A, S, D, F, G, H, J, K, L, Oem1, Oem3, Oem5, Z,
        X, C, V, B, N, M, OemComma, OemPeriod, Oem2,
    ];
    let mut found = false;
    for key in keys {
        for modifier in [None, Some(LShift), Some(RAltGr)] {
            let mut dec = EventDecoder::new(De105Key, HandleControl::Ignore);
            if let Some(m) = modifier {
                dec.process_keyevent(down(m));
            }
            if dec.process_keyevent(down(key)) == Some(DecodedKey::Unicode('@')) {
                found = true;
            }
        }
    }
    assert!(found, "'@' cannot be typed on any key of the German main block");
}
