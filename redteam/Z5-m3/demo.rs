// C11: left and right Shift are interchangeable; holding both equals holding one.
use pc_keyboard::layouts::{AnyLayout, No105Key};
use pc_keyboard::{
    DecodedKey, EventDecoder, HandleControl, KeyCode, KeyEvent, KeyState, KeyboardLayout, Modifiers,
};

fn mods(lshift: bool, rshift: bool) -> Modifiers {
    Modifiers {
        lshift,
        rshift,
        lctrl: false,
        rctrl: false,
        numlock: true,
        capslock: false,
        lalt: false,
        ralt: false,
        rctrl2: false,
    }
}

#[test]
fn shift_keys_are_interchangeable_direct() {
    for mode in [HandleControl::Ignore, HandleControl::MapLettersToUnicode] {
        for key in [KeyCode::Oem8, KeyCode::Key1, KeyCode::Key2, KeyCode::A] {
            let left = No105Key.map_keycode(key, &mods(true, false), mode);
            let right = No105Key.map_keycode(key, &mods(false, true), mode);
            let both = No105Key.map_keycode(key, &mods(true, true), mode);
            assert_eq!(left, right, "{:?}", key);
            assert_eq!(left, both, "{:?}", key);
            let any = AnyLayout::No105Key(No105Key);
            assert_eq!(any.map_keycode(key, &mods(false, true), mode), left, "{:?}", key);
        }
    }
}

#[test]
fn right_shift_types_the_shift_level() {
    let mut dec = EventDecoder::new(No105Key, HandleControl::Ignore);
    dec.process_keyevent(KeyEvent::new(KeyCode::RShift, KeyState::Down));
    assert_eq!(
        dec.process_keyevent(KeyEvent::new(KeyCode::Key1, KeyState::Down)),
        Some(DecodedKey::Unicode('!'))
    );
    assert_eq!(
        dec.process_keyevent(KeyEvent::new(KeyCode::Oem8, KeyState::Down)),
        Some(DecodedKey::Unicode('§'))
    );
}
