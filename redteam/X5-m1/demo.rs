//! Demonstration for mutant m1 (property C16).
//!
//! C16: system keys (SysRq among them) decode to the raw key code of exactly
//! the key pressed, on every layout, in every modifier state - they never
//! masquerade as another key.  Public API only.

use pc_keyboard::layouts::{
    AnyLayout, Azerty, Colemak, DVP104Key, De105Key, Dvorak104Key, FiSe105Key, Jis109Key,
    No105Key, Uk105Key, Us104Key,
};
use pc_keyboard::{
    DecodedKey, EventDecoder, HandleControl, KeyCode, KeyEvent, KeyState, KeyboardLayout,
    Keyboard, ScancodeSet2,
};

fn press<L: KeyboardLayout>(layout: L, mode: HandleControl, code: KeyCode) -> Option<DecodedKey> {
    let mut dec = EventDecoder::new(layout, mode);
    dec.process_keyevent(KeyEvent::new(code, KeyState::Down))
}

fn check<L: KeyboardLayout>(name: &str, mk: impl Fn() -> L) {
    for mode in [HandleControl::Ignore, HandleControl::MapLettersToUnicode] {
        for code in [
            KeyCode::SysRq,
            KeyCode::PrintScreen,
            KeyCode::PauseBreak,
            KeyCode::ScrollLock,
            KeyCode::F1,
            KeyCode::Apps,
        ] {
            assert_eq!(
                press(mk(), mode, code),
                Some(DecodedKey::RawKey(code)),
                "{name}: pressing {code:?} must decode to RawKey({code:?})"
            );
        }
    }
}

#[test]
fn character_less_keys_decode_to_their_own_raw_key() {
    check("Us104Key", || Us104Key);
    check("Uk105Key", || Uk105Key);
    check("Jis109Key", || Jis109Key);
    check("Azerty", || Azerty);
    check("Colemak", || Colemak);
    check("De105Key", || De105Key);
    check("No105Key", || No105Key);
    check("FiSe105Key", || FiSe105Key);
    check("Dvorak104Key", || Dvorak104Key);
    check("DVP104Key", || DVP104Key);
    check("AnyLayout::Us104Key", || AnyLayout::Us104Key(Us104Key));
    static ANY: AnyLayout = AnyLayout::De105Key(De105Key);
    check("&AnyLayout::De105Key", || &ANY);
}

#[test]
fn sysrq_through_keyboard() {
    let mut kb = Keyboard::new(ScancodeSet2::new(), Uk105Key, HandleControl::Ignore);
    // Alt held, then the SysRq key event (as an application injecting events does)
    assert_eq!(
        kb.process_keyevent(KeyEvent::new(KeyCode::LAlt, KeyState::Down)),
        Some(DecodedKey::RawKey(KeyCode::LAlt))
    );
    assert_eq!(
        kb.process_keyevent(KeyEvent::new(KeyCode::SysRq, KeyState::Down)),
        Some(DecodedKey::RawKey(KeyCode::SysRq))
    );
}
