//! m2 demo: UK Shift+3 must type a pound sign (property C03), directly,
//! through both AnyLayout wrappers and end-to-end from scancodes.
use pc_keyboard::layouts::{AnyLayout, Uk105Key};
use pc_keyboard::{
    DecodedKey, HandleControl, KeyCode, KeyState, Keyboard, KeyboardLayout, Modifiers,
    ScancodeSet2,
};

fn mods() -> Modifiers {
    Modifiers {
        lshift: false,
        rshift: false,
        lctrl: false,
        rctrl: false,
        numlock: true,
        capslock: false,
        lalt: false,
        ralt: false,
        rctrl2: false,
    }
}

#[test]
fn uk_shift_3_is_pound_direct() {
    for mode in [HandleControl::Ignore, HandleControl::MapLettersToUnicode] {
        let mut m = mods();
        m.lshift = true;
        assert_eq!(
            Uk105Key.map_keycode(KeyCode::Key3, &m, mode),
            DecodedKey::Unicode('£')
        );
        let mut m = mods();
        m.rshift = true;
        assert_eq!(
            Uk105Key.map_keycode(KeyCode::Key3, &m, mode),
            DecodedKey::Unicode('£')
        );
        let any = AnyLayout::Uk105Key(Uk105Key);
        assert_eq!(
            (&any).map_keycode(KeyCode::Key3, &m, mode),
            DecodedKey::Unicode('£')
        );
        assert_eq!(
            any.map_keycode(KeyCode::Key3, &m, mode),
            DecodedKey::Unicode('£')
        );
    }
}

#[test]
fn uk_shift_3_is_pound_from_scancodes() {
    let mut kb = Keyboard::new(ScancodeSet2::new(), Uk105Key, HandleControl::Ignore);
    // LShift make (0x12), then '3' make (0x26)
    let ev = kb.add_byte(0x12).unwrap().unwrap();
    assert_eq!(ev.state, KeyState::Down);
    kb.process_keyevent(ev);
    let ev = kb.add_byte(0x26).unwrap().unwrap();
    assert_eq!(ev.code, KeyCode::Key3);
    assert_eq!(kb.process_keyevent(ev), Some(DecodedKey::Unicode('£')));
}
