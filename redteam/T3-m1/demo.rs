// Demonstration for mutant m1 (property C04, initial-state clause).
//
// C04: "each momentary modifier (... left Alt ...) is reported held iff its most recent
// event was a press" - with an empty history no modifier has had a press, so none may be
// reported held; only NumLock starts on.
use pc_keyboard::{
    layouts, DecodedKey, HandleControl, KeyCode, KeyEvent, KeyState, Keyboard, Modifiers,
    ScancodeSet1, ScancodeSet2,
};

fn initial() -> Modifiers {
    Modifiers {
        lshift: false,
        rshift: false,
        lctrl: false,
        rctrl: false,
        numlock: true,
        capslock: false,
        lalt: false,
        ralt: false,
        rctrl2: false,
    }
}

#[test]
fn fresh_keyboard_reports_no_modifier_held() {
    let k = Keyboard::new(ScancodeSet2::new(), layouts::Us104Key, HandleControl::Ignore);
    assert_eq!(k.get_modifiers(), &initial());
    let k = Keyboard::new(
        ScancodeSet1::new(),
        layouts::AnyLayout::De105Key(layouts::De105Key),
        HandleControl::MapLettersToUnicode,
    );
    assert_eq!(k.get_modifiers(), &initial());
}

#[test]
fn left_alt_is_held_only_after_its_press() {
    let mut k = Keyboard::new(ScancodeSet2::new(), layouts::Us104Key, HandleControl::Ignore);
    // an unrelated key must not change (or reveal) any modifier
    assert_eq!(
        k.process_keyevent(KeyEvent::new(KeyCode::A, KeyState::Down)),
        Some(DecodedKey::Unicode('a'))
    );
    assert!(!k.get_modifiers().lalt);
    assert!(!k.get_modifiers().is_alt());
    k.process_keyevent(KeyEvent::new(KeyCode::LAlt, KeyState::Down));
    assert!(k.get_modifiers().lalt);
    k.process_keyevent(KeyEvent::new(KeyCode::LAlt, KeyState::Up));
    assert!(!k.get_modifiers().lalt);
}

#[test]
fn ctrl_alone_is_not_altgr_on_a_fresh_keyboard() {
    // lalt && ctrl is treated as AltGr by the layouts: with a phantom LAlt, plain
    // Ctrl turns into AltGr (visible on the German layout: Ctrl+Q must not type '@').
    let mut k = Keyboard::new(ScancodeSet2::new(), layouts::De105Key, HandleControl::Ignore);
    k.process_keyevent(KeyEvent::new(KeyCode::LControl, KeyState::Down));
    assert!(!k.get_modifiers().is_altgr());
    assert_eq!(
        k.process_keyevent(KeyEvent::new(KeyCode::Q, KeyState::Down)),
        Some(DecodedKey::Unicode('q'))
    );
}
