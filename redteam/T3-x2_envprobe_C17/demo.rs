// Demonstration for extra x2 (property C17).
//
// C17: "the runtime-selectable wrapper holding that layout - used by value or by
// reference - returns exactly what the wrapped layout returns for every key, modifier
// set and Ctrl mode."
use pc_keyboard::layouts::{AnyLayout, Uk105Key};
use pc_keyboard::{
    DecodedKey, EventDecoder, HandleControl, KeyCode, KeyEvent, KeyState, KeyboardLayout,
    Modifiers,
};

fn mods(bits: u16) -> Modifiers {
    Modifiers {
        lshift: bits & 1 != 0,
        rshift: bits & 2 != 0,
        lctrl: bits & 4 != 0,
        rctrl: bits & 8 != 0,
        numlock: bits & 16 != 0,
        capslock: bits & 32 != 0,
        lalt: bits & 64 != 0,
        ralt: bits & 128 != 0,
        rctrl2: bits & 256 != 0,
    }
}

// Keys on which the UK layout is known to differ from the US one, plus a few others.
const KEYS: [KeyCode; 10] = [
    KeyCode::Key2,
    KeyCode::Key3,
    KeyCode::Oem3,
    KeyCode::Oem5,
    KeyCode::Oem7,
    KeyCode::Oem8,
    KeyCode::Key4,
    KeyCode::A,
    KeyCode::Numpad1,
    KeyCode::Spacebar,
];

#[test]
fn uk_wrapper_by_value_equals_uk() {
    let wrapper = AnyLayout::Uk105Key(Uk105Key);
    for bits in 0..512u16 {
        let m = mods(bits);
        for key in KEYS {
            for mode in [HandleControl::Ignore, HandleControl::MapLettersToUnicode] {
                assert_eq!(
                    wrapper.map_keycode(key, &m, mode),
                    Uk105Key.map_keycode(key, &m, mode),
                    "{:?} {:?}",
                    key,
                    m
                );
            }
        }
    }
}

#[test]
fn uk_wrapper_by_reference_equals_uk() {
    let wrapper = AnyLayout::Uk105Key(Uk105Key);
    let by_ref: &AnyLayout = &wrapper;
    for bits in 0..512u16 {
        let m = mods(bits);
        for key in KEYS {
            for mode in [HandleControl::Ignore, HandleControl::MapLettersToUnicode] {
                assert_eq!(
                    <&AnyLayout as KeyboardLayout>::map_keycode(&by_ref, key, &m, mode),
                    Uk105Key.map_keycode(key, &m, mode),
                    "{:?} {:?}",
                    key,
                    m
                );
            }
        }
    }
}

#[test]
fn uk_wrapper_by_reference_in_a_decoder() {
    let wrapper = AnyLayout::Uk105Key(Uk105Key);
    let mut d = EventDecoder::new(&wrapper, HandleControl::Ignore);
    d.process_keyevent(KeyEvent::new(KeyCode::LShift, KeyState::Down));
    // Shift+2 is '"' on a UK keyboard ('@' on a US one)
    assert_eq!(
        d.process_keyevent(KeyEvent::new(KeyCode::Key2, KeyState::Down)),
        Some(DecodedKey::Unicode('"'))
    );
}
