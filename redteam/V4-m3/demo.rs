//! m3 demo (property C09): with Ctrl-letter mapping enabled, Ctrl + the key that the
//! layout types as letter X yields U+0001..U+001A for X - the layout's letter, not the
//! key position.  Checked for all ten layouts, every key, both Ctrl keys, any Shift/CapsLock.
use pc_keyboard::layouts::*;
use pc_keyboard::{DecodedKey, HandleControl, KeyCode, KeyboardLayout, Modifiers};

const LETTER_KEYS: [KeyCode; 30] = [
    KeyCode::A, KeyCode::B, KeyCode::C, KeyCode::D, KeyCode::E, KeyCode::F, KeyCode::G,
    KeyCode::H, KeyCode::I, KeyCode::J, KeyCode::K, KeyCode::L, KeyCode::M, KeyCode::N,
    KeyCode::O, KeyCode::P, KeyCode::Q, KeyCode::R, KeyCode::S, KeyCode::T, KeyCode::U,
    KeyCode::V, KeyCode::W, KeyCode::X, KeyCode::Y, KeyCode::Z,
    // keys that carry letters on some layouts (AZERTY m, Dvorak s/z/w/v ...)
    KeyCode::Oem1, KeyCode::OemComma, KeyCode::OemPeriod, KeyCode::Oem2,
];

fn mods() -> Modifiers {
    Modifiers {
        lshift: false, rshift: false, lctrl: false, rctrl: false, numlock: true,
        capslock: false, lalt: false, ralt: false, rctrl2: false,
    }
}

fn check(name: &str, layout: &dyn KeyboardLayout) {
    for key in LETTER_KEYS {
        let base = layout.map_keycode(key, &mods(), HandleControl::MapLettersToUnicode);
        let letter = match base {
            DecodedKey::Unicode(c) if c.is_ascii_lowercase() => c,
            _ => continue,
        };
        let want = DecodedKey::Unicode(((letter as u8) - 0x60) as char);
        for bits in 0..16u8 {
            for left in [true, false] {
                let mut m = mods();
                m.lctrl = left;
                m.rctrl = !left;
                m.lshift = bits & 1 != 0;
                m.rshift = bits & 2 != 0;
                m.capslock = bits & 4 != 0;
                m.numlock = bits & 8 != 0;
                let got = layout.map_keycode(key, &m, HandleControl::MapLettersToUnicode);
                assert_eq!(got, want, "{name}: Ctrl+{key:?} (types {letter:?}) with {m:?}");
            }
        }
    }
}

#[test]
fn ctrl_letter_follows_the_layouts_letter() {
    check("Us104Key", &Us104Key);
    check("Uk105Key", &Uk105Key);
    check("Jis109Key", &Jis109Key);
    check("Azerty", &Azerty);
    check("Colemak", &Colemak);
    check("Dvorak104Key", &Dvorak104Key);
    check("DVP104Key", &DVP104Key);
    check("De105Key", &De105Key);
    check("No105Key", &No105Key);
    check("FiSe105Key", &FiSe105Key);
    check("AnyLayout::De105Key", &AnyLayout::De105Key(De105Key));
}
