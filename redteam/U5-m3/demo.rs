//! C15: on every layout and in every modifier state the ten numpad digit keys
//! type their own digit while NumLock is on.
use pc_keyboard::layouts::*;
use pc_keyboard::{DecodedKey, HandleControl, KeyCode, KeyboardLayout, Modifiers};

fn mods(bits: u16) -> Modifiers {
    Modifiers {
        lshift: bits & 1 != 0,
        rshift: bits & 2 != 0,
        lctrl: bits & 4 != 0,
        rctrl: bits & 8 != 0,
        numlock: bits & 16 != 0,
        capslock: bits & 32 != 0,
        lalt: bits & 64 != 0,
        ralt: bits & 128 != 0,
        rctrl2: bits & 256 != 0,
    }
}

const DIGITS: [(KeyCode, char); 10] = [
    (KeyCode::Numpad0, '0'),
    (KeyCode::Numpad1, '1'),
    (KeyCode::Numpad2, '2'),
    (KeyCode::Numpad3, '3'),
    (KeyCode::Numpad4, '4'),
    (KeyCode::Numpad5, '5'),
    (KeyCode::Numpad6, '6'),
    (KeyCode::Numpad7, '7'),
    (KeyCode::Numpad8, '8'),
    (KeyCode::Numpad9, '9'),
];

fn check(name: &str, layout: &dyn KeyboardLayout) {
    for bits in 0..512u16 {
        let m = mods(bits);
        if !m.numlock {
            continue;
        }
        for hc in [HandleControl::Ignore, HandleControl::MapLettersToUnicode] {
            for (key, digit) in DIGITS {
                assert_eq!(
                    layout.map_keycode(key, &m, hc),
                    DecodedKey::Unicode(digit),
                    "{name}: {key:?} with NumLock on, modifiers {m:?}"
                );
            }
        }
    }
}

#[test]
fn numpad_digits_type_their_digit_with_numlock_on() {
    check("Us104Key", &Us104Key);
    check("Uk105Key", &Uk105Key);
    check("Jis109Key", &Jis109Key);
    check("De105Key", &De105Key);
    check("No105Key", &No105Key);
    check("FiSe105Key", &FiSe105Key);
    check("Dvorak104Key", &Dvorak104Key);
    check("DVP104Key", &DVP104Key);
    check("Azerty", &Azerty);
    check("Colemak", &Colemak);
}
