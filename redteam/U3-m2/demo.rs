//! Demonstration for mutant m2 (property C17).
//!
//! Public API only.  Run with the sandbox's ordinary `cargo test --offline
//! --test demo`, i.e. with the DEFAULT (stable 1.95) toolchain - the defect is
//! present in every build made by a compiler whose standard library does not
//! yet have a stable `u16::isolate_lowest_one`.
//!
//! C17: "For each of the ten layouts, the runtime-selectable wrapper holding
//! that layout - used by value or by reference - returns exactly what the
//! wrapped layout returns for every key, modifier set and Ctrl mode."

use pc_keyboard::layouts::{
    AnyLayout, Azerty, Colemak, DVP104Key, De105Key, Dvorak104Key, FiSe105Key, Jis109Key,
    No105Key, Uk105Key, Us104Key,
};
use pc_keyboard::{
    DecodedKey, EventDecoder, HandleControl, KeyCode, KeyEvent, KeyState, KeyboardLayout,
    Modifiers, ScancodeSet, ScancodeSet1, ScancodeSet2,
};
use std::collections::BTreeSet;

/// Every key code either scancode set can produce (public API only).
fn all_keys() -> Vec<KeyCode> {
    let mut keys = BTreeSet::new();
    let prefixes: [&[u8]; 3] = [&[], &[0xE0], &[0xE1]];
    for prefix in prefixes {
        for byte in 0..=255u8 {
            let mut s1 = ScancodeSet1::new();
            let mut s2 = ScancodeSet2::new();
            for p in prefix {
                let _ = s1.advance_state(*p);
                let _ = s2.advance_state(*p);
            }
            if let Ok(Some(ev)) = s1.advance_state(byte) {
                keys.insert(ev.code);
            }
            if let Ok(Some(ev)) = s2.advance_state(byte) {
                keys.insert(ev.code);
            }
        }
    }
    assert!(keys.len() >= 100, "only {} keys found", keys.len());
    keys.into_iter().collect()
}

fn all_modifiers() -> Vec<Modifiers> {
    (0..512u32)
        .map(|n| Modifiers {
            lshift: n & 1 != 0,
            rshift: n & 2 != 0,
            lctrl: n & 4 != 0,
            rctrl: n & 8 != 0,
            numlock: n & 16 != 0,
            capslock: n & 32 != 0,
            lalt: n & 64 != 0,
            ralt: n & 128 != 0,
            rctrl2: n & 256 != 0,
        })
        .collect()
}

/// Calls `map_keycode` through the generic bound, exactly as `EventDecoder<L>`
/// and `Keyboard<L, S>` do; with `L = &AnyLayout` this is the by-reference form.
fn via<L: KeyboardLayout>(l: &L, k: KeyCode, m: &Modifiers, h: HandleControl) -> DecodedKey {
    l.map_keycode(k, m, h)
}

fn check<T: KeyboardLayout>(name: &str, wrapper: AnyLayout, wrapped: T) {
    let keys = all_keys();
    let mods = all_modifiers();
    let mut bad = 0usize;
    let mut first = None;
    for &k in &keys {
        for m in &mods {
            for h in [HandleControl::Ignore, HandleControl::MapLettersToUnicode] {
                let want = wrapped.map_keycode(k, m, h);
                let by_value = via::<AnyLayout>(&wrapper, k, m, h);
                let by_ref = via::<&AnyLayout>(&&wrapper, k, m, h);
                if by_value != want || by_ref != want {
                    bad += 1;
                    first.get_or_insert((k, m.clone(), h, want, by_value, by_ref));
                }
            }
        }
    }
    assert!(
        bad == 0,
        "AnyLayout::{name}: {bad} cells differ from the wrapped layout; first (key, modifiers, mode, wrapped, by value, by reference) = {first:?}"
    );
}

#[test]
fn dvp104() {
    check("DVP104Key", AnyLayout::DVP104Key(DVP104Key), DVP104Key);
}
#[test]
fn dvorak104() {
    check("Dvorak104Key", AnyLayout::Dvorak104Key(Dvorak104Key), Dvorak104Key);
}
#[test]
fn us104() {
    check("Us104Key", AnyLayout::Us104Key(Us104Key), Us104Key);
}
#[test]
fn uk105() {
    check("Uk105Key", AnyLayout::Uk105Key(Uk105Key), Uk105Key);
}
#[test]
fn jis109() {
    check("Jis109Key", AnyLayout::Jis109Key(Jis109Key), Jis109Key);
}
#[test]
fn azerty() {
    check("Azerty", AnyLayout::Azerty(Azerty), Azerty);
}
#[test]
fn colemak() {
    check("Colemak", AnyLayout::Colemak(Colemak), Colemak);
}
#[test]
fn de105() {
    check("De105Key", AnyLayout::De105Key(De105Key), De105Key);
}
#[test]
fn no105() {
    check("No105Key", AnyLayout::No105Key(No105Key), No105Key);
}
#[test]
fn fi_se105() {
    check("FiSe105Key", AnyLayout::FiSe105Key(FiSe105Key), FiSe105Key);
}

/// The same thing seen by an application: a decoder that borrows a
/// runtime-selected layout.
#[test]
fn borrowed_norwegian_layout_types_norwegian() {
    static LAYOUT: AnyLayout = AnyLayout::No105Key(No105Key);
    let mut borrowed = EventDecoder::new(&LAYOUT, HandleControl::Ignore);
    let mut owned = EventDecoder::new(No105Key, HandleControl::Ignore);
    for code in [KeyCode::Oem4, KeyCode::Oem1, KeyCode::Oem3, KeyCode::OemMinus, KeyCode::Q] {
        let ev = KeyEvent::new(code, KeyState::Down);
        assert_eq!(
            borrowed.process_keyevent(ev.clone()),
            owned.process_keyevent(ev),
            "{code:?}"
        );
    }
}
