//! m1 demo: UK Shift+3 must type the pound sign (property C03), directly,
//! through both AnyLayout wrappers and end-to-end from Set 2 scancodes.
use pc_keyboard::layouts::{AnyLayout, Uk105Key};
use pc_keyboard::{
    DecodedKey, HandleControl, KeyCode, KeyState, Keyboard, KeyboardLayout, Modifiers,
    ScancodeSet2,
};

fn mods(lshift: bool, rshift: bool) -> Modifiers {
    Modifiers {
        lshift,
        rshift,
        lctrl: false,
        rctrl: false,
        numlock: true,
        capslock: false,
        lalt: false,
        ralt: false,
        rctrl2: false,
    }
}

#[test]
fn uk_shift_3_is_pound_direct() {
    for hc in [HandleControl::Ignore, HandleControl::MapLettersToUnicode] {
        for (l, r) in [(true, false), (false, true), (true, true)] {
            assert_eq!(
                Uk105Key.map_keycode(KeyCode::Key3, &mods(l, r), hc),
                DecodedKey::Unicode('\u{00A3}')
            );
            let any = AnyLayout::Uk105Key(Uk105Key);
            assert_eq!(
                any.map_keycode(KeyCode::Key3, &mods(l, r), hc),
                DecodedKey::Unicode('\u{00A3}')
            );
            assert_eq!(
                (&any).map_keycode(KeyCode::Key3, &mods(l, r), hc),
                DecodedKey::Unicode('\u{00A3}')
            );
        }
    }
}

#[test]
fn uk_shift_3_is_pound_end_to_end() {
    let mut kb = Keyboard::new(ScancodeSet2::new(), Uk105Key, HandleControl::Ignore);
    // LShift make = 0x12, '3' make = 0x26 in Set 2
    let ev = kb.add_byte(0x12).unwrap().unwrap();
    assert_eq!(ev.state, KeyState::Down);
    kb.process_keyevent(ev);
    let ev = kb.add_byte(0x26).unwrap().unwrap();
    assert_eq!(ev.code, KeyCode::Key3);
    assert_eq!(
        kb.process_keyevent(ev),
        Some(DecodedKey::Unicode('\u{00A3}'))
    );
}
