//! Demonstration for mutant m3 (property C16).
//!
//! C16: function, navigation, modifier, lock, media, system and status keys
//! decode to the raw key code of exactly the key pressed, on every layout and in
//! every modifier state; whenever any key decodes to a raw key code it is the
//! pressed key's own code (or the numpad navigation alias).  Public API only.

use pc_keyboard::layouts::{
    AnyLayout, Azerty, Colemak, DVP104Key, De105Key, Dvorak104Key, FiSe105Key, Jis109Key,
    No105Key, Uk105Key, Us104Key,
};
use pc_keyboard::{
    DecodedKey, EventDecoder, HandleControl, KeyCode, KeyEvent, KeyState, KeyboardLayout,
    Modifiers,
};

const CHARACTER_LESS: [KeyCode; 20] = [
    KeyCode::F1,
    KeyCode::F12,
    KeyCode::PrintScreen,
    KeyCode::SysRq,
    KeyCode::ScrollLock,
    KeyCode::PauseBreak,
    KeyCode::Insert,
    KeyCode::Home,
    KeyCode::ArrowUp,
    KeyCode::LWin,
    KeyCode::Apps,
    KeyCode::PrevTrack,
    KeyCode::NextTrack,
    KeyCode::Mute,
    KeyCode::Calculator,
    KeyCode::Play,
    KeyCode::Stop,
    KeyCode::VolumeDown,
    KeyCode::VolumeUp,
    KeyCode::WWWHome,
];

fn mods(bits: u16) -> Modifiers {
    Modifiers {
        lshift: bits & 1 != 0,
        rshift: bits & 2 != 0,
        lctrl: bits & 4 != 0,
        rctrl: bits & 8 != 0,
        numlock: bits & 16 != 0,
        capslock: bits & 32 != 0,
        lalt: bits & 64 != 0,
        ralt: bits & 128 != 0,
        rctrl2: bits & 256 != 0,
    }
}

fn check<L: KeyboardLayout>(name: &str, layout: &L) {
    for bits in 0..512u16 {
        let m = mods(bits);
        for mode in [HandleControl::Ignore, HandleControl::MapLettersToUnicode] {
            for key in CHARACTER_LESS {
                assert_eq!(
                    layout.map_keycode(key, &m, mode),
                    DecodedKey::RawKey(key),
                    "{name} {key:?} {m:?} {mode:?}"
                );
            }
        }
    }
}

#[test]
fn character_less_keys_are_raw_everywhere() {
    check("Us104Key", &Us104Key);
    check("Uk105Key", &Uk105Key);
    check("Jis109Key", &Jis109Key);
    check("De105Key", &De105Key);
    check("No105Key", &No105Key);
    check("FiSe105Key", &FiSe105Key);
    check("Dvorak104Key", &Dvorak104Key);
    check("Azerty", &Azerty);
    check("Colemak", &Colemak);
    check("DVP104Key", &DVP104Key);
    check("AnyLayout::De105Key", &AnyLayout::De105Key(De105Key));
    static ANY: AnyLayout = AnyLayout::Jis109Key(Jis109Key);
    check("&AnyLayout::Jis109Key", &&ANY);
}

#[test]
fn volume_keys_through_the_event_decoder() {
    let mut dec = EventDecoder::new(Uk105Key, HandleControl::MapLettersToUnicode);
    assert_eq!(
        dec.process_keyevent(KeyEvent::new(KeyCode::VolumeUp, KeyState::Down)),
        Some(DecodedKey::RawKey(KeyCode::VolumeUp))
    );
    assert_eq!(
        dec.process_keyevent(KeyEvent::new(KeyCode::NextTrack, KeyState::Down)),
        Some(DecodedKey::RawKey(KeyCode::NextTrack))
    );
}
