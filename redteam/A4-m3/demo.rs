// m3 demo: C03 on the Norwegian layout - the key right of `3` is printed 4 / ¤ / $
// (Shift+4 types the currency sign, AltGr+4 the dollar sign), exactly as on the
// Finnish/Swedish layout.
use pc_keyboard::{
    layouts::{AnyLayout, FiSe105Key, No105Key},
    DecodedKey, HandleControl, KeyCode, KeyboardLayout, Modifiers,
};

fn mods(lshift: bool, rshift: bool, ralt: bool) -> Modifiers {
    Modifiers {
        lshift,
        rshift,
        lctrl: false,
        rctrl: false,
        numlock: true,
        capslock: false,
        lalt: false,
        ralt,
        rctrl2: false,
    }
}

fn check<L: KeyboardLayout>(layout: &L) {
    for mode in [HandleControl::Ignore, HandleControl::MapLettersToUnicode] {
        for (key, base, shift, altgr) in [
            (KeyCode::Key2, '2', '"', '@'),
            (KeyCode::Key3, '3', '#', '£'),
            (KeyCode::Key4, '4', '¤', '$'),
        ] {
            let out = |m: Modifiers| layout.map_keycode(key, &m, mode);
            assert_eq!(out(mods(false, false, false)), DecodedKey::Unicode(base));
            assert_eq!(out(mods(true, false, false)), DecodedKey::Unicode(shift), "{:?} LShift", key);
            assert_eq!(out(mods(false, true, false)), DecodedKey::Unicode(shift), "{:?} RShift", key);
            assert_eq!(out(mods(false, false, true)), DecodedKey::Unicode(altgr), "{:?} AltGr", key);
        }
    }
}

#[test]
fn finnish_digit_row() {
    check(&FiSe105Key);
    check(&AnyLayout::FiSe105Key(FiSe105Key));
}

#[test]
fn norwegian_digit_row() {
    check(&No105Key);
    check(&AnyLayout::No105Key(No105Key));
}
