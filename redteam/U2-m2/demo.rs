//! m2 demo: C05 - every valid frame round-trips its byte, every single-bit
//! corruption of a valid frame is rejected.
use pc_keyboard::{Error, Ps2Decoder};

fn frame(byte: u8) -> u16 {
    let p = if byte.count_ones() % 2 == 0 { 1u16 } else { 0 };
    ((byte as u16) << 1) | (p << 9) | (1 << 10)
}

#[test]
fn every_valid_frame_round_trips() {
    let d = Ps2Decoder::new();
    for byte in 0u8..=255 {
        assert_eq!(d.add_word(frame(byte)), Ok(byte), "byte {:#04x}", byte);
    }
}

#[test]
fn every_single_bit_corruption_is_rejected() {
    let d = Ps2Decoder::new();
    for byte in 0u8..=255 {
        for bit in 0..11 {
            let w = frame(byte) ^ (1 << bit);
            assert!(d.add_word(w).is_err(), "byte {:#04x} bit {}", byte, bit);
        }
    }
}

#[test]
fn bit_serial_agrees() {
    let mut d = Ps2Decoder::new();
    let w = frame(0x14); // Left-Ctrl make code in set 2
    let mut last = Ok(None);
    for i in 0..11 {
        last = d.add_bit(w & (1 << i) != 0);
    }
    assert_eq!(last, Ok(Some(0x14)));
    let _ = Error::ParityError;
}
