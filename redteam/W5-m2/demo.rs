//! C16 demo: the 52 character-less keys decode to their own raw key code on all
//! 30 layout objects (10 layouts, each also via both AnyLayout forms), in every
//! modifier state and both Ctrl modes.  Public API only.

use pc_keyboard::layouts::{
    AnyLayout, Azerty, Colemak, DVP104Key, De105Key, Dvorak104Key, FiSe105Key, Jis109Key,
    No105Key, Uk105Key, Us104Key,
};
use pc_keyboard::{
    DecodedKey, HandleControl, KeyCode, KeyEvent, KeyState, Keyboard, KeyboardLayout, Modifiers,
    ScancodeSet1,
};

const RAW_KEYS: [KeyCode; 52] = {
    use KeyCode::*;
    [
        F1, F2, F3, F4, F5, F6, F7, F8, F9, F10, F11, F12, PrintScreen, SysRq, ScrollLock,
        PauseBreak, Insert, Home, PageUp, NumpadLock, End, PageDown, CapsLock, LShift, RShift,
        ArrowUp, LControl, LWin, LAlt, RAltGr, RWin, Apps, RControl, ArrowLeft, ArrowDown,
        ArrowRight, Oem9, Oem10, Oem11, PrevTrack, NextTrack, Mute, Calculator, Play, Stop,
        VolumeDown, VolumeUp, WWWHome, PowerOnTestOk, TooManyKeys, RControl2, RAlt2,
    ]
};

fn modifiers(bits: u16) -> Modifiers {
    Modifiers {
        lshift: bits & 1 != 0,
        rshift: bits & 2 != 0,
        lctrl: bits & 4 != 0,
        rctrl: bits & 8 != 0,
        numlock: bits & 16 != 0,
        capslock: bits & 32 != 0,
        lalt: bits & 64 != 0,
        ralt: bits & 128 != 0,
        rctrl2: bits & 256 != 0,
    }
}

fn check<L: KeyboardLayout>(name: &str, layout: L) -> usize {
    let mut bad = 0;
    for bits in 0..512u16 {
        let m = modifiers(bits);
        for mode in [HandleControl::Ignore, HandleControl::MapLettersToUnicode] {
            for key in RAW_KEYS {
                let got = layout.map_keycode(key, &m, mode);
                if got != DecodedKey::RawKey(key) {
                    if bad < 2 {
                        eprintln!("{name}: {key:?} with {m:?} ({mode:?}) decodes to {got:?}");
                    }
                    bad += 1;
                }
            }
        }
    }
    bad
}

#[test]
fn characterless_keys_are_raw_on_all_30_layout_objects() {
    let mut bad = 0;
    bad += check("Us104Key", Us104Key);
    bad += check("Uk105Key", Uk105Key);
    bad += check("De105Key", De105Key);
    bad += check("No105Key", No105Key);
    bad += check("FiSe105Key", FiSe105Key);
    bad += check("Jis109Key", Jis109Key);
    bad += check("Dvorak104Key", Dvorak104Key);
    bad += check("DVP104Key", DVP104Key);
    bad += check("Azerty", Azerty);
    bad += check("Colemak", Colemak);
    let any = [
        AnyLayout::Us104Key(Us104Key),
        AnyLayout::Uk105Key(Uk105Key),
        AnyLayout::De105Key(De105Key),
        AnyLayout::No105Key(No105Key),
        AnyLayout::FiSe105Key(FiSe105Key),
        AnyLayout::Jis109Key(Jis109Key),
        AnyLayout::Dvorak104Key(Dvorak104Key),
        AnyLayout::DVP104Key(DVP104Key),
        AnyLayout::Azerty(Azerty),
        AnyLayout::Colemak(Colemak),
    ];
    for (i, a) in any.iter().enumerate() {
        bad += check(&format!("&AnyLayout #{i}"), a);
    }
    for (i, a) in any.into_iter().enumerate() {
        bad += check(&format!("AnyLayout #{i}"), a);
    }
    assert_eq!(bad, 0, "{bad} cells violate C16");
}

#[test]
fn sysrq_from_the_wire_is_sysrq() {
    // Set 1: 0x54 is SysRq (Alt+PrintScreen).
    let mut kb = Keyboard::new(ScancodeSet1::new(), Us104Key, HandleControl::Ignore);
    let ev = kb.add_byte(0x54).unwrap().unwrap();
    assert_eq!(ev, KeyEvent::new(KeyCode::SysRq, KeyState::Down));
    assert_eq!(
        kb.process_keyevent(ev),
        Some(DecodedKey::RawKey(KeyCode::SysRq))
    );
}
