//! pkv-mirdump: a rustc driver that dumps the type-checked program of the
//! crate being compiled (ADTs, trait impls, function signatures, resolved MIR)
//! as one JSON document.  Used through RUSTC_WORKSPACE_WRAPPER; see
//! /verif/DESIGN.md section 3.1.
//!
//! Environment:
//!   PKV_OUT    path of the JSON fact file to write (required to dump)
//!   PKV_CRATE  only dump when the crate name equals this (default: any)
#![feature(rustc_private)]
#![allow(clippy::all)]

extern crate rustc_abi;
extern crate rustc_driver;
extern crate rustc_hir;
extern crate rustc_interface;
extern crate rustc_middle;
extern crate rustc_session;
extern crate rustc_span;

use rustc_driver::{Callbacks, Compilation};
use rustc_hir::def::DefKind;
use rustc_hir::def_id::{DefId, LOCAL_CRATE};
use rustc_interface::interface::Compiler;
use rustc_middle::mir::{
    AggregateKind, BasicBlockData, Body, BorrowKind, Const, Operand, Place, ProjectionElem,
    Rvalue, StatementKind, TerminatorKind,
};
use rustc_middle::ty::{self, GenericArgsRef, Instance, Ty, TyCtxt, TypingEnv};
use rustc_span::Span;

mod json;
use json::J;

struct Dump;

impl Callbacks for Dump {
    fn after_analysis<'tcx>(&mut self, _c: &Compiler, tcx: TyCtxt<'tcx>) -> Compilation {
        let out = match OUT_PATH.get().cloned().flatten() {
            Some(p) => p,
            None => return Compilation::Continue,
        };
        let name = tcx.crate_name(LOCAL_CRATE).to_string();
        if let Some(want) = WANT_CRATE.get().cloned().flatten() {
            if want != name {
                return Compilation::Continue;
            }
        }
        let doc = dump_crate(tcx, &name);
        let mut s = String::new();
        doc.write(&mut s);
        // one write per process
        std::fs::write(&out, s).expect("pkv-mirdump: cannot write PKV_OUT");
        Compilation::Continue
    }
}

static OUT_PATH: std::sync::OnceLock<Option<String>> = std::sync::OnceLock::new();
static WANT_CRATE: std::sync::OnceLock<Option<String>> = std::sync::OnceLock::new();

fn main() {
    // The driver's own parameters must not be visible to the analysed crate's `env!`/`option_env!`:
    // read them, then scrub them (and the wrapper variables) from the process environment.
    let _ = OUT_PATH.set(std::env::var("PKV_OUT").ok());
    let _ = WANT_CRATE.set(std::env::var("PKV_CRATE").ok());
    for k in ["PKV_OUT", "PKV_CRATE", "PKV_DEBUG_KEEP", "RUSTC_WORKSPACE_WRAPPER", "RUSTC_WRAPPER"] {
        unsafe { std::env::remove_var(k) };
    }
    let mut args: Vec<String> = std::env::args().collect();
    // invoked as: <wrapper> <rustc> <args...>
    if args.len() > 1 && (args[1].ends_with("rustc") || args[1].contains("/rustc")) {
        args.remove(1);
    }
    let mut cb = Dump;
    rustc_driver::run_compiler(&args, &mut cb);
}

// ---------------------------------------------------------------------------

struct Cx<'tcx> {
    tcx: TyCtxt<'tcx>,
    seen_adts: std::cell::RefCell<std::collections::BTreeMap<String, DefId>>,
    /// non-local, fully concrete callee instances whose MIR is available (inlinable library code)
    ext_todo: std::cell::RefCell<Vec<Instance<'tcx>>>,
    ext_seen: std::cell::RefCell<std::collections::BTreeSet<String>>,
    ext_generic_todo: std::cell::RefCell<Vec<DefId>>,
    /// Some(..) while dumping a monomorphised library body
    mono: std::cell::Cell<bool>,
    cur_owner: std::cell::Cell<Option<DefId>>,
    fnref_depth: std::cell::Cell<u32>,
}

fn span_json(tcx: TyCtxt<'_>, sp: Span) -> (String, bool) {
    let exp = sp.from_expansion();
    let root = sp.source_callsite();
    let sm = tcx.sess.source_map();
    let lo = sm.lookup_char_pos(root.lo());
    let hi = sm.lookup_char_pos(root.hi());
    let file = match &lo.file.name {
        rustc_span::FileName::Real(r) => match r.local_path() {
            Some(p) => p.display().to_string(),
            None => format!("{:?}", r),
        },
        other => format!("{:?}", other),
    };
    (
        format!("{}:{}:{}-{}:{}", file, lo.line, lo.col.0 + 1, hi.line, hi.col.0 + 1),
        exp,
    )
}

impl<'tcx> Cx<'tcx> {
    fn env(&self, owner: DefId) -> TypingEnv<'tcx> {
        if self.mono.get() {
            TypingEnv::fully_monomorphized()
        } else {
            TypingEnv::post_analysis(self.tcx, owner)
        }
    }

    fn ty(&self, t: Ty<'tcx>) -> J {
        match t.kind() {
            ty::Bool => J::obj(vec![("k", J::s("bool"))]),
            ty::Char => J::obj(vec![("k", J::s("char"))]),
            ty::Int(i) => {
                let bits = i.bit_width().unwrap_or(64);
                J::obj(vec![
                    ("k", J::s("int")),
                    ("name", J::s(i.name_str())),
                    ("bits", J::Int(bits as i128)),
                    ("signed", J::Bool(true)),
                ])
            }
            ty::Uint(u) => {
                let bits = u.bit_width().unwrap_or(64);
                J::obj(vec![
                    ("k", J::s("int")),
                    ("name", J::s(u.name_str())),
                    ("bits", J::Int(bits as i128)),
                    ("signed", J::Bool(false)),
                ])
            }
            ty::Adt(def, args) => {
                if !def.did().is_local() {
                    self.seen_adts
                        .borrow_mut()
                        .insert(self.tcx.def_path_str(def.did()), def.did());
                }
                J::obj(vec![
                ("k", J::s("adt")),
                ("path", J::Str(self.tcx.def_path_str(def.did()))),
                ("local", J::Bool(def.did().is_local())),
                ("args", self.generic_args(args)),
            ])}
            ty::Ref(_, inner, m) => J::obj(vec![
                ("k", J::s("ref")),
                ("mut", J::Bool(m.is_mut())),
                ("to", self.ty(*inner)),
            ]),
            ty::RawPtr(inner, m) => J::obj(vec![
                ("k", J::s("ptr")),
                ("mut", J::Bool(m.is_mut())),
                ("to", self.ty(*inner)),
            ]),
            ty::Tuple(elems) => J::obj(vec![
                ("k", J::s("tuple")),
                ("elems", J::Arr(elems.iter().map(|e| self.ty(e)).collect())),
            ]),
            ty::Param(p) => J::obj(vec![("k", J::s("param")), ("name", J::Str(p.name.to_string()))]),
            ty::Array(elem, len) => J::obj(vec![
                ("k", J::s("array")),
                ("elem", self.ty(*elem)),
                (
                    "len",
                    match len.try_to_target_usize(self.tcx) {
                        Some(n) => J::Int(n as i128),
                        None => J::Null,
                    },
                ),
                (
                    "len_param",
                    match len.kind() {
                        ty::ConstKind::Param(p) => J::Str(p.name.to_string()),
                        _ => J::Null,
                    },
                ),
            ]),
            ty::Slice(elem) => J::obj(vec![("k", J::s("slice")), ("elem", self.ty(*elem))]),
            ty::Closure(did, args) => J::obj(vec![
                ("k", J::s("closure")),
                ("path", J::Str(self.tcx.def_path_str(*did))),
                ("inst", if did.is_local() { J::Null } else { J::Str(self.tcx.def_path_str_with_args(*did, args)) }),
                (
                    "upvars",
                    J::Arr(args.as_closure().upvar_tys().iter().map(|t| self.ty(t)).collect()),
                ),
            ]),
            ty::Str => J::obj(vec![("k", J::s("str"))]),
            ty::Never => J::obj(vec![("k", J::s("never"))]),
            ty::FnDef(did, args) => {
                let mut v = vec![
                    ("k", J::s("fndef")),
                    ("path", J::Str(self.tcx.def_path_str(*did))),
                    ("args", self.generic_args(args)),
                ];
                if let Some(owner) = self.cur_owner.get() {
                    // guard against unbounded recursion through types mentioning themselves
                    let d = self.fnref_depth.get();
                    if d < 3 {
                        self.fnref_depth.set(d + 1);
                        v.push(("fn", self.fn_ref(owner, *did, args)));
                        self.fnref_depth.set(d);
                    }
                }
                J::obj(v)
            }
            ty::FnPtr(..) => J::obj(vec![("k", J::s("fnptr")), ("s", J::Str(format!("{:?}", t)))]),
            ty::Dynamic(preds, ..) => J::obj(vec![
                ("k", J::s("dyn")),
                (
                    "trait",
                    match preds.principal_def_id() {
                        Some(d) => J::Str(self.tcx.def_path_str(d)),
                        None => J::Null,
                    },
                ),
            ]),
            _ => J::obj(vec![("k", J::s("other")), ("s", J::Str(format!("{:?}", t)))]),
        }
    }

    fn generic_args(&self, args: GenericArgsRef<'tcx>) -> J {
        J::Arr(
            args.iter()
                .filter_map(|a| match (a.as_type(), a.as_const()) {
                    (Some(t), _) => Some(self.ty(t)),
                    (_, Some(c)) => Some(self.const_arg(c)),
                    _ => None,
                })
                .collect(),
        )
    }

    /// a const generic argument: its value, the name of the const parameter it forwards, or opaque
    fn const_arg(&self, c: ty::Const<'tcx>) -> J {
        match c.kind() {
            ty::ConstKind::Param(p) => J::obj(vec![("k", J::s("param")), ("name", J::Str(p.name.to_string())), ("const", J::Bool(true))]),
            ty::ConstKind::Value(v) => match v.try_to_leaf() {
                Some(si) => {
                    let size = si.size();
                    J::obj(vec![("k", J::s("cval")), ("int", J::Int(si.to_bits(size) as i128)), ("bytes", J::Int(size.bytes() as i128)), ("ty", self.ty(v.ty))])
                }
                None => J::obj(vec![("k", J::s("other")), ("s", J::Str(format!("{:?}", c)))]),
            },
            _ => J::obj(vec![("k", J::s("other")), ("s", J::Str(format!("{:?}", c)))]),
        }
    }

    fn place(&self, p: &Place<'tcx>) -> J {
        let mut proj = Vec::new();
        for e in p.projection.iter() {
            proj.push(match e {
                ProjectionElem::Deref => J::obj(vec![("k", J::s("deref"))]),
                ProjectionElem::Field(f, t) => J::obj(vec![
                    ("k", J::s("field")),
                    ("i", J::Int(f.as_usize() as i128)),
                    ("ty", self.ty(t)),
                ]),
                ProjectionElem::Downcast(name, v) => J::obj(vec![
                    ("k", J::s("downcast")),
                    ("v", J::Int(v.as_usize() as i128)),
                    (
                        "name",
                        match name {
                            Some(n) => J::Str(n.to_string()),
                            None => J::Null,
                        },
                    ),
                ]),
                ProjectionElem::Index(l) => J::obj(vec![("k", J::s("index")), ("l", J::Int(l.as_usize() as i128))]),
                ProjectionElem::ConstantIndex { offset, min_length, from_end } => J::obj(vec![
                    ("k", J::s("cindex")),
                    ("i", J::Int(offset as i128)),
                    ("min_length", J::Int(min_length as i128)),
                    ("from_end", J::Bool(from_end)),
                ]),
                ProjectionElem::Subslice { from, to, from_end } => J::obj(vec![
                    ("k", J::s("subslice")),
                    ("from", J::Int(from as i128)),
                    ("to", J::Int(to as i128)),
                    ("from_end", J::Bool(from_end)),
                ]),
                other => J::obj(vec![("k", J::s("other")), ("s", J::Str(format!("{:?}", other)))]),
            });
        }
        J::obj(vec![("l", J::Int(p.local.as_usize() as i128)), ("p", J::Arr(proj))])
    }

    fn fn_ref(&self, owner: DefId, did: DefId, args: GenericArgsRef<'tcx>) -> J {
        let tcx = self.tcx;
        let mut v = vec![
            ("path", J::Str(tcx.def_path_str(did))),
            ("path_inst", J::Str(tcx.def_path_str_with_args(did, args))),
            ("crate", J::Str(tcx.crate_name(did.krate).to_string())),
            ("local", J::Bool(did.is_local())),
            ("args", self.generic_args(args)),
        ];
        if matches!(tcx.def_kind(did), DefKind::Fn | DefKind::AssocFn) {
            let sig = tcx.fn_sig(did).skip_binder();
            v.push(("unsafe", J::Bool(!sig.safety().is_safe())));
            v.push(("intrinsic", J::Bool(tcx.intrinsic(did).is_some())));
        }
        if let Some(tr) = tcx.trait_of_assoc(did) {
            // how the trait method takes its receiver: by value (`self`), `&self` or `&mut self`
            if matches!(tcx.def_kind(did), DefKind::AssocFn) {
                let sig = tcx.fn_sig(did).skip_binder().skip_binder();
                if let Some(first) = sig.inputs().first() {
                    let k = match first.kind() {
                        ty::Ref(_, inner, m) if matches!(inner.kind(), ty::Param(p) if p.name.as_str() == "Self") => {
                            if m.is_mut() { "refmut" } else { "ref" }
                        }
                        ty::Param(p) if p.name.as_str() == "Self" => "value",
                        _ => "other",
                    };
                    v.push(("self_kind", J::s(k)));
                }
            }
            v.push(("trait", J::Str(tcx.def_path_str(tr))));
            v.push(("method", J::Str(tcx.opt_item_name(did).map(|n| n.to_string()).unwrap_or_default())));
        }
        if let DefKind::Ctor(of, _) = tcx.def_kind(did) {
            // constructor function of a tuple struct / tuple variant
            let parent = tcx.parent(did);
            match of {
                rustc_hir::def::CtorOf::Variant => {
                    let adt_did = tcx.parent(parent);
                    let adt = tcx.adt_def(adt_did);
                    let vi = adt.variant_index_with_id(parent);
                    v.push((
                        "ctor",
                        J::obj(vec![
                            ("adt", J::Str(tcx.def_path_str(adt_did))),
                            ("variant", J::Int(vi.as_usize() as i128)),
                        ]),
                    ));
                }
                rustc_hir::def::CtorOf::Struct => {
                    v.push((
                        "ctor",
                        J::obj(vec![("adt", J::Str(tcx.def_path_str(parent))), ("variant", J::Int(0))]),
                    ));
                }
            }
        }
        // resolution
        let env = self.env(owner);
        let res = match Instance::try_resolve(tcx, env, did, args) {
            Ok(Some(inst)) => {
                let rd = inst.def_id();
                if !rd.is_local()
                    && matches!(inst.def, ty::InstanceKind::Item(_))
                    && tcx.is_mir_available(rd)
                    && tcx.intrinsic(rd).is_none()
                {
                    let generic = inst.args.iter().any(|a| {
                        use rustc_middle::ty::TypeVisitableExt;
                        a.has_non_region_param()
                    });
                    if generic {
                        // cannot be monomorphised here: keep the polymorphic body, keyed by path
                        let key = format!("generic:{}", tcx.def_path_str(rd));
                        if self.ext_seen.borrow_mut().insert(key) {
                            self.ext_generic_todo.borrow_mut().push(rd);
                        }
                    } else {
                        let key = tcx.def_path_str_with_args(rd, inst.args);
                        if self.ext_seen.borrow_mut().insert(key) {
                            self.ext_todo.borrow_mut().push(inst);
                        }
                    }
                }
                let kind = match inst.def {
                    ty::InstanceKind::Item(_) => "item",
                    ty::InstanceKind::Intrinsic(_) => "intrinsic",
                    ty::InstanceKind::Virtual(..) => "virtual",
                    _ => "shim",
                };
                J::obj(vec![
                    ("path", J::Str(tcx.def_path_str(rd))),
                    ("path_inst", J::Str(tcx.def_path_str_with_args(rd, inst.args))),
                    ("crate", J::Str(tcx.crate_name(rd.krate).to_string())),
                    ("local", J::Bool(rd.is_local())),
                    ("kind", J::s(kind)),
                    ("args", self.generic_args(inst.args)),
                ])
            }
            _ => J::Null,
        };
        v.push(("resolved", res));
        J::obj(v)
    }

    fn constant(&self, owner: DefId, c: &Const<'tcx>) -> J {
        let tcx = self.tcx;
        let t = c.ty();
        let mut v = vec![("k", J::s("const")), ("ty", self.ty(t))];
        if let ty::FnDef(did, args) = t.kind() {
            v.push(("fn", self.fn_ref(owner, *did, args)));
            return J::obj(v);
        }
        if let Const::Ty(_, ct) = c {
            if let ty::ConstKind::Param(p) = ct.kind() {
                v.push(("cparam", J::Str(p.name.to_string())));
                return J::obj(v);
            }
        }
        if let Const::Unevaluated(uv, _) = c {
            if let Some(p) = uv.promoted {
                v.push(("promoted", J::Int(p.as_usize() as i128)));
                v.push(("of", J::Str(tcx.def_path_str(uv.def))));
                return J::obj(v);
            }
            v.push(("named", J::Str(tcx.def_path_str(uv.def))));
            if matches!(tcx.def_kind(uv.def), DefKind::AssocConst { .. }) {
                if let Some(tr) = tcx.trait_of_assoc(uv.def) {
                    v.push((
                        "assoc",
                        J::obj(vec![
                            ("trait", J::Str(tcx.def_path_str(tr))),
                            ("name", J::Str(tcx.item_name(uv.def).to_string())),
                            ("args", self.generic_args(uv.args)),
                        ]),
                    ));
                }
            }
        }
        let env = self.env(owner);
        let scalar_like = matches!(
            t.kind(),
            ty::Bool | ty::Char | ty::Int(_) | ty::Uint(_)
        );
        if scalar_like {
            if let Some(si) = c.try_eval_scalar_int(tcx, env) {
                let size = si.size();
                v.push(("int", J::Int(si.to_bits(size) as i128)));
                v.push(("bytes", J::Int(size.bytes() as i128)));
                return J::obj(v);
            }
        }
        // structured constant (array / tuple / ADT of scalars): destructure via const eval
        if matches!(t.kind(), ty::Array(..) | ty::Tuple(..) | ty::Adt(..) | ty::Ref(..) | ty::FnPtr(..)) {
            if let Ok(val) = c.eval(tcx, env, rustc_span::DUMMY_SP) {
                if let Some(j) = self.const_value(val, t, 0) {
                    v.push(("val", j));
                    return J::obj(v);
                }
            }
        }
        // zero-sized?
        let is_zst = match t.kind() {
            ty::Tuple(e) => e.is_empty(),
            ty::Adt(def, _) => def.is_struct() && def.all_fields().next().is_none(),
            ty::Closure(..) => tcx.layout_of(env.as_query_input(t)).map(|l| l.is_zst()).unwrap_or(false),
            _ => false,
        };
        if is_zst {
            v.push(("zst", J::Bool(true)));
            return J::obj(v);
        }
        v.push(("other", J::Str(format!("{:?}", c))));
        J::obj(v)
    }

    /// Structured value of an evaluated constant: {"int":n} | {"elems":[..]} (array/tuple) |
    /// {"variant":i,"fields":[..]} (ADT).  None if anything is not plain data.
    fn const_value(&self, val: rustc_middle::mir::ConstValue, t: Ty<'tcx>, depth: usize) -> Option<J> {
        let r = self.const_value_inner(val, t, depth);
        if r.is_none() && std::env::var("PKV_DEBUG").is_ok() {
            eprintln!("pkv: const_value failed at depth {} for type {:?} value {:?}", depth, t, val);
        }
        r
    }

    fn const_value_inner(&self, val: rustc_middle::mir::ConstValue, t: Ty<'tcx>, depth: usize) -> Option<J> {
        let tcx = self.tcx;
        if depth > 6 {
            return None;
        }
        match t.kind() {
            ty::Bool | ty::Char | ty::Int(_) | ty::Uint(_) => {
                let si = val.try_to_scalar_int()?;
                Some(J::obj(vec![("int", J::Int(si.to_bits(si.size()) as i128)), ("ty", self.ty(t))]))
            }
            ty::Array(..) | ty::Tuple(..) | ty::Adt(..) => {
                if let ty::Adt(def, _) = t.kind() {
                    if def.is_union() {
                        return None;
                    }
                }
                let d = tcx.try_destructure_mir_constant_for_user_output(val, t)?;
                let mut fields = Vec::new();
                for (fv, fty) in d.fields.iter() {
                    fields.push(self.const_value(*fv, *fty, depth + 1)?);
                }
                let mut o = vec![("ty", self.ty(t))];
                match t.kind() {
                    ty::Adt(def, _) => {
                        let vi = d.variant.map(|x| x.as_usize()).unwrap_or(0);
                        o.push(("path", J::Str(tcx.def_path_str(def.did()))));
                        o.push(("variant", J::Int(vi as i128)));
                        o.push(("fields", J::Arr(fields)));
                    }
                    _ => o.push(("elems", J::Arr(fields))),
                }
                Some(J::obj(o))
            }
            ty::Ref(_, inner, _) | ty::RawPtr(inner, _) => {
                use rustc_middle::mir::interpret::{GlobalAlloc, Scalar};
                use rustc_middle::mir::ConstValue;
                let ptr_size = tcx.data_layout.pointer_size();
                // (pointer scalar, optional length metadata)
                let (scalar, meta): (Scalar, Option<u64>) = match val {
                    ConstValue::Scalar(s) => (s, None),
                    ConstValue::Slice { alloc_id, meta } => {
                        let elem = match inner.kind() {
                            ty::Slice(e) => *e,
                            ty::Str => tcx.types.u8,      // a string literal: its UTF-8 bytes
                            _ => return None,
                        };
                        let arr = Ty::new_array(tcx, elem, meta);
                        let j = self.const_value(
                            ConstValue::Indirect { alloc_id, offset: rustc_abi::Size::ZERO },
                            arr,
                            depth + 1,
                        )?;
                        return Some(J::obj(vec![("ty", self.ty(t)), ("ref", j)]));
                    }
                    ConstValue::Indirect { alloc_id, offset } => {
                        // a pointer stored inside a larger constant: read it from the allocation
                        let alloc = match tcx.global_alloc(alloc_id) {
                            GlobalAlloc::Memory(a) => a,
                            _ => return None,
                        };
                        let a = alloc.inner();
                        let s = a
                            .read_scalar(&tcx, rustc_middle::mir::interpret::alloc_range(offset, ptr_size), true)
                            .ok()?;
                        if let ty::Dynamic(..) = inner.kind() {
                            // a trait object inside a larger constant: (data pointer, vtable pointer); the vtable allocation names
                            // the concrete type behind the object
                            let vs = a
                                .read_scalar(&tcx, rustc_middle::mir::interpret::alloc_range(offset + ptr_size, ptr_size), true)
                                .ok()?;
                            let vp = match vs { Scalar::Ptr(p, _) => p, _ => return None };
                            let (vprov, _) = vp.prov_and_relative_offset();
                            let concrete = match tcx.global_alloc(vprov.alloc_id()) {
                                GlobalAlloc::VTable(cty, _) => cty,
                                _ => return None,
                            };
                            let env = ty::TypingEnv::fully_monomorphized();
                            let zst = tcx.layout_of(env.as_query_input(concrete)).map(|l| l.is_zst()).unwrap_or(false);
                            let pj = if zst {
                                self.const_value(ConstValue::ZeroSized, concrete, depth + 1)?
                            } else {
                                match s {
                                    Scalar::Ptr(dp, _) => {
                                        let (dprov, doff) = dp.prov_and_relative_offset();
                                        match tcx.global_alloc(dprov.alloc_id()) {
                                            GlobalAlloc::Memory(_) => self.const_value(
                                                ConstValue::Indirect { alloc_id: dprov.alloc_id(), offset: doff },
                                                concrete,
                                                depth + 1,
                                            )?,
                                            _ => return None,
                                        }
                                    }
                                    _ => return None,
                                }
                            };
                            return Some(J::obj(vec![("ty", self.ty(t)), ("ref", pj), ("dyn_of", self.ty(concrete))]));
                        }
                        let is_fat = matches!(inner.kind(), ty::Slice(_) | ty::Str | ty::Dynamic(..));
                        let m = if is_fat {
                            let ms = a
                                .read_scalar(
                                    &tcx,
                                    rustc_middle::mir::interpret::alloc_range(offset + ptr_size, ptr_size),
                                    false,
                                )
                                .ok()?;
                            match ms { Scalar::Int(i) => Some(i.to_target_usize(tcx)), _ => return None }
                        } else {
                            None
                        };
                        (s, m)
                    }
                    _ => return None,
                };
                let ptr = match scalar {
                    Scalar::Ptr(p, _) => p,
                    _ => return None,
                };
                let (prov, offset) = ptr.prov_and_relative_offset();
                let alloc_id = prov.alloc_id();
                match tcx.global_alloc(alloc_id) {
                    GlobalAlloc::Memory(_) => {
                        let pointee = match (inner.kind(), meta) {
                            (ty::Slice(e), Some(n)) => Ty::new_array(tcx, *e, n),
                            (ty::Str, Some(n)) => Ty::new_array(tcx, tcx.types.u8, n),
                            (ty::Slice(_), None) | (ty::Str, None) | (ty::Dynamic(..), _) => return None,
                            _ => *inner,
                        };
                        let j = self.const_value(ConstValue::Indirect { alloc_id, offset }, pointee, depth + 1)?;
                        Some(J::obj(vec![("ty", self.ty(t)), ("ref", j)]))
                    }
                    GlobalAlloc::Static(did) => Some(J::obj(vec![
                        ("ty", self.ty(t)),
                        ("static_ref", J::Str(tcx.def_path_str(did))),
                        ("offset", J::Int(offset.bytes() as i128)),
                        (
                            "len",
                            match meta {
                                Some(n) => J::Int(n as i128),
                                None => J::Null,
                            },
                        ),
                    ])),
                    _ => None,
                }
            }
            ty::FnPtr(..) => {
                use rustc_middle::mir::interpret::{GlobalAlloc, Scalar};
                use rustc_middle::mir::ConstValue;
                let scalar = match val {
                    ConstValue::Scalar(s) => s,
                    ConstValue::Indirect { alloc_id, offset } => {
                        let alloc = match tcx.global_alloc(alloc_id) {
                            GlobalAlloc::Memory(a) => a,
                            _ => return None,
                        };
                        alloc
                            .inner()
                            .read_scalar(
                                &tcx,
                                rustc_middle::mir::interpret::alloc_range(offset, tcx.data_layout.pointer_size()),
                                true,
                            )
                            .ok()?
                    }
                    _ => return None,
                };
                let ptr = match scalar {
                    Scalar::Ptr(p, _) => p,
                    _ => return None,
                };
                let (prov, _off) = ptr.prov_and_relative_offset();
                match tcx.global_alloc(prov.alloc_id()) {
                    GlobalAlloc::Function { instance } => {
                        let owner = self.cur_owner.get().unwrap_or(instance.def_id());
                        Some(J::obj(vec![
                            ("ty", self.ty(t)),
                            ("fnptr", self.fn_ref(owner, instance.def_id(), instance.args)),
                        ]))
                    }
                    _ => None,
                }
            }
            _ => None,
        }
    }

    fn operand(&self, owner: DefId, o: &Operand<'tcx>) -> J {
        match o {
            Operand::Copy(p) => J::obj(vec![("k", J::s("copy")), ("pl", self.place(p))]),
            Operand::Move(p) => J::obj(vec![("k", J::s("move")), ("pl", self.place(p))]),
            Operand::Constant(c) => self.constant(owner, &c.const_),
            #[allow(unreachable_patterns)]
            other => J::obj(vec![("k", J::s("other")), ("s", J::Str(format!("{:?}", other)))]),
        }
    }

    fn rvalue(&self, owner: DefId, rv: &Rvalue<'tcx>) -> J {
        match rv {
            Rvalue::Use(op, ..) => J::obj(vec![("k", J::s("use")), ("op", self.operand(owner, op))]),
            Rvalue::Ref(_, bk, p) => J::obj(vec![
                ("k", J::s("ref")),
                ("mut", J::Bool(matches!(bk, BorrowKind::Mut { .. }))),
                ("pl", self.place(p)),
            ]),
            Rvalue::BinaryOp(op, ab) => J::obj(vec![
                ("k", J::s("bin")),
                ("op", J::Str(format!("{:?}", op))),
                ("a", self.operand(owner, &ab.0)),
                ("b", self.operand(owner, &ab.1)),
            ]),
            Rvalue::UnaryOp(op, a) => J::obj(vec![
                ("k", J::s("un")),
                ("op", J::Str(format!("{:?}", op))),
                ("a", self.operand(owner, a)),
            ]),
            Rvalue::Cast(kind, op, t) => J::obj(vec![
                ("k", J::s("cast")),
                ("kind", J::Str(format!("{:?}", kind))),
                ("op", self.operand(owner, op)),
                ("ty", self.ty(*t)),
            ]),
            Rvalue::Discriminant(p) => J::obj(vec![("k", J::s("discr")), ("pl", self.place(p))]),
            Rvalue::Aggregate(kind, ops) => {
                let mut v = vec![("k", J::s("agg"))];
                match &**kind {
                    AggregateKind::Adt(did, variant, args, _, _) => {
                        v.push(("kind", J::s("adt")));
                        v.push(("path", J::Str(self.tcx.def_path_str(*did))));
                        v.push(("variant", J::Int(variant.as_usize() as i128)));
                        v.push(("args", self.generic_args(args)));
                    }
                    AggregateKind::Tuple => v.push(("kind", J::s("tuple"))),
                    AggregateKind::Array(_) => v.push(("kind", J::s("array"))),
                    AggregateKind::Closure(did, cargs) => {
                        v.push(("kind", J::s("closure")));
                        v.push(("path", J::Str(self.tcx.def_path_str(*did))));
                        // in monomorphised library bodies the instance tells apart several instantiations of one closure
                        v.push(("path_inst", J::Str(self.tcx.def_path_str_with_args(*did, cargs))));
                    }
                    other => {
                        v.push(("kind", J::s("other")));
                        v.push(("s", J::Str(format!("{:?}", other))));
                    }
                }
                v.push(("ops", J::Arr(ops.iter().map(|o| self.operand(owner, o)).collect())));
                J::obj(v)
            }
            Rvalue::CopyForDeref(p) => J::obj(vec![
                ("k", J::s("use")),
                ("op", J::obj(vec![("k", J::s("copy")), ("pl", self.place(p))])),
            ]),
            Rvalue::Repeat(op, n) => J::obj(vec![
                ("k", J::s("repeat")),
                ("op", self.operand(owner, op)),
                (
                    "n",
                    match n.try_to_target_usize(self.tcx) {
                        Some(n) => J::Int(n as i128),
                        None => J::Null,
                    },
                ),
                (
                    "n_param",
                    match n.kind() {
                        ty::ConstKind::Param(p) => J::Str(p.name.to_string()),
                        _ => J::Null,
                    },
                ),
            ]),
            Rvalue::RawPtr(_, p) => J::obj(vec![("k", J::s("rawptr")), ("pl", self.place(p))]),
            other => J::obj(vec![("k", J::s("other")), ("s", J::Str(format!("{:?}", other)))]),
        }
    }

    fn block(&self, owner: DefId, bb: &BasicBlockData<'tcx>) -> J {
        let tcx = self.tcx;
        let mut stmts = Vec::new();
        for st in &bb.statements {
            let (sp, exp) = span_json(tcx, st.source_info.span);
            match &st.kind {
                StatementKind::Assign(b) => {
                    let (pl, rv) = &**b;
                    stmts.push(J::obj(vec![
                        ("k", J::s("assign")),
                        ("pl", self.place(pl)),
                        ("rv", self.rvalue(owner, rv)),
                        ("sp", J::Str(sp)),
                        ("x", J::Bool(exp)),
                    ]));
                }
                StatementKind::StorageLive(_)
                | StatementKind::StorageDead(_)
                | StatementKind::Nop => {}
                other => {
                    let dbg = format!("{:?}", other);
                    let tag = dbg.split(|c: char| !c.is_alphanumeric() && c != '_').next().unwrap_or("").to_string();
                    stmts.push(J::obj(vec![
                        ("k", J::s("other")),
                        ("tag", J::Str(tag)),
                        ("s", J::Str(dbg)),
                        ("sp", J::Str(sp)),
                        ("x", J::Bool(exp)),
                    ]));
                }
            }
        }
        let term = bb.terminator();
        let (sp, exp) = span_json(tcx, term.source_info.span);
        let mut t: Vec<(&str, J)> = Vec::new();
        match &term.kind {
            TerminatorKind::Goto { target } => {
                t.push(("k", J::s("goto")));
                t.push(("t", J::Int(target.as_usize() as i128)));
            }
            TerminatorKind::SwitchInt { discr, targets } => {
                t.push(("k", J::s("switch")));
                t.push(("op", self.operand(owner, discr)));
                let mut vals = Vec::new();
                let mut tgts = Vec::new();
                for (v, b) in targets.iter() {
                    vals.push(J::Int(v as i128));
                    tgts.push(J::Int(b.as_usize() as i128));
                }
                t.push(("vals", J::Arr(vals)));
                t.push(("tgts", J::Arr(tgts)));
                t.push(("otherwise", J::Int(targets.otherwise().as_usize() as i128)));
            }
            TerminatorKind::Return => t.push(("k", J::s("return"))),
            TerminatorKind::Unreachable => t.push(("k", J::s("unreachable"))),
            TerminatorKind::UnwindResume => t.push(("k", J::s("resume"))),
            TerminatorKind::Drop { place, target, .. } => {
                t.push(("k", J::s("drop")));
                t.push(("pl", self.place(place)));
                t.push(("t", J::Int(target.as_usize() as i128)));
            }
            TerminatorKind::Call { func, args, destination, target, .. } => {
                t.push(("k", J::s("call")));
                t.push(("fn", self.operand(owner, func)));
                t.push((
                    "args",
                    J::Arr(args.iter().map(|a| self.operand(owner, &a.node)).collect()),
                ));
                t.push(("dest", self.place(destination)));
                t.push((
                    "t",
                    match target {
                        Some(b) => J::Int(b.as_usize() as i128),
                        None => J::Null,
                    },
                ));
            }
            TerminatorKind::Assert { cond, expected, msg, target, .. } => {
                t.push(("k", J::s("assert")));
                t.push(("cond", self.operand(owner, cond)));
                t.push(("expected", J::Bool(*expected)));
                let m = format!("{:?}", msg);
                let tag = m.split('(').next().unwrap_or("").to_string();
                t.push(("msg", J::Str(tag)));
                t.push(("msg_full", J::Str(m)));
                t.push(("t", J::Int(target.as_usize() as i128)));
            }
            other => {
                t.push(("k", J::s("other")));
                t.push(("s", J::Str(format!("{:?}", other))));
            }
        }
        t.push(("sp", J::Str(sp)));
        t.push(("x", J::Bool(exp)));
        J::obj(vec![
            ("cleanup", J::Bool(bb.is_cleanup)),
            ("stmts", J::Arr(stmts)),
            ("term", J::obj(t)),
        ])
    }

    fn body(&self, owner: DefId, body: &Body<'tcx>) -> J {
        self.cur_owner.set(Some(owner));
        let mut locals = Vec::new();
        let mut names: Vec<Option<String>> = vec![None; body.local_decls.len()];
        for vdi in &body.var_debug_info {
            if let rustc_middle::mir::VarDebugInfoContents::Place(p) = &vdi.value {
                if p.projection.is_empty() {
                    names[p.local.as_usize()] = Some(vdi.name.to_string());
                }
            }
        }
        for (i, d) in body.local_decls.iter().enumerate() {
            locals.push(J::obj(vec![
                ("ty", self.ty(d.ty)),
                (
                    "name",
                    match &names[i] {
                        Some(n) => J::Str(n.clone()),
                        None => J::Null,
                    },
                ),
                ("mut", J::Bool(d.mutability.is_mut())),
            ]));
        }
        let blocks = body.basic_blocks.iter().map(|b| self.block(owner, b)).collect();
        J::obj(vec![
            ("arg_count", J::Int(body.arg_count as i128)),
            ("locals", J::Arr(locals)),
            ("blocks", J::Arr(blocks)),
        ])
    }
}

fn vis_str(tcx: TyCtxt<'_>, did: DefId) -> String {
    match tcx.visibility(did) {
        ty::Visibility::Public => "pub".to_string(),
        ty::Visibility::Restricted(m) => {
            if m.is_crate_root() {
                "crate".to_string()
            } else {
                format!("in:{}", tcx.def_path_str(m))
            }
        }
    }
}

/// Public names: for the crate root and every module reachable through public modules, the items it
/// exports (own items and re-exports) with the definition each name resolves to.
fn exports_json<'tcx>(tcx: TyCtxt<'tcx>) -> J {
    let mut out = Vec::new();
    let mut todo: Vec<(rustc_hir::def_id::LocalDefId, String)> = vec![(rustc_hir::def_id::CRATE_DEF_ID, String::new())];
    let mut seen = std::collections::BTreeSet::new();
    while let Some((m, prefix)) = todo.pop() {
        if !seen.insert(m.local_def_index.as_u32()) {
            continue;
        }
        for child in tcx.module_children_local(m) {
            if !child.vis.is_public() {
                continue;
            }
            let name = child.ident.name.to_string();
            let full = if prefix.is_empty() { name.clone() } else { format!("{}::{}", prefix, name) };
            if let Some(did) = child.res.opt_def_id() {
                let kind = format!("{:?}", tcx.def_kind(did));
                out.push(J::obj(vec![
                    ("name", J::Str(full.clone())),
                    ("target", J::Str(tcx.def_path_str(did))),
                    ("kind", J::Str(kind)),
                    ("reexport", J::Bool(!child.reexport_chain.is_empty())),
                ]));
                if matches!(tcx.def_kind(did), DefKind::Mod) {
                    if let Some(l) = did.as_local() {
                        todo.push((l, full));
                    }
                }
            }
        }
    }
    J::Arr(out)
}

fn dump_adt<'tcx>(cx: &Cx<'tcx>, did: DefId) -> J {
    let tcx = cx.tcx;
    let adt = tcx.adt_def(did);
    let mut variants = Vec::new();
    // discriminant values as mathematical integers (rustc stores the raw bits: -1i8 is 255)
    let discrs: Vec<i128> = if adt.is_enum() {
        adt.discriminants(tcx)
            .map(|(_, d)| {
                if d.ty.is_signed() {
                    let bits = match d.ty.kind() {
                        ty::Int(it) => it.bit_width().unwrap_or(tcx.data_layout.pointer_size().bits()),
                        _ => 128,
                    };
                    if bits >= 128 {
                        d.val as i128
                    } else {
                        let m = d.val & ((1u128 << bits) - 1);
                        if m >> (bits - 1) & 1 == 1 { m as i128 - (1i128 << bits) } else { m as i128 }
                    }
                } else {
                    d.val as i128
                }
            })
            .collect()
    } else {
        vec![0]
    };
    for (i, v) in adt.variants().iter().enumerate() {
        let fields = v
            .fields
            .iter()
            .map(|f| {
                J::obj(vec![
                    ("name", J::Str(f.name.to_string())),
                    ("ty", cx.ty(tcx.type_of(f.did).instantiate_identity().skip_norm_wip())),
                    ("vis", J::Str(vis_str(tcx, f.did))),
                ])
            })
            .collect();
        variants.push(J::obj(vec![
            ("name", J::Str(v.name.to_string())),
            ("idx", J::Int(i as i128)),
            ("discr", J::Int(discrs.get(i).copied().unwrap_or(0))),
            ("fields", J::Arr(fields)),
        ]));
    }
    let (sp, _) = span_json(tcx, tcx.def_span(did));
    J::obj(vec![
        ("path", J::Str(tcx.def_path_str(did))),
        ("kind", J::s(if adt.is_enum() { "enum" } else if adt.is_union() { "union" } else { "struct" })),
        ("local", J::Bool(did.is_local())),
        ("vis", J::Str(vis_str(tcx, did))),
        ("repr", J::Str(format!("{:?}", adt.repr().int))),
        ("non_exhaustive", J::Bool(adt.is_variant_list_non_exhaustive())),
        (
            "generics",
            J::Arr(
                tcx.generics_of(did)
                    .own_params
                    .iter()
                    .filter(|p| matches!(p.kind, ty::GenericParamDefKind::Type { .. }))
                    .map(|p| J::Str(p.name.to_string()))
                    .collect(),
            ),
        ),
        ("variants", J::Arr(variants)),
        ("sp", J::Str(sp)),
    ])
}

fn dump_crate<'tcx>(tcx: TyCtxt<'tcx>, name: &str) -> J {
    let cx = Cx { tcx, seen_adts: Default::default(), ext_todo: Default::default(), ext_seen: Default::default(), ext_generic_todo: Default::default(), mono: std::cell::Cell::new(false), cur_owner: std::cell::Cell::new(None), fnref_depth: std::cell::Cell::new(0) };
    let mut adts = Vec::new();
    let mut impls = Vec::new();
    let mut consts = Vec::new();
    let mut traits = Vec::new();
    let mut statics = Vec::new();
    for ldid in tcx.hir_crate_items(()).definitions() {
        let did = ldid.to_def_id();
        match tcx.def_kind(did) {
            DefKind::Struct | DefKind::Enum => {
                adts.push(dump_adt(&cx, did));
            }
            DefKind::Impl { of_trait } => {
                let self_ty = tcx.type_of(did).instantiate_identity().skip_norm_wip();
                let mut v = vec![
                    ("self_ty", cx.ty(self_ty)),
                    ("self_str", J::Str(format!("{}", self_ty))),
                    ("derived", J::Bool(tcx.is_automatically_derived(did))),
                ];
                if of_trait {
                    let tr = tcx.impl_trait_ref(did).instantiate_identity().skip_norm_wip();
                    v.push(("trait", J::Str(tcx.def_path_str(tr.def_id))));
                    // the trait's own type arguments (`impl Page<Strict> for X`): several impls of one generic trait for one type
                    v.push((
                        "trait_args",
                        J::Arr(tr.args.iter().skip(1).filter_map(|a| a.as_type().map(|t| cx.ty(t))).collect()),
                    ));
                } else {
                    v.push(("trait", J::Null));
                }
                let items = tcx
                    .associated_items(did)
                    .in_definition_order()
                    .map(|it| {
                        let mut o = vec![
                            ("name", J::Str(it.name().to_string())),
                            ("path", J::Str(tcx.def_path_str(it.def_id))),
                            ("is_fn", J::Bool(matches!(it.kind, ty::AssocKind::Fn { .. }))),
                        ];
                        if matches!(it.kind, ty::AssocKind::Const { .. }) && tcx.generics_of(it.def_id).count() == 0 {
                            // value of an associated constant of a non-generic impl (looked up when generic code names `T::N`)
                            let ct = tcx.type_of(it.def_id).instantiate_identity().skip_norm_wip();
                            if let Ok(val) = tcx.const_eval_poly(it.def_id) {
                                if let Some(j) = cx.const_value(val, ct, 0) {
                                    o.push(("val", j));
                                }
                            }
                        }
                        J::obj(o)
                    })
                    .collect();
                v.push(("items", J::Arr(items)));
                let (sp, _) = span_json(tcx, tcx.def_span(did));
                v.push(("sp", J::Str(sp)));
                impls.push(J::obj(v));
            }
            DefKind::Const { .. } => {
                let t = tcx.type_of(did).instantiate_identity().skip_norm_wip();
                let mut v = vec![
                    ("path", J::Str(tcx.def_path_str(did))),
                    ("ty", cx.ty(t)),
                    ("vis", J::Str(vis_str(tcx, did))),
                ];
                if let Ok(val) = tcx.const_eval_poly(did) {
                    if let Some(si) = val.try_to_scalar_int() {
                        v.push(("int", J::Int(si.to_bits(si.size()) as i128)));
                    }
                }
                consts.push(J::obj(v));
            }
            DefKind::Static { mutability, .. } => {
                let t = tcx.type_of(did).instantiate_identity().skip_norm_wip();
                let t = tcx
                    .try_normalize_erasing_regions(TypingEnv::fully_monomorphized(), rustc_middle::ty::Unnormalized::new_wip(t))
                    .unwrap_or(t);
                cx.cur_owner.set(Some(did));
                let mut v = vec![
                    ("path", J::Str(tcx.def_path_str(did))),
                    ("ty", cx.ty(t)),
                    ("vis", J::Str(vis_str(tcx, did))),
                    ("mutable", J::Bool(mutability.is_mut())),
                    ("freeze", J::Bool(t.is_freeze(tcx, TypingEnv::fully_monomorphized()))),
                ];
                if let Ok(alloc) = tcx.eval_static_initializer(did) {
                    let alloc_id = tcx.reserve_and_set_memory_alloc(alloc);
                    let val = rustc_middle::mir::ConstValue::Indirect { alloc_id, offset: rustc_abi::Size::ZERO };
                    if let Some(j) = cx.const_value(val, t, 0) {
                        v.push(("val", j));
                    }
                }
                statics.push(J::obj(v));
            }
            DefKind::Trait => {
                let items = tcx
                    .associated_items(did)
                    .in_definition_order()
                    .map(|it| J::Str(it.name().to_string()))
                    .collect();
                traits.push(J::obj(vec![
                    ("path", J::Str(tcx.def_path_str(did))),
                    ("vis", J::Str(vis_str(tcx, did))),
                    ("items", J::Arr(items)),
                ]));
            }
            _ => {}
        }
    }

    let mut fns = Vec::new();
    let mut const_bodies = Vec::new();
    let mut skipped = Vec::new();
    for ldid in tcx.mir_keys(()).iter() {
        let did = ldid.to_def_id();
        let kind = tcx.def_kind(did);
        if matches!(kind, DefKind::Closure) {
            let (sp, exp) = span_json(tcx, tcx.def_span(did));
            let body = tcx.optimized_mir(did);
            let promoted = tcx.promoted_mir(did);
            fns.push(J::obj(vec![
                ("path", J::Str(tcx.def_path_str(did))),
                ("kind", J::s("Closure")),
                ("vis", J::s("closure")),
                ("is_const", J::Bool(false)),
                ("unsafe", J::Bool(false)),
                ("sp", J::Str(sp)),
                ("x", J::Bool(exp)),
                (
                    "inputs",
                    J::Arr(body.args_iter().map(|l| cx.ty(body.local_decls[l].ty)).collect()),
                ),
                ("output", cx.ty(body.return_ty())),
                ("generics", J::Arr(vec![])),
                ("name", J::s("{closure}")),
                ("closure_of", J::Str(tcx.def_path_str(tcx.typeck_root_def_id(did)))),
                ("derived", J::Bool(false)),
                ("body", cx.body(did, body)),
                ("promoted", J::Arr(promoted.iter().map(|b| cx.body(did, b)).collect())),
            ]));
            continue;
        }
        if matches!(
            kind,
            DefKind::Const { .. } | DefKind::AssocConst { .. } | DefKind::Static { .. } | DefKind::AnonConst | DefKind::InlineConst
        ) {
            // initialiser bodies of constants and statics (evaluated at compile time by the analysed toolchain)
            let body = tcx.mir_for_ctfe(*ldid);
            let (sp, _) = span_json(tcx, tcx.def_span(did));
            const_bodies.push(J::obj(vec![
                ("path", J::Str(tcx.def_path_str(did))),
                ("kind", J::Str(format!("{:?}", kind))),
                ("sp", J::Str(sp)),
                ("body", cx.body(did, body)),
            ]));
        }
        if !matches!(kind, DefKind::Fn | DefKind::AssocFn) {
            skipped.push(J::obj(vec![
                ("path", J::Str(tcx.def_path_str(did))),
                ("kind", J::Str(format!("{:?}", kind))),
            ]));
            continue;
        }
        let sig = tcx.fn_sig(did).instantiate_identity().skip_norm_wip().skip_binder();
        let (sp, exp) = span_json(tcx, tcx.def_span(did));
        let mut v = vec![
            ("path", J::Str(tcx.def_path_str(did))),
            ("kind", J::Str(format!("{:?}", kind))),
            ("vis", J::Str(vis_str(tcx, did))),
            ("is_const", J::Bool(tcx.is_const_fn(did))),
            ("unsafe", J::Bool(!sig.safety().is_safe())),
            ("sp", J::Str(sp)),
            ("x", J::Bool(exp)),
            ("inputs", J::Arr(sig.inputs().iter().map(|t| cx.ty(*t)).collect())),
            ("output", cx.ty(sig.output())),
            (
                "generics",
                J::Arr({
                    let g = tcx.generics_of(did);
                    let mut names: Vec<J> = Vec::new();
                    if let Some(p) = g.parent {
                        for q in &tcx.generics_of(p).own_params {
                            names.push(J::Str(q.name.to_string()));
                        }
                    }
                    for q in &g.own_params {
                        names.push(J::Str(q.name.to_string()));
                    }
                    names
                }),
            ),
        ];
        // type parameters in substitution order (ancestors first), aligned with the type-only `args` of a resolved call
        {
            let g = tcx.generics_of(did);
            let mut names: Vec<J> = Vec::new();
            for i in 0..g.count() {
                let p = g.param_at(i, tcx);
                if matches!(p.kind, ty::GenericParamDefKind::Type { .. } | ty::GenericParamDefKind::Const { .. }) {
                    names.push(J::Str(p.name.to_string()));
                }
            }
            v.push(("tparams", J::Arr(names)));
        }
        // enclosing impl
        if let Some(parent) = tcx.opt_parent(did) {
            if let DefKind::Impl { of_trait } = tcx.def_kind(parent) {
                let self_ty = tcx.type_of(parent).instantiate_identity().skip_norm_wip();
                v.push(("impl_self", cx.ty(self_ty)));
                v.push(("impl_self_str", J::Str(format!("{}", self_ty))));
                v.push(("derived", J::Bool(tcx.is_automatically_derived(parent))));
                if of_trait {
                    let tr = tcx.impl_trait_ref(parent).instantiate_identity().skip_norm_wip();
                    v.push(("impl_trait", J::Str(tcx.def_path_str(tr.def_id))));
                }
            }
        }
        v.push(("name", J::Str(tcx.opt_item_name(did).map(|n| n.to_string()).unwrap_or_else(|| "{anon}".to_string()))));
        {
            // symbols that take part in linking under a fixed name can replace compiler/runtime routines
            let attrs = tcx.codegen_fn_attrs(did);
            let mut l = Vec::new();
            if attrs.flags.contains(rustc_middle::middle::codegen_fn_attrs::CodegenFnAttrFlags::NO_MANGLE) {
                l.push(J::s("no_mangle"));
            }
            if let Some(n) = attrs.symbol_name {
                l.push(J::Str(format!("export_name={}", n)));
            }
            if attrs.link_section.is_some() {
                l.push(J::s("link_section"));
            }
            if attrs.linkage.is_some() {
                l.push(J::s("linkage"));
            }
            v.push(("link_attrs", J::Arr(l)));
        }
        let body = tcx.optimized_mir(did);
        v.push(("body", cx.body(did, body)));
        let promoted = tcx.promoted_mir(did);
        v.push(("promoted", J::Arr(promoted.iter().map(|b| cx.body(did, b)).collect())));
        fns.push(J::obj(v));
    }

    // monomorphised MIR of inlinable library callees (closed under their own callees, bounded)
    let mut ext_fns = Vec::new();
    cx.mono.set(true);
    let mut idx = 0usize;
    loop {
        let inst = {
            let q = cx.ext_todo.borrow();
            if idx >= q.len() || idx >= 4000 {
                break;
            }
            q[idx]
        };
        idx += 1;
        let rd = inst.def_id();
        let body = tcx.instance_mir(inst.def);
        let mono = inst.instantiate_mir_and_normalize_erasing_regions(
            tcx,
            TypingEnv::fully_monomorphized(),
            ty::EarlyBinder::bind(body.clone()),
        );
        let (sp, exp) = span_json(tcx, tcx.def_span(rd));
        ext_fns.push(J::obj(vec![
            ("path", J::Str(tcx.def_path_str(rd))),
            ("path_inst", J::Str(tcx.def_path_str_with_args(rd, inst.args))),
            ("crate", J::Str(tcx.crate_name(rd.krate).to_string())),
            ("kind", J::Str(format!("{:?}", tcx.def_kind(rd)))),
            ("vis", J::s("ext")),
            ("is_const", J::Bool(false)),
            ("unsafe", J::Bool(false)),
            ("sp", J::Str(sp)),
            ("x", J::Bool(exp)),
            ("name", J::Str(tcx.opt_item_name(rd).map(|n| n.to_string()).unwrap_or_else(|| "{anon}".to_string()))),
            ("derived", J::Bool(false)),
            ("body", cx.body(rd, &mono)),
            (
                "promoted",
                // promoted constants of the library body, instantiated like the body itself
                if matches!(inst.def, ty::InstanceKind::Item(_)) && !tcx.is_constructor(rd) {
                    J::Arr(
                        tcx.promoted_mir(rd)
                            .iter()
                            .map(|pb| {
                                let pm = inst.instantiate_mir_and_normalize_erasing_regions(
                                    tcx,
                                    TypingEnv::fully_monomorphized(),
                                    ty::EarlyBinder::bind(pb.clone()),
                                );
                                cx.body(rd, &pm)
                            })
                            .collect(),
                    )
                } else {
                    J::Arr(vec![])
                },
            ),
        ]));
    }
    cx.mono.set(false);
    // polymorphic library bodies (callees reached from generic local code)
    let mut gi = 0usize;
    loop {
        let rd = {
            let q = cx.ext_generic_todo.borrow();
            if gi >= q.len() || gi >= 2000 {
                break;
            }
            q[gi]
        };
        gi += 1;
        let body = tcx.optimized_mir(rd);
        let (sp, exp) = span_json(tcx, tcx.def_span(rd));
        ext_fns.push(J::obj(vec![
            ("path", J::Str(tcx.def_path_str(rd))),
            ("path_inst", J::Str(tcx.def_path_str(rd))),
            ("generic", J::Bool(true)),
            ("crate", J::Str(tcx.crate_name(rd.krate).to_string())),
            ("kind", J::Str(format!("{:?}", tcx.def_kind(rd)))),
            ("vis", J::s("ext")),
            ("is_const", J::Bool(false)),
            ("unsafe", J::Bool(false)),
            ("sp", J::Str(sp)),
            ("x", J::Bool(exp)),
            ("name", J::Str(tcx.opt_item_name(rd).map(|n| n.to_string()).unwrap_or_else(|| "{anon}".to_string()))),
            ("derived", J::Bool(false)),
            ("body", cx.body(rd, body)),
            (
                "promoted",
                if !tcx.is_constructor(rd) { J::Arr(tcx.promoted_mir(rd).iter().map(|pb| cx.body(rd, pb)).collect()) } else { J::Arr(vec![]) },
            ),
        ]));
    }

    // non-local ADTs mentioned in any dumped type (Result, Option, ControlFlow, ...),
    // closed under their own field types
    let mut ext_adts = Vec::new();
    let mut done = std::collections::BTreeSet::new();
    loop {
        let todo: Vec<(String, DefId)> = cx
            .seen_adts
            .borrow()
            .iter()
            .filter(|(k, _)| !done.contains(*k))
            .map(|(k, v)| (k.clone(), *v))
            .collect();
        if todo.is_empty() {
            break;
        }
        for (k, did) in todo {
            done.insert(k);
            // only structurally simple, public-layout ADTs are of interest
            ext_adts.push(dump_adt(&cx, did));
        }
        if done.len() > 64 {
            break;
        }
    }

    J::obj(vec![
        ("crate", J::Str(name.to_string())),
        ("ext_adts", J::Arr(ext_adts)),
        ("ext_fns", J::Arr(ext_fns)),
        ("rustc", J::Str(rustc_session::config::host_tuple().to_string())),
        ("mir_opt_level", J::Int(tcx.sess.mir_opt_level() as i128)),
        ("overflow_checks", J::Bool(tcx.sess.overflow_checks())),
        ("debug_assertions", J::Bool(tcx.sess.opts.debug_assertions)),
        ("adts", J::Arr(adts)),
        ("traits", J::Arr(traits)),
        ("impls", J::Arr(impls)),
        ("consts", J::Arr(consts)),
        ("statics", J::Arr(statics)),
        ("exports", exports_json(tcx)),
        ("env_reads", {
            // environment variables the crate read at compile time (env!/option_env!, tracked by rustc for dep-info)
            let mut v: Vec<J> = Vec::new();
            for (k, val) in tcx.sess.env_depinfo.borrow().iter() {
                v.push(J::obj(vec![
                    ("var", J::Str(k.to_string())),
                    ("value", match val { Some(x) => J::Str(x.to_string()), None => J::Null }),
                ]));
            }
            J::Arr(v)
        }),
        ("skipped_mir_keys", J::Arr(skipped)),
        ("const_bodies", J::Arr(const_bodies)),
        ("fns", J::Arr(fns)),
    ])
}
