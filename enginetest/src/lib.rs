//! Conformance corpus for the abstract interpreter (pkv/mirtab.py): small functions in many idioms,
//! each `fn(u8, u8) -> u32`.  tools/engine_conformance.py tabulates every function with the engine
//! (from the driver's MIR facts) and compares the table, input by input, with what the compiled
//! function really returns (src/main.rs).  This tests the ANALYSER; it decides no property.
#![no_std]
#![allow(clippy::all)]
#![allow(dead_code)]

use core::cmp::Ordering;

pub fn arith_wrapping(x: u8, y: u8) -> u32 { x.wrapping_add(y).wrapping_mul(3).wrapping_sub(y) as u32 }
pub fn arith_checked(x: u8, y: u8) -> u32 { match x.checked_add(y) { Some(v) => v as u32, None => 1000 } }
pub fn arith_checked_sub(x: u8, y: u8) -> u32 { x.checked_sub(y).map(u32::from).unwrap_or(777) }
pub fn arith_saturating(x: u8, y: u8) -> u32 { (x.saturating_add(y) as u32) << 8 | x.saturating_sub(y) as u32 }
pub fn arith_overflowing(x: u8, y: u8) -> u32 { let (v, o) = x.overflowing_add(y); (v as u32) | ((o as u32) << 8) }
pub fn arith_panics(x: u8, y: u8) -> u32 { (x + y) as u32 }
pub fn arith_sub_panics(x: u8, y: u8) -> u32 { (x - y) as u32 }
pub fn arith_mul_panics(x: u8, y: u8) -> u32 { (x * y) as u32 }
pub fn arith_div(x: u8, y: u8) -> u32 { (x / y) as u32 + (x % y) as u32 * 256 }
pub fn arith_checked_div(x: u8, y: u8) -> u32 { x.checked_div(y).map_or(999, |v| v as u32) }
pub fn arith_signed(x: u8, y: u8) -> u32 { let a = x as i8; let b = y as i8; (a.wrapping_add(b) as i32 as u32) ^ ((a as i16 * b as i16) as u16 as u32) }
pub fn arith_signed_div(x: u8, y: u8) -> u32 { let a = x as i8 as i16; let b = (y as i8 as i16) | 1; ((a / b) as u16 as u32) << 16 | ((a % b) as u16 as u32) }
pub fn arith_neg(x: u8, _y: u8) -> u32 { (-(x as i8 as i32)) as u32 }
pub fn arith_neg_panics(x: u8, _y: u8) -> u32 { (-(x as i8)) as u8 as u32 }
pub fn arith_abs_diff(x: u8, y: u8) -> u32 { x.abs_diff(y) as u32 }
pub fn arith_pow(x: u8, y: u8) -> u32 { (x as u32 & 7).pow((y & 3) as u32) }
pub fn arith_minmax(x: u8, y: u8) -> u32 { (x.min(y) as u32) << 8 | x.max(y) as u32 }
pub fn arith_clamp(x: u8, _y: u8) -> u32 { x.clamp(10, 200) as u32 }
pub fn shifts(x: u8, y: u8) -> u32 { ((x as u32) << (y & 15)) ^ ((x >> (y & 7)) as u32) }
pub fn shift_panics(x: u8, y: u8) -> u32 { (x << y) as u32 }
pub fn shift_signed(x: u8, y: u8) -> u32 { ((x as i8) >> (y & 7)) as u8 as u32 }
pub fn shift_checked(x: u8, y: u8) -> u32 { x.checked_shl(y as u32).map_or(4242, |v| v as u32) }
pub fn shift_wrapping(x: u8, y: u8) -> u32 { x.wrapping_shl(y as u32) as u32 | (x.wrapping_shr(y as u32) as u32) << 8 }
pub fn bits_count(x: u8, y: u8) -> u32 { x.count_ones() + (y as u16).count_zeros() * 16 }
pub fn bits_lz(x: u8, y: u8) -> u32 { x.leading_zeros() | y.trailing_zeros() << 8 }
pub fn bits_rot(x: u8, y: u8) -> u32 { x.rotate_left((y & 7) as u32) as u32 | (x.rotate_right(y as u32) as u32) << 8 }
pub fn bits_rev(x: u8, y: u8) -> u32 { x.reverse_bits() as u32 | (((x as u16) << 8 | y as u16).swap_bytes() as u32) << 8 }
pub fn bits_parity_fold(x: u8, _y: u8) -> u32 { (0..8).fold(0u32, |acc, i| acc ^ ((x >> i) & 1) as u32) }
pub fn bits_parity_loop(x: u8, _y: u8) -> u32 { let mut p = false; let mut v = x; while v != 0 { p = !p; v &= v - 1; } p as u32 }
pub fn bits_get(x: u8, y: u8) -> u32 { (x & (1 << (y & 7)) != 0) as u32 }
pub fn bits_not(x: u8, y: u8) -> u32 { (!x & y) as u32 | ((!(x > y)) as u32) << 9 }
pub fn casts(x: u8, y: u8) -> u32 { let w = (x as u16) << 8 | y as u16; (w as i16 as i32 as u32) ^ (w as u8 as u32) ^ ((x as i8 as u16) as u32) }
pub fn cast_char(x: u8, _y: u8) -> u32 { let c = x as char; c as u32 + char::from(x) as u32 }
pub fn cast_bool(x: u8, y: u8) -> u32 { (x > y) as u32 + u32::from(x == y) * 2 + ((x < 10) as u8 as u32) * 4 }
pub fn conv_from(x: u8, y: u8) -> u32 { let a: u16 = x.into(); let b = u32::from(y); let c: i32 = i32::from(x as i8); a as u32 + b + c as u32 }
pub fn char_ascii(x: u8, _y: u8) -> u32 { let c = x as char; (c.is_ascii_lowercase() as u32) | (c.is_ascii_uppercase() as u32) << 1 | (c.is_ascii_digit() as u32) << 2 | (c.is_ascii_alphabetic() as u32) << 3 | (c.is_ascii_punctuation() as u32) << 4 | (c.is_ascii() as u32) << 5 }
pub fn char_case(x: u8, _y: u8) -> u32 { let c = x as char; c.to_ascii_uppercase() as u32 | (c.to_ascii_lowercase() as u32) << 8 }
pub fn u8_ascii(x: u8, y: u8) -> u32 { (x.is_ascii_alphanumeric() as u32) | (x.to_ascii_uppercase() as u32) << 8 | (x.eq_ignore_ascii_case(&y) as u32) << 16 }
pub fn char_digit(x: u8, _y: u8) -> u32 { (x as char).to_digit(10).map_or(99, |d| d) }
pub fn char_from_u32(x: u8, y: u8) -> u32 { char::from_u32((x as u32) << 8 | y as u32).map_or(0xFFFF_FFFF, |c| c as u32) }
pub fn char_ctrl(x: u8, _y: u8) -> u32 { let c = x as char; if c.is_ascii_alphabetic() { (c.to_ascii_uppercase() as u8 - b'A' + 1) as u32 } else { c as u32 } }
pub fn m_ranges(x: u8, _y: u8) -> u32 { match x { 0 => 1, 1..=9 => 2, 10 | 20 | 30 => 3, 0x80..=0xFF => 4, _ => 5 } }
pub fn m_guard(x: u8, y: u8) -> u32 { match x { v if v == y => 1, v if v > y && y > 100 => 2, 5..=50 if y & 1 == 1 => 3, _ => 4 } }
pub fn m_tuple(x: u8, y: u8) -> u32 { match (x & 3, y > 127) { (0, true) => 10, (0, false) => 11, (1, _) => 12, (_, true) => 13, _ => 14 } }
pub fn m_matches(x: u8, y: u8) -> u32 { (matches!(x, 1 | 3 | 5..=9) as u32) | (matches!((x, y), (0, _) | (_, 0)) as u32) << 1 | (matches!(Some(x), Some(v) if v > y) as u32) << 2 }
pub fn m_contains(x: u8, y: u8) -> u32 { ((0x80..=0xFF).contains(&x) as u32) | ((10..20).contains(&y) as u32) << 1 | ((..5).contains(&x) as u32) << 2 | ((250..).contains(&y) as u32) << 3 }
pub fn m_binding(x: u8, _y: u8) -> u32 { match x { n @ 1..=5 => n as u32 * 2, n @ (100 | 200) => n as u32 + 1, n => n as u32 } }
pub fn m_nested_if(x: u8, y: u8) -> u32 { if x > 10 { if y > 10 { 1 } else if y == 0 { 2 } else { 3 } } else if x == y { 4 } else { 5 } }
pub fn m_bool_ops(x: u8, y: u8) -> u32 { let a = x > 100; let b = y > 100; ((a && b) as u32) | ((a || b) as u32) << 1 | ((a ^ b) as u32) << 2 | ((a & !b) as u32) << 3 | ((a == b) as u32) << 4 | ((a != b) as u32) << 5 | ((a > b) as u32) << 6 }

#[derive(Clone, Copy, PartialEq, Eq, PartialOrd, Ord, Debug)]
pub enum Color { Red, Green = 5, Blue }
#[derive(Clone, Copy, PartialEq, Eq, Debug)]
pub enum Shape { Dot, Line(u8), Rect { w: u8, h: u8 }, Tagged(Color, bool) }
fn color_of(x: u8) -> Color { match x % 3 { 0 => Color::Red, 1 => Color::Green, _ => Color::Blue } }
fn shape_of(x: u8, y: u8) -> Shape { match x & 3 { 0 => Shape::Dot, 1 => Shape::Line(y), 2 => Shape::Rect { w: x, h: y }, _ => Shape::Tagged(color_of(y), x > 127) } }
pub fn e_discr(x: u8, _y: u8) -> u32 { color_of(x) as u32 }
pub fn e_cmp(x: u8, y: u8) -> u32 { let a = color_of(x); let b = color_of(y); (a == b) as u32 | ((a < b) as u32) << 1 | ((a >= b) as u32) << 2 | (match a.cmp(&b) { Ordering::Less => 1, Ordering::Equal => 2, Ordering::Greater => 3 }) << 3 }
pub fn e_data(x: u8, y: u8) -> u32 { match shape_of(x, y) { Shape::Dot => 0, Shape::Line(l) => l as u32, Shape::Rect { w, h } => w as u32 * h as u32, Shape::Tagged(c, b) => c as u32 * 2 + b as u32 } }
pub fn e_eq(x: u8, y: u8) -> u32 { (shape_of(x, y) == shape_of(y, x)) as u32 | ((shape_of(x, y) != Shape::Line(7)) as u32) << 1 }
pub fn e_iflet(x: u8, y: u8) -> u32 { if let Shape::Rect { w, .. } = shape_of(x, y) { w as u32 } else if let Shape::Tagged(Color::Blue, true) = shape_of(x, y) { 1000 } else { 2000 } }
pub fn e_letelse(x: u8, y: u8) -> u32 { let Shape::Line(l) = shape_of(x, y) else { return 55; }; l as u32 + 1 }
pub fn e_ordering(x: u8, y: u8) -> u32 { (match x.cmp(&y) { Ordering::Less => 0, Ordering::Equal => 1, Ordering::Greater => 2 }) + (x.partial_cmp(&y) == Some(Ordering::Less)) as u32 * 4 + (x.cmp(&y).reverse() as i8 as u32 & 0xF) * 8 + (x.cmp(&y).is_lt() as u32) * 128 }

pub fn o_map(x: u8, y: u8) -> u32 { let o = if x > 50 { Some(x) } else { None }; o.map(|v| v as u32 + y as u32).unwrap_or(7) }
pub fn o_and_then(x: u8, y: u8) -> u32 { Some(x).filter(|v| *v > 3).and_then(|v| v.checked_mul(y)).map_or(1, |v| v as u32) }
pub fn o_or(x: u8, y: u8) -> u32 { let a = (x > 200).then_some(x); let b = (y > 200).then(|| y); a.or(b).unwrap_or_default() as u32 + a.xor(b).is_some() as u32 * 256 + a.zip(b).map_or(0, |(p, q)| (p ^ q) as u32) * 512 }
pub fn o_ok_or(x: u8, y: u8) -> u32 { let r: Result<u8, u8> = Some(x).filter(|v| v & 1 == 0).ok_or(y); match r { Ok(v) => v as u32, Err(e) => 1000 + e as u32 } }
pub fn o_unwrap_panics(x: u8, _y: u8) -> u32 { let o = if x != 13 { Some(x) } else { None }; o.unwrap() as u32 }
pub fn o_expect_panics(x: u8, y: u8) -> u32 { let r: Result<u8, u8> = if x < y { Ok(x) } else { Err(y) }; r.expect("x < y") as u32 }
pub fn o_is(x: u8, y: u8) -> u32 { let o = x.checked_sub(y); o.is_some() as u32 | (o.is_none() as u32) << 1 | (o.is_some_and(|v| v > 5) as u32) << 2 | ((o == Some(3)) as u32) << 3 }
pub fn o_take_replace(x: u8, y: u8) -> u32 { let mut o = Some(x); let t = o.take(); let mut p = Some(y); let q = p.replace(x); o.is_none() as u32 + t.unwrap() as u32 * 2 + q.unwrap() as u32 * 512 + p.unwrap() as u32 * 131072 }
pub fn o_copied(x: u8, y: u8) -> u32 { let arr = [x, y]; arr.get((x & 3) as usize).copied().unwrap_or(9) as u32 + arr.first().map_or(0, |v| *v as u32) * 256 }
fn half(x: u8) -> Result<u8, u32> { if x & 1 == 0 { Ok(x / 2) } else { Err(x as u32 + 5000) } }
fn try_chain(x: u8, y: u8) -> Result<u32, u32> { let a = half(x)?; let b = half(y)?; Ok(a as u32 + b as u32) }
pub fn r_question(x: u8, y: u8) -> u32 { match try_chain(x, y) { Ok(v) => v, Err(e) => e } }
fn opt_chain(x: u8, y: u8) -> Option<u32> { let a = x.checked_add(y)?; let b = a.checked_sub(10)?; Some(b as u32) }
pub fn o_question(x: u8, y: u8) -> u32 { opt_chain(x, y).unwrap_or(31337) }
pub fn r_combinators(x: u8, y: u8) -> u32 { half(x).map(|v| v as u32 + 1).map_err(|e| e + 1).and_then(|v| if v > y as u32 { Ok(v) } else { Err(3) }).unwrap_or_else(|e| e * 2) }
pub fn r_ok_err(x: u8, _y: u8) -> u32 { half(x).ok().map_or(0, |v| v as u32) + half(x).err().unwrap_or(1) + half(x).is_ok() as u32 * 100000 }
pub fn r_transpose(x: u8, _y: u8) -> u32 { let o: Option<Result<u8, u32>> = if x > 9 { Some(half(x)) } else { None }; match o.transpose() { Ok(Some(v)) => v as u32, Ok(None) => 70000, Err(e) => e } }

static TABLE: [u8; 8] = [3, 1, 4, 1, 5, 9, 2, 6];
const SORTED: [(u8, u8); 6] = [(2, 20), (4, 40), (8, 80), (16, 160), (32, 32), (64, 64)];
static WORDS: [&[u8]; 3] = [b"ab", b"cde", b""];
pub fn a_index(x: u8, _y: u8) -> u32 { TABLE[(x & 7) as usize] as u32 }
pub fn a_index_panics(x: u8, _y: u8) -> u32 { TABLE[(x & 15) as usize] as u32 }
pub fn a_get(x: u8, _y: u8) -> u32 { TABLE.get(x as usize).map_or(100, |v| *v as u32) }
pub fn a_find(x: u8, _y: u8) -> u32 { SORTED.iter().find(|(k, _)| *k == x).map_or(0, |(_, v)| *v as u32) }
pub fn a_position(x: u8, _y: u8) -> u32 { TABLE.iter().position(|v| *v == x).map_or(99, |i| i as u32) }
pub fn a_any_all(x: u8, y: u8) -> u32 { TABLE.iter().any(|v| *v == x) as u32 | (TABLE.iter().all(|v| *v < y) as u32) << 1 | (TABLE.contains(&y) as u32) << 2 }
pub fn a_bsearch(x: u8, _y: u8) -> u32 { match SORTED.binary_search_by(|(k, _)| k.cmp(&x)) { Ok(i) => SORTED[i].1 as u32, Err(i) => 1000 + i as u32 } }
pub fn a_bsearch_key(x: u8, _y: u8) -> u32 { SORTED.binary_search_by_key(&x, |&(k, _)| k).map_or_else(|i| 500 + i as u32, |i| i as u32) }
pub fn a_for(x: u8, _y: u8) -> u32 { let mut s = 0u32; for v in TABLE.iter() { if *v > x { s += *v as u32; } } s }
pub fn a_for_ref(x: u8, _y: u8) -> u32 { let mut s = 0u32; for (k, v) in &SORTED { if *k & x != 0 { s += *v as u32; } } s }
pub fn a_for_range(x: u8, y: u8) -> u32 { let mut s = 0u32; for i in 0..8 { if (x >> i) & 1 == 1 { s += (y as u32) << i; } } s }
pub fn a_for_enumerate(x: u8, _y: u8) -> u32 { let mut s = 0u32; for (i, v) in TABLE.iter().enumerate() { if *v == x { s += 1 << i; } } s }
pub fn a_local(x: u8, y: u8) -> u32 { let mut a = [0u8; 4]; a[(x & 3) as usize] = y; a[0] as u32 | (a[1] as u32) << 8 | (a[2] as u32) << 16 | (a[3] as u32) << 24 }
pub fn a_slice(x: u8, _y: u8) -> u32 { let w = WORDS[(x % 3) as usize]; w.len() as u32 * 256 + w.first().map_or(0, |b| *b as u32) + w.is_empty() as u32 * 65536 }
pub fn a_slice_pat(x: u8, y: u8) -> u32 { let a = [x, y, 7]; match &a[..(x as usize & 3).min(3)] { [] => 0, [p] => *p as u32, [p, q] => *p as u32 + *q as u32, [p, .., r] => *p as u32 * *r as u32 } }
pub fn a_last_len(x: u8, y: u8) -> u32 { let a = [x, y]; a.len() as u32 + a.last().copied().unwrap_or(0) as u32 * 4 + a.iter().count() as u32 * 2048 }
pub fn a_iter_sum(x: u8, y: u8) -> u32 { [x, y, 3].iter().map(|v| *v as u32).sum::<u32>() + [x, y].iter().copied().max().unwrap_or(0) as u32 * 1024 }
pub fn a_filter_count(x: u8, _y: u8) -> u32 { TABLE.iter().filter(|v| **v > x).count() as u32 }
pub fn a_rev_skip(x: u8, _y: u8) -> u32 { TABLE.iter().rev().skip((x & 3) as usize).next().map_or(0, |v| *v as u32) + TABLE.iter().take_while(|v| **v != x).count() as u32 * 16 }

#[derive(Clone, Copy, Default, PartialEq, Eq, Debug)]
pub struct Pt { a: u8, b: u8, flag: bool }
impl Pt {
    const fn new(a: u8, b: u8) -> Self { Pt { a, b, flag: false } }
    fn swap(&mut self) { core::mem::swap(&mut self.a, &mut self.b); self.flag = !self.flag; }
    fn bump(&mut self) -> u8 { let old = self.a; self.a = self.a.wrapping_add(1); old }
    fn sum(&self) -> u32 { self.a as u32 + self.b as u32 }
}
pub fn s_methods(x: u8, y: u8) -> u32 { let mut p = Pt::new(x, y); p.swap(); let o = p.bump(); p.sum() * 4 + p.flag as u32 * 2 + (o == y) as u32 }
pub fn s_update(x: u8, y: u8) -> u32 { let p = Pt { a: x, ..Default::default() }; let q = Pt { b: y, ..p }; (p == q) as u32 + q.sum() * 2 }
pub fn s_mem(x: u8, y: u8) -> u32 { let mut a = x; let old = core::mem::replace(&mut a, y); let mut b = Some(old); let t = core::mem::take(&mut b); a as u32 + t.unwrap() as u32 * 256 + b.is_none() as u32 * 65536 }
pub fn s_tuple(x: u8, y: u8) -> u32 { let t = (x, (y, x > y)); let (p, (q, r)) = t; let mut u = (p, q); u.0 = u.0.wrapping_add(u.1); u.0 as u32 + r as u32 * 256 }
pub fn s_refs(x: u8, y: u8) -> u32 { let mut a = x; let mut b = y; { let r = if x > y { &mut a } else { &mut b }; *r = r.wrapping_mul(2); } a as u32 | (b as u32) << 8 }
pub fn s_nested(x: u8, y: u8) -> u32 { struct W { p: Pt, k: [u8; 2] } let mut w = W { p: Pt::new(x, y), k: [1, 2] }; w.p.b ^= 0xFF; w.k[(x & 1) as usize] = w.p.a; w.p.sum() + w.k[0] as u32 * 1000 + w.k[1] as u32 * 100000 }

fn apply(f: fn(u8) -> u8, v: u8) -> u8 { f(v) }
fn inc(v: u8) -> u8 { v.wrapping_add(1) }
fn dbl(v: u8) -> u8 { v.wrapping_mul(2) }
static OPS: [fn(u8) -> u8; 2] = [inc, dbl];
pub fn f_ptr(x: u8, y: u8) -> u32 { apply(if y & 1 == 0 { inc } else { dbl }, x) as u32 }
pub fn f_table(x: u8, y: u8) -> u32 { OPS[(y & 1) as usize](x) as u32 }
pub fn f_closure(x: u8, y: u8) -> u32 { let k = y; let add = |v: u8| v.wrapping_add(k); let mut n = 0u32; let mut count = |v: u8| { n += v as u32; }; count(add(x)); count(3); n }
fn call_with<F: Fn(u8) -> u32>(f: F, v: u8) -> u32 { f(v) + f(v.wrapping_add(1)) }
pub fn f_generic(x: u8, y: u8) -> u32 { call_with(|v| (v ^ y) as u32, x) }
fn call_dyn(f: &dyn Fn(u8) -> u32, v: u8) -> u32 { f(v) }
pub fn f_dyn(x: u8, y: u8) -> u32 { call_dyn(&|v| v as u32 * 3 + y as u32, x) }
pub trait Speak { fn say(&self, v: u8) -> u32; fn twice(&self, v: u8) -> u32 { self.say(v) * 2 } }
struct Loud; struct Quiet(u8);
impl Speak for Loud { fn say(&self, v: u8) -> u32 { v as u32 + 1000 } }
impl Speak for Quiet { fn say(&self, v: u8) -> u32 { (v & self.0) as u32 } fn twice(&self, v: u8) -> u32 { self.say(v) + 1 } }
fn speak_gen<S: Speak>(s: &S, v: u8) -> u32 { s.twice(v) }
fn speak_dyn(s: &dyn Speak, v: u8) -> u32 { s.twice(v) }
pub fn t_static(x: u8, y: u8) -> u32 { speak_gen(&Loud, x) + speak_gen(&Quiet(y), x) }
pub fn t_dyn(x: u8, y: u8) -> u32 { let q = Quiet(y); let s: &dyn Speak = if x & 1 == 0 { &Loud } else { &q }; speak_dyn(s, x) }
impl From<Pt> for u32 { fn from(p: Pt) -> u32 { p.sum() } }
pub fn t_from(x: u8, y: u8) -> u32 { let v: u32 = Pt::new(x, y).into(); v + u32::from(Pt::new(y, 1)) }
pub fn t_default(x: u8, _y: u8) -> u32 { let p: Pt = Default::default(); let c: u8 = Default::default(); p.sum() + c as u32 + x as u32 + bool::default() as u32 }

pub fn l_while(x: u8, y: u8) -> u32 { let mut a = x as u32; let mut n = 0; while a > y as u32 && n < 10 { a /= 2; n += 1; } a * 16 + n }
pub fn l_loop_break(x: u8, _y: u8) -> u32 { let mut i = 0u32; let r = loop { if i * i >= x as u32 { break i; } i += 1; }; r }
pub fn l_labeled(x: u8, y: u8) -> u32 { let mut c = 0; 'o: for i in 0..4u8 { for j in 0..4u8 { if i * 4 + j == (x & 15) { break 'o; } if j == (y & 3) { continue 'o; } c += 1; } } c }
pub fn l_gcd(x: u8, y: u8) -> u32 { let (mut a, mut b) = (x & 31, y & 31); while b != 0 { let t = a % b; a = b; b = t; } a as u32 }
pub fn dbg_assert(x: u8, y: u8) -> u32 { debug_assert!(x != 77 || y != 1, "boom"); debug_assert_eq!(x & 0, 0); x as u32 }
pub fn assert_panics(x: u8, y: u8) -> u32 { assert!(x as u16 + y as u16 != 300, "sum is {}", 300); assert_ne!(x, 254); 1 }
pub fn unreachable_panics(x: u8, _y: u8) -> u32 { match x & 3 { 0 => 1, 1 => 2, 2 => 3, 3 => if x == 255 { unreachable!() } else { 4 }, _ => unreachable!() } }
pub fn unimplemented_panics(x: u8, _y: u8) -> u32 { if x == 9 { unimplemented!() } else if x == 10 { todo!() } else { x as u32 } }
pub fn const_items(x: u8, _y: u8) -> u32 { const K: u8 = 0x7F; const P: Pt = Pt::new(3, 4); static S: Pt = Pt::new(9, 9); (x & K) as u32 + P.sum() + S.sum() }
pub fn u16_math(x: u8, y: u8) -> u32 { let w = u16::from_be_bytes([x, y]); let [lo, hi] = w.to_le_bytes(); (w >> 3) as u32 ^ (lo as u32) << 16 ^ (hi as u32) << 24 }
pub fn usize_idx(x: u8, y: u8) -> u32 { let i = usize::from(x & 7); let j = (y as usize) % TABLE.len(); (TABLE[i] ^ TABLE[j]) as u32 }
pub fn try_from_ok(x: u8, y: u8) -> u32 { let w = (x as u16) << 1 | (y as u16 & 1); match u8::try_from(w) { Ok(v) => v as u32, Err(_) => 0x1_0000 } }
pub fn ord_is_lt(x: u8, y: u8) -> u32 { x.cmp(&y).is_lt() as u32 | (x.cmp(&y).is_ge() as u32) << 1 | (x.cmp(&y).is_ne() as u32) << 2 }
pub fn ord_then(x: u8, y: u8) -> u32 { (x & 3).cmp(&(y & 3)).then(x.cmp(&y)).then_with(|| Ordering::Greater) as i8 as u32 }
pub fn enum_lt(x: u8, y: u8) -> u32 { (color_of(x) < color_of(y)) as u32 }
pub fn enum_ge(x: u8, y: u8) -> u32 { (color_of(x) >= color_of(y)) as u32 | (color_of(x).max(color_of(y)) as u32) << 4 }
pub fn tuple_cmp(x: u8, y: u8) -> u32 { ((x & 7, y) < (y & 7, x)) as u32 | (((x, y) == (y, x)) as u32) << 1 }

// ---- second batch: slices, mutation through iterators, own iterators, associated consts, misc
pub fn b_subslice(x: u8, y: u8) -> u32 { let a = [x, y, 3, 4]; let s = &a[1..3]; let t = &a[(x & 3) as usize..]; s[0] as u32 + s[1] as u32 * 2 + t.len() as u32 * 1024 + t[0] as u32 * 4096 }
pub fn b_subslice_panics(x: u8, y: u8) -> u32 { let a = [x, y, 3, 4]; let s = &a[(x & 7) as usize..(y & 7) as usize]; s.len() as u32 }
pub fn b_subslice_get(x: u8, y: u8) -> u32 { let a = [x, y, 3, 4]; a.get((x & 7) as usize..(y & 7) as usize).map_or(99, |s| s.len() as u32) + a.get(..=(x & 3) as usize).map_or(0, |s| s.len() as u32) * 100 }
pub fn b_iter_mut(x: u8, y: u8) -> u32 { let mut a = [x, y, 1]; for v in a.iter_mut() { *v = v.wrapping_add(1); } a[0] as u32 | (a[1] as u32) << 8 | (a[2] as u32) << 16 }
pub fn b_for_mut_ref(x: u8, y: u8) -> u32 { let mut a = [x, y]; for v in &mut a { *v ^= 0x55; } a[0] as u32 * 256 + a[1] as u32 }
pub fn b_zip(x: u8, _y: u8) -> u32 { TABLE.iter().zip(SORTED.iter()).filter(|(a, (k, _))| **a as u32 + *k as u32 > x as u32).count() as u32 }
pub fn b_split(x: u8, y: u8) -> u32 { let a = [x, y, 9]; let (h, t) = a.split_first().unwrap(); let (l, i) = a.split_last().unwrap(); let (p, q) = a.split_at((x & 3).min(3) as usize); *h as u32 + t.len() as u32 * 256 + *l as u32 * 1024 + i[0] as u32 * 4096 + (p.len() * 7 + q.len()) as u32 * 1048576 }
pub fn b_rev_position(x: u8, _y: u8) -> u32 { TABLE.iter().rev().position(|v| *v == x).map_or(99, |i| i as u32) + TABLE.iter().rposition(|v| *v == x).map_or(99, |i| i as u32) * 100 }
pub fn b_nth_last(x: u8, _y: u8) -> u32 { TABLE.iter().nth((x & 15) as usize).map_or(77, |v| *v as u32) + TABLE.iter().last().map_or(0, |v| *v as u32) * 100 + TABLE.iter().skip((x & 7) as usize).len() as u32 * 10000 }
pub fn b_slice_ops(x: u8, y: u8) -> u32 { let mut a = [x, y, 7, 8]; a.swap(0, 3); a[1..].reverse(); let w = a.starts_with(&[8]) as u32; a.fill(y); w + a[0] as u32 * 2 + a.ends_with(&[y, y]) as u32 * 1024 }
pub fn b_copy_from(x: u8, y: u8) -> u32 { let mut a = [0u8; 4]; a[..2].copy_from_slice(&[x, y]); a[2..].copy_from_slice(&[y, x]); u32::from_le_bytes(a) }
pub fn b_bytes(x: u8, _y: u8) -> u32 { let s = b"hello world"; let t = "keyboard".as_bytes(); s[(x % 11) as usize] as u32 + t[(x & 7) as usize] as u32 * 256 + "abc".len() as u32 * 65536 }
pub fn b_char_ranges(x: u8, _y: u8) -> u32 { match x as char { 'a'..='z' => 1, 'A'..='Z' => 2, '0'..='9' => 3, ' ' | '\t' | '\n' => 4, '\u{80}'..='\u{ff}' => 5, _ => 6 } }
pub fn b_char_digit(x: u8, y: u8) -> u32 { char::from_digit((x & 15) as u32, 16).map_or(0, |c| c as u32) + (y as char).to_digit(16).unwrap_or(99) * 256 }
pub fn b_i32(x: u8, y: u8) -> u32 { let d = x as i32 - y as i32; (d.abs() as u32) + (d.signum() as u32 & 3) * 1024 + (d.rem_euclid(7) as u32) * 4096 + (d.div_euclid(7) as u32 & 0xFF) * 65536 }
pub fn b_i8_edge(x: u8, _y: u8) -> u32 { let a = x as i8; a.checked_abs().map_or(500, |v| v as u32) + a.wrapping_abs() as u8 as u32 * 1024 + a.unsigned_abs() as u32 * 262144 + (a.checked_neg().is_none() as u32) << 30 }
pub fn b_u16_bytes(x: u8, y: u8) -> u32 { let w = u16::from_le_bytes([x, y]); w.to_be() as u32 ^ (w.leading_ones() << 16) ^ (w.trailing_ones() << 24) ^ ((w.is_power_of_two() as u32) << 31) }
pub fn b_lowbit(x: u8, _y: u8) -> u32 { (x & x.wrapping_neg()) as u32 + x.next_power_of_two_checked() }
trait NextPow { fn next_power_of_two_checked(self) -> u32; }
impl NextPow for u8 { fn next_power_of_two_checked(self) -> u32 { self.checked_next_power_of_two().map_or(9999, |v| v as u32 * 256) } }
pub fn b_cmp_fns(x: u8, y: u8) -> u32 { core::cmp::min(x, y) as u32 + core::cmp::max(x, y) as u32 * 256 + core::cmp::max_by_key(x, y, |v| v & 15) as u32 * 65536 }
#[derive(Clone, Copy, PartialEq, Eq, PartialOrd, Ord, Default)]
struct Ver { major: u8, minor: u8 }
pub fn b_struct_ord(x: u8, y: u8) -> u32 { let a = Ver { major: x & 3, minor: y }; let b = Ver { major: y & 3, minor: x }; (a < b) as u32 + (a.cmp(&b) as i8 as u8 as u32) * 2 + (a.max(b).minor as u32) * 1024 + (Ver::default() == a) as u32 * 524288 }
const fn build_table() -> [u8; 16] { let mut t = [0u8; 16]; let mut i = 0; while i < 16 { t[i] = (i * i % 11) as u8; i += 1; } t }
const SQ: [u8; 16] = build_table();
static SQS: [u8; 16] = build_table();
pub fn b_const_fn_table(x: u8, y: u8) -> u32 { SQ[(x & 15) as usize] as u32 + SQS[(y & 15) as usize] as u32 * 16 }
trait Kind { const N: u8; fn base() -> u8 { Self::N.wrapping_mul(3) } }
struct K1; struct K2;
impl Kind for K1 { const N: u8 = 7; }
impl Kind for K2 { const N: u8 = 200; fn base() -> u8 { 1 } }
fn kind_val<K: Kind>(x: u8) -> u32 { (x.wrapping_add(K::N) as u32) + K::base() as u32 * 256 }
pub fn b_assoc_const(x: u8, y: u8) -> u32 { if y & 1 == 0 { kind_val::<K1>(x) } else { kind_val::<K2>(x) } }
pub fn b_move_closure(x: u8, y: u8) -> u32 { let mut n = x; let mut c = move || { n = n.wrapping_add(y); n }; let a = c(); let b = c(); a as u32 + b as u32 * 256 + n as u32 * 65536 }
struct Countdown(u8);
impl Iterator for Countdown { type Item = u8; fn next(&mut self) -> Option<u8> { if self.0 == 0 { None } else { self.0 -= 1; Some(self.0) } } }
pub fn b_own_iter(x: u8, y: u8) -> u32 { let mut s = 0u32; for v in Countdown(x & 7) { s += v as u32 + y as u32; } s + Countdown(y & 7).map(|v| v as u32 * 2).sum::<u32>() * 1024 + Countdown(5).take((x & 3) as usize).count() as u32 * 1048576 }
pub fn b_while_let(x: u8, _y: u8) -> u32 { let mut it = TABLE.iter(); let mut n = 0; while let Some(v) = it.next() { if *v == x { break; } n += 1; } n }
struct Grid([u8; 4]);
impl core::ops::Index<u8> for Grid { type Output = u8; fn index(&self, i: u8) -> &u8 { &self.0[(i & 3) as usize] } }
impl core::ops::IndexMut<u8> for Grid { fn index_mut(&mut self, i: u8) -> &mut u8 { &mut self.0[(i & 3) as usize] } }
pub fn b_index_impl(x: u8, y: u8) -> u32 { let mut g = Grid([1, 2, 3, 4]); g[x] = y; g[x.wrapping_add(1)] as u32 + g[x] as u32 * 256 }
pub fn b_opt_refs(x: u8, y: u8) -> u32 { let mut o = if x > 9 { Some(x) } else { None }; if let Some(v) = o.as_mut() { *v = v.wrapping_add(y); } let r = o.as_ref().map_or(0, |v| *v as u32); let g = *o.get_or_insert(y); let mut p: Option<u8> = None; let h = *p.insert(x); r + g as u32 * 256 + h as u32 * 65536 }
pub fn b_match_ref(x: u8, y: u8) -> u32 { let p = (Some(x), y); match &p { (Some(v), w) if v > w => *v as u32, (Some(v), _) => *v as u32 + 1000, (None, w) => *w as u32 } }
pub fn b_nested_opt(x: u8, y: u8) -> u32 { let o: Option<Option<u8>> = match x & 3 { 0 => None, 1 => Some(None), _ => Some(Some(y)) }; (match o { None => 1, Some(None) => 2, Some(Some(v)) if v > 100 => 3, Some(Some(_)) => 4 }) + o.flatten().map_or(0, |v| v as u32) * 8 }
pub fn b_result_iter(x: u8, _y: u8) -> u32 { let r: Result<u8, u8> = half_u8(x); r.iter().count() as u32 + r.unwrap_or_default() as u32 * 2 + r.map_or_else(|e| e as u32, |_| 0) * 1024 }
fn half_u8(x: u8) -> Result<u8, u8> { if x & 1 == 0 { Ok(x / 2) } else { Err(x) } }
pub fn b_early_ret_loop(x: u8, y: u8) -> u32 { for (i, v) in TABLE.iter().enumerate() { if *v == x { return i as u32; } if *v == y { return 100 + i as u32; } } 999 }
pub fn b_shadow_block(x: u8, y: u8) -> u32 { let v = { let t = x ^ y; if t > 128 { t - 128 } else { t } }; let v = v as u32 * 3; let w = 'b: { if x == 0 { break 'b 5u32; } if y == 0 { break 'b 6; } 7 }; v + w * 1000 }

// ---- third batch: decoder-like state machines, flag words, lookup tables of enums
#[derive(Clone, Copy, PartialEq, Eq, Debug)]
enum St { Idle, Ext, Rel, ExtRel }
#[derive(Clone, Copy, PartialEq, Eq, Debug)]
#[repr(u8)]
pub enum Key { A = 1, B = 2, C = 30, Up = 100, Down = 101 }
struct Dec { st: St, count: u8 }
impl Dec {
    const fn new() -> Self { Dec { st: St::Idle, count: 0 } }
    fn key(code: u8, ext: bool) -> Result<Key, u8> { match (code, ext) { (0x1C, false) => Ok(Key::A), (0x32, false) => Ok(Key::B), (0x21, false) => Ok(Key::C), (0x75, true) => Ok(Key::Up), (0x72, true) => Ok(Key::Down), _ => Err(code) } }
    fn step(&mut self, b: u8) -> Result<Option<(Key, bool)>, u8> {
        self.count = self.count.wrapping_add(1);
        match (self.st, b) {
            (St::Idle, 0xE0) => { self.st = St::Ext; Ok(None) }
            (St::Idle, 0xF0) => { self.st = St::Rel; Ok(None) }
            (St::Ext, 0xF0) => { self.st = St::ExtRel; Ok(None) }
            (s, code) => { self.st = St::Idle; let k = Self::key(code, matches!(s, St::Ext | St::ExtRel))?; Ok(Some((k, matches!(s, St::Idle | St::Ext)))) }
        }
    }
}
fn enc(r: Result<Option<(Key, bool)>, u8>) -> u32 { match r { Ok(None) => 0, Ok(Some((k, d))) => 1 + (k as u8 as u32) * 4 + d as u32 * 2, Err(e) => 0x8000 + e as u32 } }
const BYTES: [u8; 8] = [0xE0, 0xF0, 0x1C, 0x32, 0x21, 0x75, 0x72, 0x00];
pub fn c_decoder2(x: u8, y: u8) -> u32 { let mut d = Dec::new(); let a = enc(d.step(BYTES[(x & 7) as usize])); let b = enc(d.step(BYTES[(y & 7) as usize])); a * 65536 + b + (d.st as u32) * 0x4000_0000 }
pub fn c_decoder3(x: u8, y: u8) -> u32 { let mut d = Dec::new(); let _ = d.step(BYTES[(x & 7) as usize]); let _ = d.step(BYTES[((x >> 3) & 7) as usize]); enc(d.step(BYTES[(y & 7) as usize])) + d.count as u32 * 0x10_0000 }
pub fn c_decoder_raw(x: u8, y: u8) -> u32 { let mut d = Dec::new(); let a = enc(d.step(x)); a ^ enc(d.step(y)).rotate_left(16) }
struct Flags(u16);
impl Flags { const SHIFT: u16 = 1; const CTRL: u16 = 2; const ALT: u16 = 4; const CAPS: u16 = 0x100;
    fn set(&mut self, m: u16, on: bool) { if on { self.0 |= m } else { self.0 &= !m } }
    fn toggle(&mut self, m: u16) { self.0 ^= m }
    const fn has(&self, m: u16) -> bool { self.0 & m != 0 }
    const fn any(&self, m: u16) -> bool { self.0 & m != 0 } }
pub fn c_flags(x: u8, y: u8) -> u32 { let mut f = Flags(0); f.set(Flags::SHIFT, x & 1 != 0); f.set(Flags::CTRL, x & 2 != 0); f.set(Flags::ALT, y & 1 != 0); if y & 2 != 0 { f.toggle(Flags::CAPS); } if y & 4 != 0 { f.toggle(Flags::CAPS); } f.set(Flags::SHIFT, x & 4 == 0 && f.has(Flags::SHIFT)); f.0 as u32 + (f.any(Flags::SHIFT | Flags::CAPS) as u32) * 65536 + ((f.has(Flags::SHIFT) ^ f.has(Flags::CAPS)) as u32) * 131072 }
static KEYTAB: [Option<Key>; 8] = [None, Some(Key::A), Some(Key::B), None, Some(Key::C), None, Some(Key::Up), Some(Key::Down)];
pub fn c_opt_table(x: u8, _y: u8) -> u32 { match KEYTAB.get((x & 15) as usize) { Some(Some(k)) => *k as u32, Some(None) => 1000, None => 2000 } }
pub fn c_opt_table_flat(x: u8, _y: u8) -> u32 { KEYTAB.get((x & 15) as usize).copied().flatten().map_or(7, |k| k as u32 + 10) }
const GRID: [[u8; 4]; 3] = [[1, 2, 3, 4], [5, 6, 7, 8], [9, 10, 11, 12]];
pub fn c_grid(x: u8, y: u8) -> u32 { GRID[(x % 3) as usize][(y & 3) as usize] as u32 + GRID.iter().map(|r| r[(y & 3) as usize] as u32).sum::<u32>() * 16 + GRID[(x % 3) as usize].iter().position(|v| *v == y).map_or(0, |i| i as u32 + 1) * 4096 }
impl TryFrom<u8> for Key { type Error = u8; fn try_from(v: u8) -> Result<Self, u8> { Ok(match v { 1 => Key::A, 2 => Key::B, 30 => Key::C, 100 => Key::Up, 101 => Key::Down, other => return Err(other) }) } }
pub fn c_try_from(x: u8, _y: u8) -> u32 { match Key::try_from(x) { Ok(k) => k as u32 * 2, Err(e) => e as u32 * 2 + 1 } }
pub fn c_try_into(x: u8, _y: u8) -> u32 { let r: Result<Key, _> = x.try_into(); r.map_or(0, |k| k as u32) }
struct Shift { reg: u16, n: u8 }
impl Shift { fn push(&mut self, bit: bool) -> Option<u16> { self.reg |= (bit as u16) << self.n; self.n += 1; if self.n == 4 { let w = self.reg; self.reg = 0; self.n = 0; Some(w) } else { None } } }
pub fn c_shift_reg(x: u8, y: u8) -> u32 { let mut s = Shift { reg: 0, n: 0 }; let mut out = 0u32; let mut got = 0u32; for i in 0..8 { if let Some(w) = s.push((x >> i) & 1 == 1) { out = out * 16 + w as u32; got += 1; } } for i in 0..3 { if let Some(w) = s.push((y >> i) & 1 == 1) { out = out * 16 + w as u32; got += 1; } } out + got * 65536 + s.n as u32 * 0x100_0000 }
fn parity_ok(w: u16) -> bool { let mut ones = 0; let mut i = 0; while i < 9 { if (w >> (i + 1)) & 1 == 1 { ones += 1; } i += 1; } ones % 2 == 1 }
pub fn c_frame(x: u8, y: u8) -> u32 { let w = (x as u16) << 1 | ((y as u16 & 3) << 9); let start = w & 1 == 0; let stop = w & 0x400 != 0; if !start { 1 } else if !stop { 2 } else if !parity_ok(w) { 3 } else { 100 + ((w >> 1) & 0xFF) as u32 } }
pub fn c_ctrl_letter(x: u8, y: u8) -> u32 { let c = x as char; let ctrl = y & 1 != 0; let shift = y & 2 != 0; let caps = y & 4 != 0; if ctrl && c.is_ascii_alphabetic() { (c.to_ascii_uppercase() as u8 & 0x1F) as u32 } else if c.is_ascii_lowercase() && (shift ^ caps) { c.to_ascii_uppercase() as u32 } else if c.is_ascii_uppercase() && (shift ^ caps) { c.to_ascii_lowercase() as u32 } else { c as u32 } }
#[derive(Clone, Copy, PartialEq, Eq)]
enum Out { Ch(char), Raw(Key) }
fn out_code(o: Out) -> u32 { match o { Out::Ch(c) => c as u32, Out::Raw(k) => 0x11_0000 + k as u32 } }
macro_rules! keymap { ($k:expr, $s:expr; $($code:literal => ($lo:literal, $hi:literal)),* ; raw $($rc:literal => $rk:expr),*) => { match $k { $($code => Out::Ch(if $s { $hi } else { $lo }),)* $($rc => Out::Raw($rk),)* _ => Out::Ch('\0') } } }
pub fn c_macro_map(x: u8, y: u8) -> u32 { out_code(keymap!(x & 31, y & 1 != 0; 0 => ('a', 'A'), 1 => ('b', 'B'), 2 => ('1', '!'), 3 => ('ö', 'Ö'), 4 => ('ß', '?') ; raw 10 => Key::Up, 11 => Key::Down)) }
const LETTERS: [(u8, char, char); 5] = [(3, 'q', 'Q'), (5, 'w', 'W'), (9, 'é', 'É'), (12, 'ñ', 'Ñ'), (20, 'z', 'Z')];
pub fn c_letter_table(x: u8, y: u8) -> u32 { if let Some(&(_, lo, up)) = LETTERS.iter().find(|(c, _, _)| *c == x & 31) { (if y & 1 != 0 { up } else { lo }) as u32 } else { 0 } }
pub fn c_char_arith(x: u8, y: u8) -> u32 { let n = x % 26; let base = if y & 1 != 0 { b'A' } else { b'a' }; ((base + n) as char) as u32 + (((b'a' + n) as char).to_ascii_uppercase() as u32) * 256 + (char::from(b'0' + x % 10) as u32) * 65536 }
pub fn c_sym_loop(x: u8, y: u8) -> u32 { let n = x & 7; let mut s = 0u32; for i in 0..n { s += (i as u32 + 1) * (y as u32 & 3); } let mut k = y & 7; while k > 0 { s += 1000; k -= 1; } s }
pub fn c_u16_reg(x: u8, y: u8) -> u32 { let mut r: u16 = 0; for i in 0..8u16 { r |= (((x >> i) & 1) as u16) << (i + 1); } r |= ((y & 1) as u16) << 9; r |= 1 << 10; let data = ((r >> 1) & 0xFF) as u8; (data == x) as u32 + (r as u32) * 2 + (r.count_ones() & 1) * 0x10000 }

// ---- fourth batch: generic structs over traits (Keyboard<L, S>-like), blanket impls for references
pub trait Stage { fn apply(&mut self, v: u8) -> u8; fn name_len(&self) -> u8 { 1 } }
struct AddN(u8); struct XorAcc { acc: u8 } struct Both<A, B>(A, B);
impl Stage for AddN { fn apply(&mut self, v: u8) -> u8 { v.wrapping_add(self.0) } }
impl Stage for XorAcc { fn apply(&mut self, v: u8) -> u8 { self.acc ^= v; self.acc } fn name_len(&self) -> u8 { 6 } }
impl<A: Stage, B: Stage> Stage for Both<A, B> { fn apply(&mut self, v: u8) -> u8 { let m = self.0.apply(v); self.1.apply(m) } }
impl<T: Stage + ?Sized> Stage for &mut T { fn apply(&mut self, v: u8) -> u8 { (**self).apply(v) } fn name_len(&self) -> u8 { (**self).name_len() + 100 } }
struct Pipe<A: Stage, B: Stage> { a: A, b: B, runs: u8 }
impl<A: Stage, B: Stage> Pipe<A, B> {
    const fn new(a: A, b: B) -> Self { Pipe { a, b, runs: 0 } }
    fn run(&mut self, v: u8) -> u8 { self.runs += 1; let m = self.a.apply(v); self.b.apply(m) }
    fn names(&self) -> u8 { self.a.name_len().wrapping_mul(10).wrapping_add(self.b.name_len()) }
    fn swap_in(&mut self, b: B) -> B { core::mem::replace(&mut self.b, b) }
}
pub fn d_pipe(x: u8, y: u8) -> u32 { let mut p = Pipe::new(AddN(y), XorAcc { acc: 0x0F }); let a = p.run(x); let b = p.run(x); a as u32 + b as u32 * 256 + p.names() as u32 * 65536 + p.runs as u32 * 0x100_0000 }
pub fn d_pipe_nested(x: u8, y: u8) -> u32 { let mut p = Pipe::new(Both(AddN(1), AddN(y)), Both(XorAcc { acc: y }, AddN(3))); let a = p.run(x); let old = p.swap_in(Both(XorAcc { acc: 0 }, AddN(0))); a as u32 + p.run(a) as u32 * 256 + (old.0.acc as u32) * 65536 }
pub fn d_pipe_ref(x: u8, y: u8) -> u32 { let mut s1 = XorAcc { acc: y }; let mut s2 = AddN(7); let r; { let mut p = Pipe::new(&mut s1, &mut s2); r = p.run(x) as u32 + p.names() as u32 * 256; } r + s1.acc as u32 * 65536 }
fn run_dyn(s: &mut dyn Stage, v: u8) -> u8 { s.apply(v).wrapping_add(s.name_len()) }
pub fn d_dyn_stage(x: u8, y: u8) -> u32 { let mut a = AddN(y); let mut b = XorAcc { acc: y }; let mut c = Both(AddN(1), XorAcc { acc: 2 }); let s: &mut dyn Stage = match x & 3 { 0 => &mut a, 1 => &mut b, _ => &mut c }; run_dyn(s, x) as u32 }
pub enum AnyStage { Add(AddN), Xor(XorAcc) }
impl Stage for AnyStage { fn apply(&mut self, v: u8) -> u8 { match self { AnyStage::Add(s) => s.apply(v), AnyStage::Xor(s) => s.apply(v) } } }
pub fn d_enum_wrapper(x: u8, y: u8) -> u32 { let mut s = if y & 1 == 0 { AnyStage::Add(AddN(y)) } else { AnyStage::Xor(XorAcc { acc: y }) }; let mut p = Pipe::new(s.apply(0), 0u8); p.a = s.apply(x); p.a as u32 + s.name_len() as u32 * 256 }
impl Stage for u8 { fn apply(&mut self, v: u8) -> u8 { *self = self.wrapping_add(v); *self } }
fn twice<S: Stage>(mut s: S, v: u8) -> (u8, u8) { let a = s.apply(v); (a, s.apply(a)) }
pub fn d_generic_by_value(x: u8, y: u8) -> u32 { let (a, b) = twice(AddN(y), x); let (c, d) = twice(y, x); let (e, _) = twice(&mut XorAcc { acc: x }, y); a as u32 | (b as u32) << 8 | ((c ^ d) as u32) << 16 | (e as u32) << 24 }

// ---- fifth batch: Unicode-aware char methods on the first three 256-blocks
fn uni_props(c: char) -> u32 { (c.is_alphabetic() as u32) | (c.is_lowercase() as u32) << 1 | (c.is_uppercase() as u32) << 2 | (c.is_numeric() as u32) << 3 | (c.is_alphanumeric() as u32) << 4 | (c.is_whitespace() as u32) << 5 | (c.is_control() as u32) << 6 }
fn uni_case(c: char) -> u32 { let mut u = c.to_uppercase(); let mut l = c.to_lowercase(); let un = u.len() as u32; let ln = l.len() as u32; (u.next().unwrap() as u32 & 0xFFF) | (l.next().unwrap() as u32 & 0xFFF) << 12 | un << 24 | ln << 28 }
pub fn u_props0(x: u8, _y: u8) -> u32 { uni_props(x as char) }
pub fn u_props1(x: u8, _y: u8) -> u32 { uni_props(char::from_u32(0x100 + x as u32).unwrap()) }
pub fn u_props2(x: u8, _y: u8) -> u32 { uni_props(char::from_u32(0x200 + (x % 0x50) as u32).unwrap()) }
pub fn u_case0(x: u8, _y: u8) -> u32 { uni_case(x as char) }
pub fn u_case_extra(x: u8, _y: u8) -> u32 { uni_case(if x & 1 == 0 { '€' } else { 'ˇ' }) }
pub fn u_euro(x: u8, y: u8) -> u32 { let c = if x & 1 == 0 { '€' } else { 'ˇ' }; uni_props(c) + (y as u32 & 1) * 1000 + (c.len_utf8() as u32) * 10000 + (c.is_ascii() as u32) * 100000 }
pub fn u_array_by_value(x: u8, y: u8) -> u32 { let mut s = 0u32; for v in [x, y, 7] { s = s * 3 + v as u32; } for (i, k) in [Key::A, Key::Up].into_iter().enumerate() { if k as u8 == x { s += 1000 * (i as u32 + 1); } } s + [x, y].into_iter().rev().map(|v| v as u32).fold(0, |a, b| a * 2 + b) * 65536 }
pub fn u_cell(x: u8, y: u8) -> u32 { use core::cell::Cell; struct R { reg: Cell<u16>, n: u8 } let r = R { reg: Cell::new(x as u16), n: 2 }; let rr = &r; rr.reg.set(rr.reg.get() << 1 | (y as u16 & 1)); let old = rr.reg.replace(7); old as u32 + r.reg.get() as u32 * 65536 + r.n as u32 * 0x100_0000 }

// ---- sixth batch: string tables, functional style, more Option/iterator adaptors
const ROW: &str = "qwertyuiop";
const ROW_UP: &str = "QWERTYUIOP";
const NATIONAL: &str = "äöüßé€";
pub fn s_chars_nth(x: u8, y: u8) -> u32 { let r = if y & 1 == 0 { ROW } else { ROW_UP }; r.chars().nth((x & 15) as usize).map_or(0, |c| c as u32) }
pub fn s_bytes_idx(x: u8, _y: u8) -> u32 { ROW.as_bytes().get((x & 15) as usize).map_or(0, |b| *b as u32) + ROW.bytes().nth((x & 7) as usize).map_or(0, |b| b as u32) * 256 + ROW.len() as u32 * 65536 }
pub fn s_chars_national(x: u8, _y: u8) -> u32 { NATIONAL.chars().nth((x & 7) as usize).map_or(1, |c| c as u32) + NATIONAL.len() as u32 * 0x100_0000 + NATIONAL.chars().count() as u32 * 0x1000_0000 }
pub fn s_chars_position(x: u8, _y: u8) -> u32 { ROW.chars().position(|c| c as u32 == x as u32).map_or(99, |i| i as u32) }
pub fn s_char_indices(x: u8, _y: u8) -> u32 { let mut s = 0u32; for (i, c) in NATIONAL.char_indices() { if (c as u32 & 0xFF) as u8 > x { s += i as u32 + 1; } } s }
pub fn s_zip_rows(x: u8, y: u8) -> u32 { ROW.chars().zip(ROW_UP.chars()).find(|(lo, _)| *lo as u32 == x as u32).map_or(0, |(lo, up)| if y & 1 == 0 { lo as u32 } else { up as u32 }) }
pub fn s_contains_char(x: u8, _y: u8) -> u32 { (ROW.as_bytes().contains(&x) as u32) << 1 | (ROW.is_empty() as u32) << 3 | (ROW.chars().any(|c| c as u32 == x as u32) as u32) }
pub fn s_eq_str(x: u8, _y: u8) -> u32 { let names = ["shift", "ctrl", "alt"]; let n = names[(x % 3) as usize]; (n == "ctrl") as u32 + (n.len() as u32) * 2 + (n != "alt") as u32 * 32 + match n { "shift" => 100, "alt" => 200, _ => 300 } }
pub fn f_try_fold(x: u8, y: u8) -> u32 { let r: Option<u8> = [x, y, 3].iter().try_fold(0u8, |acc, v| acc.checked_add(*v)); r.map_or(9999, |v| v as u32) }
pub fn f_chain_once(x: u8, y: u8) -> u32 { core::iter::once(x).chain([y, 5]).chain(core::iter::empty()).map(|v| v as u32).fold(0, |a, b| a * 7 + b) }
pub fn f_filter_map(x: u8, _y: u8) -> u32 { TABLE.iter().filter_map(|v| v.checked_sub(x)).map(|v| v as u32).sum::<u32>() + TABLE.iter().flat_map(|v| [*v, 1]).count() as u32 * 1000 }
pub fn f_min_max_by(x: u8, _y: u8) -> u32 { SORTED.iter().min_by_key(|(k, _)| k.abs_diff(x)).map_or(0, |(k, _)| *k as u32) + SORTED.iter().max_by(|a, b| (a.1 ^ x).cmp(&(b.1 ^ x))).map_or(0, |(_, v)| *v as u32) * 256 + TABLE.iter().copied().min().unwrap_or(0) as u32 * 65536 }
pub fn f_opt_zip_then(x: u8, y: u8) -> u32 { let a = (x > 10).then_some(x); let b = (y > 10).then(|| y / 2); a.zip(b).map(|(p, q)| p as u32 * q as u32).or_else(|| a.map(u32::from)).unwrap_or(1) + a.and(b).is_some() as u32 * 0x10_0000 + a.filter(|v| v & 1 == 0).map_or(0, |_| 0x20_0000) + a.xor(b).map_or(0, |_| 0x40_0000) }
pub fn f_step_rev_range(x: u8, y: u8) -> u32 { let mut s = 0u32; for i in (0..8u8).rev().step_by(2) { if (x >> i) & 1 == 1 { s += 1 << i; } } for i in (1..=3u8).map(|k| k * 2) { s += (y as u32 >> i) & 1; } s + (0..x & 7).map(|v| v as u32).sum::<u32>() * 1024 + (0..=y & 3).rev().fold(0u32, |a, b| a * 4 + b as u32) * 65536 }
pub fn f_any_all_range(x: u8, y: u8) -> u32 { ((0..8).any(|i| (x >> i) & 3 == 3) as u32) | ((0..8).all(|i| (y >> i) & 1 == 0 || i < 4) as u32) << 1 | ((0..8u32).filter(|i| (x >> i) & 1 == 1).count() as u32) << 2 | ((0..8u8).position(|i| (y >> i) & 1 == 1).map_or(15, |p| p as u32)) << 8 | ((0..8u8).rev().find(|i| (y >> i) & 1 == 1).map_or(15, |p| p as u32)) << 12 }
pub fn f_last_max_sum(x: u8, y: u8) -> u32 { let a = [x, y, x ^ y]; a.iter().max().map_or(0, |v| *v as u32) + a.iter().min().map_or(0, |v| *v as u32) * 256 + a.iter().map(|v| *v as u32).product::<u32>() % 251 * 65536 }
pub fn u_array_search(x: u8, y: u8) -> u32 { ([Key::A, Key::Up].into_iter().any(|k| k as u8 == x) as u32) | ([x, y, 3].into_iter().all(|v| v > 2) as u32) << 1 | ([1u8, 2, 30].into_iter().position(|v| v == x & 31).map_or(7, |i| i as u32)) << 2 | ([x, y].into_iter().find(|v| v & 1 == 1).map_or(0, |v| v as u32)) << 8 | ([x, y].into_iter().find_map(|v| v.checked_sub(200)).map_or(0, |v| v as u32)) << 16 }

// ---- seventh batch: drop glue (order, owners, suppression)
use core::cell::Cell;
struct G<'a>(&'a Cell<u32>, u32);
impl<'a> Drop for G<'a> { fn drop(&mut self) { self.0.set(self.0.get().wrapping_mul(10).wrapping_add(self.1)); } }
struct Pair<'a> { a: G<'a>, b: G<'a> }
struct Outer<'a> { tag: u32, inner: Pair<'a>, log: &'a Cell<u32> }
impl<'a> Drop for Outer<'a> { fn drop(&mut self) { self.log.set(self.log.get().wrapping_mul(10).wrapping_add(self.tag)); } }
fn consume<T>(x: T) -> u32 { let _y = x; 0 }
pub fn g_order(x: u8, _y: u8) -> u32 { let c = Cell::new(0); { let _a = G(&c, 1); let _b = G(&c, 2); if x & 1 == 0 { let _c = G(&c, 3); } } c.get() }
pub fn g_struct_fields(x: u8, _y: u8) -> u32 { let c = Cell::new(0); { let o = Outer { tag: 7, inner: Pair { a: G(&c, 1), b: G(&c, 2) }, log: &c }; if x > 100 { drop(o); c.set(c.get() + 5); } } c.get() }
pub fn g_owners(x: u8, y: u8) -> u32 { let c = Cell::new(0); { let _o = if x & 1 == 0 { Some(G(&c, 1)) } else { None }; let _t = (G(&c, 2), 5u8, G(&c, 3)); let _a = [G(&c, 4), G(&c, 5)]; let g = G(&c, 6); let f = move || g.1 + y as u32; c.set(c.get() + f() % 2); } c.get() }
pub fn g_suppressed(x: u8, _y: u8) -> u32 { let c = Cell::new(0); { let _m = core::mem::ManuallyDrop::new(G(&c, 1)); let f = G(&c, 2); if x & 1 == 0 { core::mem::forget(f); } let _k = G(&c, 3); } c.get() }
pub fn g_generic(x: u8, _y: u8) -> u32 { let c = Cell::new(0); consume(G(&c, 4)); consume((G(&c, 1), x)); consume([G(&c, 2)]); let r = consume(Some(G(&c, 3))); c.get() + r }
pub fn g_moved(x: u8, _y: u8) -> u32 { let c = Cell::new(0); { let a = G(&c, 1); let b = G(&c, 2); let keep = if x & 1 == 0 { a } else { b }; c.set(c.get() + 100); let _k2 = keep; } c.get() }
pub fn g_replace(x: u8, _y: u8) -> u32 { let c = Cell::new(0); { let mut s = Some(G(&c, 1)); if x & 1 == 0 { s = None; } c.set(c.get() + 50); let old = core::mem::replace(&mut s, Some(G(&c, 2))); c.set(c.get() + 1); drop(old); } c.get() }
pub fn g_early_return(x: u8, _y: u8) -> u32 { fn inner(c: &Cell<u32>, x: u8) -> u32 { let _a = G(c, 1); if x < 50 { return 9; } let _b = G(c, 2); if x < 100 { return 8; } 7 } let c = Cell::new(0); let r = inner(&c, x); c.get() * 10 + r }

// ---- eighth batch: compiler-generated Clone of tuples / closures / arrays (CloneShim): Copy => bitwise, else field-wise through each Clone impl
#[derive(Clone, Copy, PartialEq, Debug)]
struct CopyFold { l: bool, r: bool }
#[derive(PartialEq, Debug)]
struct Lossy { keep: u8, drop_me: u8 }
impl Clone for Lossy { fn clone(&self) -> Self { Lossy { keep: self.keep, drop_me: 0 } } }
#[derive(Clone, PartialEq, Debug)]
struct Plain { a: u8, b: u8 }
static ROWS: [(u8, Plain); 3] = [(1, Plain { a: 10, b: 11 }), (2, Plain { a: 20, b: 21 }), (3, Plain { a: 30, b: 31 })];
pub fn k_tuple_cloned(x: u8, _y: u8) -> u32 { ROWS.iter().find(|(k, _)| *k == x & 3).cloned().map_or(7, |(k, p)| k as u32 + p.a as u32 * 256 + p.b as u32 * 65536) }
pub fn k_tuple_lossy(x: u8, y: u8) -> u32 { let t = (x, Lossy { keep: y, drop_me: x }); let c = t.clone(); c.0 as u32 + c.1.keep as u32 * 256 + c.1.drop_me as u32 * 65536 + t.1.drop_me as u32 * 0x100_0000 }
pub fn k_closure_lossy(x: u8, y: u8) -> u32 { let l = Lossy { keep: x, drop_me: y }; let f = move |z: u8| l.keep as u32 + l.drop_me as u32 * 256 + z as u32 * 65536; let g = f.clone(); f(1) ^ g(2).rotate_left(3) }
pub fn k_closure_copy(x: u8, y: u8) -> u32 { let s = CopyFold { l: x & 1 != 0, r: y & 1 != 0 }; let f = move || (s.l as u32) | (s.r as u32) << 1; let g = f.clone(); let h = f; g() + h() * 4 }
pub fn k_array_clone(x: u8, y: u8) -> u32 { let a = [Lossy { keep: x, drop_me: 1 }, Lossy { keep: y, drop_me: 2 }]; let b = a.clone(); b[0].keep as u32 + b[1].keep as u32 * 256 + (b[0].drop_me + b[1].drop_me + a[1].drop_me) as u32 * 65536 }
pub fn k_nested_clone(x: u8, y: u8) -> u32 { let t = ((x, Plain { a: y, b: x }), [Lossy { keep: y, drop_me: 9 }], 5u8); let c = t.clone(); (c.0).0 as u32 + (c.0).1.a as u32 * 256 + c.1[0].keep as u32 * 65536 + (c.1[0].drop_me as u32 + c.2 as u32) * 0x100_0000 }

// ---- ninth batch: several impls of one generic trait for one type (selected by the trait's type argument)
struct Strict; struct Lenient; struct Mid;
trait Page<K> { fn resolve(code: u8) -> u32; }
trait PageD<K> { fn via(&self, code: u8) -> u32; }
struct Dec2;
impl Page<Strict> for Dec2 { fn resolve(code: u8) -> u32 { if code == 0x14 { 1 } else { 1000 } } }
impl Page<Lenient> for Dec2 { fn resolve(code: u8) -> u32 { if code == 0x14 { 1 } else { code as u32 + 2000 } } }
impl Page<Mid> for Dec2 { fn resolve(code: u8) -> u32 { if code & 1 == 0 { 7 } else { 3000 } } }
impl PageD<Strict> for Dec2 { fn via(&self, code: u8) -> u32 { code as u32 + 10 } }
impl PageD<Lenient> for Dec2 { fn via(&self, code: u8) -> u32 { code as u32 * 2 } }
impl PageD<Mid> for Dec2 { fn via(&self, code: u8) -> u32 { 5 } }
fn finish<K>(code: u8) -> u32 where Dec2: Page<K> { <Dec2 as Page<K>>::resolve(code) }
fn finish_dyn<K>(d: &dyn PageD<K>, code: u8) -> u32 { d.via(code) }
pub fn p_trait_args(x: u8, y: u8) -> u32 { match y % 3 { 0 => finish::<Strict>(x), 1 => finish::<Lenient>(x), _ => finish::<Mid>(x) } }
pub fn p_trait_args_dyn(x: u8, y: u8) -> u32 { if y & 1 == 0 { finish_dyn::<Lenient>(&Dec2, x) } else { finish_dyn::<Mid>(&Dec2, x) } }

// ---- tenth batch: idioms from "modern Rust" / performance / state-machine PRs
const fn build_parity() -> [bool; 256] { let mut t = [false; 256]; let mut i = 0usize; while i < 256 { t[i] = (i as u8).count_ones() % 2 == 0; i += 1; } t }
const YPARITY: [bool; 256] = build_parity();
static YSQUARES: [u16; 16] = { let mut t = [0u16; 16]; let mut i = 0; while i < 16 { t[i] = (i * i) as u16; i += 1; } t };
#[derive(Clone, Copy, PartialEq, Debug, Default)]
enum Yst { #[default] Idle, Ext { release: bool }, Rel, Pause(u8) }
fn ystep(s: Yst, b: u8) -> (Yst, Option<u8>) {
    match (s, b) {
        (Yst::Idle, 0xE0) => (Yst::Ext { release: false }, None),
        (Yst::Idle, 0xF0) => (Yst::Rel, None),
        (Yst::Idle, 0xE1) => (Yst::Pause(0), None),
        (Yst::Idle, c @ 0x01..=0x7F) => (Yst::Idle, Some(c)),
        (Yst::Ext { release: false }, 0xF0) => (Yst::Ext { release: true }, None),
        (Yst::Ext { release }, c) => (Yst::Idle, Some(if release { c | 0x80 } else { c.wrapping_add(1) })),
        (Yst::Rel, c) => (Yst::Idle, Some(c | 0x80)),
        (Yst::Pause(n @ 0..=1), _) => (Yst::Pause(n + 1), None),
        (Yst::Pause(_), c) => (Yst::Idle, Some(c ^ 0x55)),
        (Yst::Idle, _) => (Yst::Idle, None),
    }
}
struct Ymach { s: Yst }
impl Ymach { fn feed(&mut self, b: u8) -> Option<u8> { let (n, o) = ystep(core::mem::take(&mut self.s), b); self.s = n; o } }
pub fn y_const_tables(x: u8, y: u8) -> u32 { (YPARITY[x as usize] as u32) | (YSQUARES[(y & 15) as usize] as u32) << 1 | (YPARITY[(x ^ y) as usize] as u32) << 20 }
pub fn y_step_tuple(x: u8, y: u8) -> u32 { let mut m = Ymach { s: Yst::default() }; let a = m.feed(x); let b = m.feed(y); let c = m.feed(0x1C); a.map_or(0x100, u32::from) | b.map_or(0x100, u32::from) << 9 | c.map_or(0x100, u32::from) << 18 | ((m.s == Yst::Idle) as u32) << 27 }
pub fn y_is_some_and(x: u8, y: u8) -> u32 { let a = x.checked_sub(100); let r: Result<u8, u8> = if y & 1 == 0 { Ok(y) } else { Err(y) }; (a.is_some_and(|v| v > 50) as u32) | (a.is_none_or(|v| v < 10) as u32) << 1 | (r.is_ok_and(|v| v > 99) as u32) << 2 | (r.is_err_and(|e| e > 99) as u32) << 3 }
pub fn y_labeled_value(x: u8, y: u8) -> u32 { let r = 'outer: { if x < 10 { break 'outer 1u32; } for i in 0..4u8 { if y >> i & 1 == 1 { break 'outer 10 + i as u32; } } 99 }; r + 'l: loop { let mut k = x; loop { if k < 7 { break 'l k as u32 * 1000; } k /= 2; } } }
pub fn y_windows_chunks(x: u8, y: u8) -> u32 { let a = [x, y, x ^ y, x & y, x | y, 7]; a.windows(2).filter(|w| w[0] < w[1]).count() as u32 + a.chunks(4).map(|c| c.len() as u32 * c[0] as u32).sum::<u32>() * 16 + a.chunks_exact(2).map(|c| (c[0] ^ c[1]) as u32).fold(0, |s, v| s ^ v) * 0x10000 }
pub fn y_scan_take_while(x: u8, y: u8) -> u32 { let a = [x & 15, y & 15, 3, 9, 1]; a.iter().scan(0u8, |acc, v| { *acc = acc.wrapping_add(*v); Some(*acc) }).take_while(|s| *s < 20).count() as u32 + a.iter().skip_while(|v| **v < 8).map(|v| *v as u32).sum::<u32>() * 8 + a.iter().map_while(|v| v.checked_sub(1)).count() as u32 * 1024 }
pub fn y_find_map_fold(x: u8, y: u8) -> u32 { const ROWS: [(u8, u8, u8); 4] = [(1, b'a', b'A'), (2, b'b', b'B'), (9, b'z', b'Z'), (12, b'-', b'_')]; ROWS.iter().find_map(|&(k, lo, up)| (k == x & 15).then_some(if y & 1 == 1 { up } else { lo })).map_or(0, u32::from) + ROWS.iter().rev().fold(0u32, |a, r| a * 3 + (r.0 > y & 15) as u32) * 256 + ROWS.iter().rposition(|r| r.0 <= x & 15).map_or(9, |p| p as u32) * 0x10000 }
pub fn y_or_patterns(x: u8, y: u8) -> u32 { let t = (x >> 6, y & 3); (match t { (0 | 1, 0) | (3, 1 | 2) => 1, (a @ (1 | 2), b @ 1..=2) => 10 + a as u32 * 4 + b as u32, (_, 3) => 100, (a, _) if a == 3 => 200, _ => 300 }) + match x { n @ (b'a'..=b'z' | b'A'..=b'Z') => n as u32 & 0x1F, b'0'..b':' => 50, _ => 60 } * 1000 }
pub fn y_char_arith(x: u8, y: u8) -> u32 { let n = x % 26; let c = (b'a' + n) as char; let u = c.to_ascii_uppercase(); let d = char::from_digit((y % 36) as u32, 36).unwrap_or('?'); let k = char::from_u32(0x40 + (n as u32 + 1)).map_or(0, |c| c as u32); u as u32 | (d as u32) << 8 | k << 16 | (c.is_ascii_lowercase() as u32) << 24 | (((u as u8) - 0x40) as u32) << 25 }
pub fn y_mem_replace(x: u8, y: u8) -> u32 { let mut s = Yst::Pause(x & 3); let old = core::mem::replace(&mut s, Yst::Ext { release: y & 1 == 1 }); let mut o = Some(y); let t = o.take(); let r = o.replace(x); let g = o.get_or_insert(5); *g = g.wrapping_add(1); (old == Yst::Pause(1)) as u32 | (matches!(s, Yst::Ext { release: true }) as u32) << 1 | t.map_or(0, u32::from) << 2 | (r.is_none() as u32) << 10 | o.map_or(0, u32::from) << 11 }
pub fn y_bit_tricks(x: u8, y: u8) -> u32 { let mut p = x; p ^= p >> 4; p ^= p >> 2; p ^= p >> 1; let even = p & 1 == 0; let mask = 0u8.wrapping_sub((y & 1 == 1) as u8); let sel = (x & mask) | (y & !mask); let low = x & x.wrapping_neg(); let pow2 = x != 0 && x & (x - 1) == 0; even as u32 | (sel as u32) << 1 | (low as u32) << 9 | (pow2 as u32) << 17 | (x.is_power_of_two() as u32) << 18 | ((x as u32 + y as u32 + 1) >> 1) << 19 }
struct Ybits(u16);
impl Ybits { const SHIFT: u16 = 1; const CAPS: u16 = 1 << 3; const fn get(&self, m: u16) -> bool { self.0 & m != 0 } fn set(&mut self, m: u16, on: bool) { if on { self.0 |= m } else { self.0 &= !m } } fn toggle(&mut self, m: u16) { self.0 ^= m } }
pub fn y_packed_flags(x: u8, y: u8) -> u32 { let mut b = Ybits(x as u16); b.set(Ybits::SHIFT, y & 1 == 1); if y & 2 == 2 { b.toggle(Ybits::CAPS); } (b.get(Ybits::SHIFT) ^ b.get(Ybits::CAPS)) as u32 | (b.0 as u32) << 1 }
fn yopt_chain(x: u8, y: u8) -> Option<u32> { let a = x.checked_add(y)?; let b = a.checked_mul(2)?; let Some(c) = b.checked_sub(7) else { return Some(1); }; Some(c as u32 + 10) }
pub fn y_option_q(x: u8, y: u8) -> u32 { yopt_chain(x, y).unwrap_or(0) }
#[derive(Clone, Copy, PartialEq, Debug)] enum Ypfx { None = 0, E0 = 1, E1 = 2 }
impl TryFrom<u8> for Ypfx { type Error = u8; fn try_from(v: u8) -> Result<Self, u8> { Ok(match v { 0 => Ypfx::None, 0xE0 => Ypfx::E0, 0xE1 => Ypfx::E1, o => return Err(o) }) } }
impl From<Ypfx> for u8 { fn from(p: Ypfx) -> u8 { match p { Ypfx::None => 0, Ypfx::E0 => 0xE0, Ypfx::E1 => 0xE1 } } }
pub fn y_tryfrom_enum(x: u8, y: u8) -> u32 { let p = Ypfx::try_from(x); let q: Result<Ypfx, _> = y.try_into(); match (p, q) { (Ok(a), Ok(b)) => u8::from(a) as u32 + (b as u32) * 256, (Ok(a), Err(e)) => 0x10000 + a as u32 + e as u32 * 4, (Err(e), _) => 0x20000 + e as u32 } }
trait SetSpec { const EXT: u8; const REL_BIT: bool; fn lookup(c: u8) -> Option<u8>; }
struct Sp1; struct Sp2;
impl SetSpec for Sp1 { const EXT: u8 = 0xE0; const REL_BIT: bool = true; fn lookup(c: u8) -> Option<u8> { (c < 0x59).then_some(c + 1) } }
impl SetSpec for Sp2 { const EXT: u8 = 0xE0; const REL_BIT: bool = false; fn lookup(c: u8) -> Option<u8> { (c != 0x02 && c < 0x84).then(|| c ^ 0x40) } }
fn generic_decode<S: SetSpec>(b: u8) -> u32 { if b == S::EXT { return 0x1000; } let (rel, code) = if S::REL_BIT { (b & 0x80 != 0, b & 0x7F) } else { (false, b) }; S::lookup(code).map_or(0x2000, |k| k as u32 | (rel as u32) << 8) }
pub fn y_generic_spec(x: u8, y: u8) -> u32 { if y & 1 == 0 { generic_decode::<Sp1>(x) } else { generic_decode::<Sp2>(x) } }
struct Yrow { code: u8, base: char, shifted: char, altgr: Option<char> }
const LROWS: [Yrow; 4] = [Yrow { code: 1, base: 'q', shifted: 'Q', altgr: Some('@') }, Yrow { code: 2, base: '2', shifted: '"', altgr: None }, Yrow { code: 3, base: 'e', shifted: 'E', altgr: Some('\u{20AC}') }, Yrow { code: 4, base: '<', shifted: '>', altgr: Some('|') }];
pub fn y_layout_rows(x: u8, y: u8) -> u32 { let shift = y & 1 == 1; let altgr = y & 2 == 2; match LROWS.iter().find(|r| r.code == x & 7) { Some(r) => { let c = if altgr { r.altgr.unwrap_or(r.base) } else if shift { r.shifted } else { r.base }; c as u32 } None => 0 } }
macro_rules! arms { ($v:expr, $sh:expr; $($k:literal => $lo:literal $up:literal),*) => { match $v { $($k => if $sh { $up } else { $lo },)* _ => '\0' } } }
pub fn y_macro_arms(x: u8, y: u8) -> u32 { arms!(x & 7, y & 1 == 1; 0 => 'a' 'A', 1 => 'b' 'B', 2 => '1' '!', 5 => ';' ':') as u32 }
pub fn y_bool_then_chain(x: u8, y: u8) -> u32 { (x > 200).then_some(1u32).or((y > 200).then_some(2)).or_else(|| (x == y).then(|| 3)).map(|v| v * 10).unwrap_or_default() + Some(x).filter(|v| v % 3 == 0).zip(Some(y).filter(|v| v % 5 == 0)).map_or(0, |(a, b)| (a as u32 + b as u32) * 100) }

// ---- eleventh batch: a second trait implemented for the trait OBJECT type competes with impls on the erased types (redteam/B3-m2)
trait Zshape { fn area(&self, k: u8) -> u32; }
trait Zhint { fn hint(&self, k: u8) -> u8 { k } }
struct Zsq; struct Ztri;
impl Zshape for Zsq { fn area(&self, k: u8) -> u32 { k as u32 * k as u32 } }
impl Zshape for Ztri { fn area(&self, k: u8) -> u32 { k as u32 * 3 } }
impl Zhint for Zsq {}
impl Zhint for Ztri { fn hint(&self, k: u8) -> u8 { k / 2 } }
impl<'a> Zhint for dyn Zshape + 'a { fn hint(&self, _k: u8) -> u8 { 1 } }
fn zvia<T: Zshape + Zhint + ?Sized>(s: &T, k: u8) -> u32 { s.area(s.hint(k)) }
pub fn p_dyn_static_impl(x: u8, y: u8) -> u32 { let d: &dyn Zshape = if y & 1 == 0 { &Zsq } else { &Ztri }; zvia(d, x) + zvia(&Zsq, x) * 7 + zvia(&Ztri, x) * 1000 + d.hint(x) as u32 * 0x100_0000 }

// ---- twelfth batch: review items from red-team round 8
pub fn q_slice_from_end(x: u8, y: u8) -> u32 { let a = [x, y, x ^ y, 9, 4]; let s: &[u8] = if y & 1 == 0 { &a[..2] } else if y & 2 == 0 { &a[1..] } else { &a[..] }; let r = match s { [p, .., n] => *p as u32 + *n as u32 * 256, [one] => *one as u32, [] => 0 }; let t = if let [.., b, c] = s { *b as u32 * 2 + *c as u32 } else { 7 }; let u = match s { [_, mid @ .., _] => mid.len() as u32, _ => 9 }; r + t * 0x1_0000 + u * 0x100_0000 }
pub fn q_nested_array_copy(x: u8, y: u8) -> u32 { let mut a = [[x, 1], [y, 2]]; let b = a; a[0][0] = a[0][0].wrapping_add(1); a[1] = [7, 7]; let c = [a, b]; let mut d = c; d[1][1][0] = 99; b[0][0] as u32 + a[0][0] as u32 * 256 + c[1][1][0] as u32 * 65536 + d[1][1][0] as u32 * 0x100_0000 }
#[derive(Clone, Copy, PartialEq)] enum Nich { A, B(bool), C, D(Key), E }
static NICHES: [Nich; 6] = [Nich::C, Nich::B(true), Nich::A, Nich::D(Key::Up), Nich::B(false), Nich::E];
static OPTKEYS: [Option<Key>; 4] = [None, Some(Key::A), Some(Key::Up), None];
static SIGNED: [i8; 5] = [-128, -1, 0, 1, 127];
static SIGNED16: [i16; 3] = [-300, 5, 300];
pub fn q_niche_statics(x: u8, y: u8) -> u32 { let n = NICHES[(x % 6) as usize]; let a = match n { Nich::A => 1, Nich::B(true) => 2, Nich::B(false) => 3, Nich::C => 4, Nich::D(k) => 10 + k as u32, Nich::E => 5 }; let o = OPTKEYS[(y & 3) as usize].map_or(0, |k| k as u32 + 1); let s = SIGNED[(y % 5) as usize]; let w = SIGNED16[(x % 3) as usize]; a + o * 64 + ((s as i32 + 200) as u32) * 1024 + ((w as i32 + 1000) as u32) * 0x10_0000 + ((n == Nich::B(y & 1 == 1)) as u32) * 0x8000_0000 }
fn sum_n<const N: usize>(a: [u8; N]) -> u32 { let mut s = 0u32; let mut i = 0; while i < N { s += a[i] as u32 * (i as u32 + 1); i += 1; } s + N as u32 * 1000 }
fn pick<const HI: bool>(x: u8) -> u8 { if HI { x >> 4 } else { x & 15 } }
pub fn q_const_generic(x: u8, y: u8) -> u32 { sum_n([x, y]) + sum_n([x, y, 3]) * 3 + (pick::<true>(x) as u32) * 0x10_0000 + (pick::<false>(y) as u32) * 0x100_0000 }
trait Dev { type Dec: Decode; fn dec(&self) -> Self::Dec; }
trait Decode { fn run(&self, b: u8) -> u32; }
struct DA(u8); struct DB;
impl Decode for DA { fn run(&self, b: u8) -> u32 { b as u32 + self.0 as u32 } }
impl Decode for DB { fn run(&self, b: u8) -> u32 { b as u32 * 2 } }
struct KA; struct KB;
impl Dev for KA { type Dec = DA; fn dec(&self) -> DA { DA(5) } }
impl Dev for KB { type Dec = DB; fn dec(&self) -> DB { DB } }
fn drive<D: Dev>(d: &D, b: u8) -> u32 { let dec: D::Dec = d.dec(); <D::Dec as Decode>::run(&dec, b) }
pub fn q_assoc_type(x: u8, y: u8) -> u32 { if y & 1 == 0 { drive(&KA, x) } else { drive(&KB, x) } }
struct UnitDec; struct UnitPair(UnitDec, ());
impl Decode for UnitDec { fn run(&self, b: u8) -> u32 { b as u32 ^ 0x55 } }
impl Decode for UnitPair { fn run(&self, b: u8) -> u32 { self.0.run(b) + 1000 } }
fn run_gen<D: Decode>(d: &D, b: u8) -> u32 { d.run(b) }
pub fn q_zst_locals(x: u8, y: u8) -> u32 { let a = UnitDec; let p = UnitPair(UnitDec, ()); let r = &a; if y & 1 == 0 { run_gen(r, x) } else { run_gen(&p, x) } }
struct Cir(u8);
impl Zshape for Cir { fn area(&self, k: u8) -> u32 { k as u32 * self.0 as u32 + 1 } }
const SHAPES: [&dyn Zshape; 3] = [&Zsq, &Ztri, &Cir(7)];
static SHAPES_S: [(u8, &(dyn Zshape + Sync)); 2] = [(4, &Ztri), (9, &Zsq)];
impl Zhint for Cir {}
pub fn q_dyn_const_table(x: u8, y: u8) -> u32 { SHAPES[(y % 3) as usize].area(x) + SHAPES_S.iter().find(|(k, _)| *k == x & 15).map_or(5, |(_, s)| s.area(y)) * 0x1_0000 }
