//! Semantic stand-ins ("shims") for the few `core::slice` APIs whose real implementation works on raw
//! pointers (which the abstract interpreter does not model).  Each function below is a safe, index-based
//! re-statement of the documented behaviour of the library function named in its doc comment; the
//! binary search mirrors core's algorithm step by step so that even the unspecified choice among equal
//! elements is the same.  They are compiled by the same driver as the analysed crate and interpreted as
//! ordinary (generic) MIR; the mapping library path -> shim is in pkv/mirtab.py (SHIM_MAP).
#![no_std]
#![allow(clippy::all)]

use core::cmp::Ordering;

/// stands in for `core::slice::Iter<'a, T>`
pub struct SliceIter<'a, T> {
    s: &'a [T],
    i: usize,
}

/// `core::slice::<impl [T]>::iter`
pub fn slice_iter<'a, T>(s: &'a [T]) -> SliceIter<'a, T> {
    SliceIter { s, i: 0 }
}

/// `<core::slice::Iter<'a, T> as Iterator>::next`
pub fn iter_next<'a, T>(it: &mut SliceIter<'a, T>) -> Option<&'a T> {
    if it.i < it.s.len() {
        let r = &it.s[it.i];
        it.i += 1;
        Some(r)
    } else {
        None
    }
}

/// `<core::slice::Iter<'a, T> as Iterator>::find`
pub fn iter_find<'a, T, P: FnMut(&&'a T) -> bool>(it: &mut SliceIter<'a, T>, mut p: P) -> Option<&'a T> {
    while it.i < it.s.len() {
        let r = &it.s[it.i];
        it.i += 1;
        if p(&r) {
            return Some(r);
        }
    }
    None
}

/// `<core::slice::Iter<'a, T> as Iterator>::find_map`
pub fn iter_find_map<'a, T, B, F: FnMut(&'a T) -> Option<B>>(it: &mut SliceIter<'a, T>, mut f: F) -> Option<B> {
    while it.i < it.s.len() {
        let r = &it.s[it.i];
        it.i += 1;
        if let Some(b) = f(r) {
            return Some(b);
        }
    }
    None
}

/// `<core::slice::Iter<'a, T> as Iterator>::position`
pub fn iter_position<'a, T, P: FnMut(&'a T) -> bool>(it: &mut SliceIter<'a, T>, mut p: P) -> Option<usize> {
    let mut k = 0usize;
    while it.i < it.s.len() {
        let r = &it.s[it.i];
        it.i += 1;
        if p(r) {
            return Some(k);
        }
        k += 1;
    }
    None
}

/// `<core::slice::Iter<'a, T> as Iterator>::any`
pub fn iter_any<'a, T, P: FnMut(&'a T) -> bool>(it: &mut SliceIter<'a, T>, mut p: P) -> bool {
    while it.i < it.s.len() {
        let r = &it.s[it.i];
        it.i += 1;
        if p(r) {
            return true;
        }
    }
    false
}

/// `<core::slice::Iter<'a, T> as Iterator>::all`
pub fn iter_all<'a, T, P: FnMut(&'a T) -> bool>(it: &mut SliceIter<'a, T>, mut p: P) -> bool {
    while it.i < it.s.len() {
        let r = &it.s[it.i];
        it.i += 1;
        if !p(r) {
            return false;
        }
    }
    true
}

/// `<usize as core::slice::SliceIndex<[T]>>::get`  (what `<[T]>::get(i)` forwards to)
pub fn slice_get_usize<T>(i: usize, s: &[T]) -> Option<&T> {
    if i < s.len() {
        Some(&s[i])
    } else {
        None
    }
}

/// `core::slice::<impl [T]>::contains`
pub fn slice_contains<T: PartialEq>(s: &[T], x: &T) -> bool {
    let mut i = 0usize;
    while i < s.len() {
        if s[i] == *x {
            return true;
        }
        i += 1;
    }
    false
}

/// `core::slice::<impl [T]>::binary_search_by` - same algorithm as core (1.8x+): branch-free halving,
/// then one final comparison.
pub fn binary_search_by<'a, T, F: FnMut(&'a T) -> Ordering>(s: &'a [T], mut f: F) -> Result<usize, usize> {
    let mut size = s.len();
    if size == 0 {
        return Err(0);
    }
    let mut base = 0usize;
    while size > 1 {
        let half = size / 2;
        let mid = base + half;
        let cmp = f(&s[mid]);
        base = if cmp == Ordering::Greater { base } else { mid };
        size -= half;
    }
    let cmp = f(&s[base]);
    if cmp == Ordering::Equal {
        Ok(base)
    } else {
        let result = base + (cmp == Ordering::Less) as usize;
        Err(result)
    }
}
