//! Semantic stand-ins ("shims") for the few `core::slice` APIs whose real implementation works on raw
//! pointers (which the abstract interpreter does not model).  Each function below is a safe, index-based
//! re-statement of the documented behaviour of the library function named in its doc comment; the
//! binary search mirrors core's algorithm step by step so that even the unspecified choice among equal
//! elements is the same.  They are compiled by the same driver as the analysed crate and interpreted as
//! ordinary (generic) MIR; the mapping library path -> shim is in pkv/mirtab.py (SHIM_MAP).
#![no_std]
#![allow(clippy::all)]

use core::cmp::Ordering;

/// stands in for `core::slice::Iter<'a, T>`
pub struct SliceIter<'a, T> {
    s: &'a [T],
    i: usize,
    j: usize, // one past the last remaining element (the back end moves for `next_back`)
}

/// `core::slice::<impl [T]>::iter`
pub fn slice_iter<'a, T>(s: &'a [T]) -> SliceIter<'a, T> {
    SliceIter { s, i: 0, j: s.len() }
}

/// `<core::slice::Iter<'a, T> as Iterator>::next`
pub fn iter_next<'a, T>(it: &mut SliceIter<'a, T>) -> Option<&'a T> {
    if it.i < it.j {
        let r = &it.s[it.i];
        it.i += 1;
        Some(r)
    } else {
        None
    }
}

/// `<core::slice::Iter<'a, T> as Iterator>::find`
pub fn iter_find<'a, T, P: FnMut(&&'a T) -> bool>(it: &mut SliceIter<'a, T>, mut p: P) -> Option<&'a T> {
    while it.i < it.j {
        let r = &it.s[it.i];
        it.i += 1;
        if p(&r) {
            return Some(r);
        }
    }
    None
}

/// `<core::slice::Iter<'a, T> as Iterator>::find_map`
pub fn iter_find_map<'a, T, B, F: FnMut(&'a T) -> Option<B>>(it: &mut SliceIter<'a, T>, mut f: F) -> Option<B> {
    while it.i < it.j {
        let r = &it.s[it.i];
        it.i += 1;
        if let Some(b) = f(r) {
            return Some(b);
        }
    }
    None
}

/// `<core::slice::Iter<'a, T> as Iterator>::position`
pub fn iter_position<'a, T, P: FnMut(&'a T) -> bool>(it: &mut SliceIter<'a, T>, mut p: P) -> Option<usize> {
    let mut k = 0usize;
    while it.i < it.j {
        let r = &it.s[it.i];
        it.i += 1;
        if p(r) {
            return Some(k);
        }
        k += 1;
    }
    None
}

/// `<core::slice::Iter<'a, T> as Iterator>::any`
pub fn iter_any<'a, T, P: FnMut(&'a T) -> bool>(it: &mut SliceIter<'a, T>, mut p: P) -> bool {
    while it.i < it.j {
        let r = &it.s[it.i];
        it.i += 1;
        if p(r) {
            return true;
        }
    }
    false
}

/// `<core::slice::Iter<'a, T> as Iterator>::all`
pub fn iter_all<'a, T, P: FnMut(&'a T) -> bool>(it: &mut SliceIter<'a, T>, mut p: P) -> bool {
    while it.i < it.j {
        let r = &it.s[it.i];
        it.i += 1;
        if !p(r) {
            return false;
        }
    }
    true
}

/// `<usize as core::slice::SliceIndex<[T]>>::get`  (what `<[T]>::get(i)` forwards to)
pub fn slice_get_usize<T>(i: usize, s: &[T]) -> Option<&T> {
    if i < s.len() {
        Some(&s[i])
    } else {
        None
    }
}

/// `core::slice::<impl [T]>::contains`
pub fn slice_contains<T: PartialEq>(s: &[T], x: &T) -> bool {
    let mut i = 0usize;
    while i < s.len() {
        if s[i] == *x {
            return true;
        }
        i += 1;
    }
    false
}

/// `core::slice::<impl [T]>::binary_search_by` - same algorithm as core (1.8x+): branch-free halving,
/// then one final comparison.
pub fn binary_search_by<'a, T, F: FnMut(&'a T) -> Ordering>(s: &'a [T], mut f: F) -> Result<usize, usize> {
    let mut size = s.len();
    if size == 0 {
        return Err(0);
    }
    let mut base = 0usize;
    while size > 1 {
        let half = size / 2;
        let mid = base + half;
        let cmp = f(&s[mid]);
        base = if cmp == Ordering::Greater { base } else { mid };
        size -= half;
    }
    let cmp = f(&s[base]);
    if cmp == Ordering::Equal {
        Ok(base)
    } else {
        let result = base + (cmp == Ordering::Less) as usize;
        Err(result)
    }
}

/// `<core::slice::Iter<'a, T> as DoubleEndedIterator>::next_back`
pub fn iter_next_back<'a, T>(it: &mut SliceIter<'a, T>) -> Option<&'a T> {
    if it.i < it.j {
        it.j -= 1;
        Some(&it.s[it.j])
    } else {
        None
    }
}

/// `<core::slice::Iter<'a, T> as Iterator>::size_hint`
pub fn iter_size_hint<'a, T>(it: &SliceIter<'a, T>) -> (usize, Option<usize>) {
    let n = it.j - it.i;
    (n, Some(n))
}

/// `<core::slice::Iter<'a, T> as ExactSizeIterator>::len`
pub fn iter_len<'a, T>(it: &SliceIter<'a, T>) -> usize {
    it.j - it.i
}

/// `<core::slice::Iter<'a, T> as Iterator>::count`
pub fn iter_count<'a, T>(it: SliceIter<'a, T>) -> usize {
    it.j - it.i
}

/// `<core::slice::Iter<'a, T> as Iterator>::last`
pub fn iter_last<'a, T>(it: SliceIter<'a, T>) -> Option<&'a T> {
    if it.i < it.j {
        Some(&it.s[it.j - 1])
    } else {
        None
    }
}

/// `<core::slice::Iter<'a, T> as Iterator>::nth` (an overshooting `n` exhausts the iterator)
pub fn iter_nth<'a, T>(it: &mut SliceIter<'a, T>, n: usize) -> Option<&'a T> {
    if n >= it.j - it.i {
        it.i = it.j;
        None
    } else {
        it.i += n;
        let r = &it.s[it.i];
        it.i += 1;
        Some(r)
    }
}

/// `<core::slice::Iter<'a, T> as DoubleEndedIterator>::nth_back`
pub fn iter_nth_back<'a, T>(it: &mut SliceIter<'a, T>, n: usize) -> Option<&'a T> {
    if n >= it.j - it.i {
        it.j = it.i;
        None
    } else {
        it.j -= n;
        it.j -= 1;
        Some(&it.s[it.j])
    }
}

/// `<core::slice::Iter<'a, T> as Iterator>::fold`
pub fn iter_fold<'a, T, B, F: FnMut(B, &'a T) -> B>(mut it: SliceIter<'a, T>, init: B, mut f: F) -> B {
    let mut acc = init;
    while it.i < it.j {
        let r = &it.s[it.i];
        it.i += 1;
        acc = f(acc, r);
    }
    acc
}

/// `<core::slice::Iter<'a, T> as Iterator>::for_each`
pub fn iter_for_each<'a, T, F: FnMut(&'a T)>(mut it: SliceIter<'a, T>, mut f: F) {
    while it.i < it.j {
        let r = &it.s[it.i];
        it.i += 1;
        f(r);
    }
}

/// `<core::slice::Iter<'a, T> as Iterator>::__iterator_get_unchecked` (used by `Zip`; callers stay below `size_hint`)
pub fn iter_get_unchecked<'a, T>(it: &mut SliceIter<'a, T>, idx: usize) -> &'a T {
    &it.s[it.i + idx]
}

/// `<core::slice::Iter<'a, T> as Iterator>::rposition` (index counted from the front, searched from the back)
pub fn iter_rposition<'a, T, P: FnMut(&'a T) -> bool>(it: &mut SliceIter<'a, T>, mut p: P) -> Option<usize> {
    let mut k = it.j - it.i;
    while it.i < it.j {
        it.j -= 1;
        k -= 1;
        if p(&it.s[it.j]) {
            return Some(k);
        }
    }
    None
}

/// `core::slice::Iter::<'a, T>::as_slice`
pub fn iter_as_slice<'a, T>(it: &SliceIter<'a, T>) -> &'a [T] {
    &it.s[it.i..it.j]
}

/// stands in for `core::slice::IterMut<'a, T>`
pub struct SliceIterMut<'a, T> {
    s: &'a mut [T],
}

/// `core::slice::<impl [T]>::iter_mut`
pub fn slice_iter_mut<'a, T>(s: &'a mut [T]) -> SliceIterMut<'a, T> {
    SliceIterMut { s }
}

/// `<core::slice::IterMut<'a, T> as Iterator>::next`
pub fn iter_mut_next<'a, T>(it: &mut SliceIterMut<'a, T>) -> Option<&'a mut T> {
    let s = core::mem::replace(&mut it.s, &mut []);
    match s {
        [] => None,
        [first, rest @ ..] => {
            it.s = rest;
            Some(first)
        }
    }
}

/// stands in for `core::array::IntoIter<T, N>` (by-value array iteration, `for x in [a, b, c]`).  The `Copy` bound only
/// serves the type checker here: the interpreter executes the MIR for any `T` (a move and a copy are the same to it).
pub struct ArrIter<T: Copy, const N: usize> {
    a: [T; N],
    i: usize,
    j: usize,
}

/// element `i` through the slice view (the bounds check then reads the length from the value, not from `N`)
fn at<T: Copy, const N: usize>(a: &[T; N], i: usize) -> T {
    let s: &[T] = a;
    s[i]
}

/// `<[T; N] as IntoIterator>::into_iter`
pub fn array_into_iter<T: Copy, const N: usize>(a: [T; N]) -> ArrIter<T, N> {
    let n = {
        let s: &[T] = &a;
        s.len()
    };
    ArrIter { a, i: 0, j: n }
}

/// `<core::array::IntoIter<T, N> as Iterator>::next`
pub fn arr_iter_next<T: Copy, const N: usize>(it: &mut ArrIter<T, N>) -> Option<T> {
    if it.i < it.j {
        let v = at(&it.a, it.i);
        it.i += 1;
        Some(v)
    } else {
        None
    }
}

/// `<core::array::IntoIter<T, N> as DoubleEndedIterator>::next_back`
pub fn arr_iter_next_back<T: Copy, const N: usize>(it: &mut ArrIter<T, N>) -> Option<T> {
    if it.i < it.j {
        it.j -= 1;
        Some(at(&it.a, it.j))
    } else {
        None
    }
}

/// `<core::array::IntoIter<T, N> as Iterator>::size_hint`
pub fn arr_iter_size_hint<T: Copy, const N: usize>(it: &ArrIter<T, N>) -> (usize, Option<usize>) {
    let n = it.j - it.i;
    (n, Some(n))
}

/// `<core::array::IntoIter<T, N> as ExactSizeIterator>::len`
pub fn arr_iter_len<T: Copy, const N: usize>(it: &ArrIter<T, N>) -> usize {
    it.j - it.i
}

/// `<core::array::IntoIter<T, N> as Iterator>::count`
pub fn arr_iter_count<T: Copy, const N: usize>(it: ArrIter<T, N>) -> usize {
    it.j - it.i
}

/// `<core::array::IntoIter<T, N> as Iterator>::last`
pub fn arr_iter_last<T: Copy, const N: usize>(it: ArrIter<T, N>) -> Option<T> {
    if it.i < it.j {
        Some(at(&it.a, it.j - 1))
    } else {
        None
    }
}

/// `<core::array::IntoIter<T, N> as Iterator>::fold`
pub fn arr_iter_fold<T: Copy, const N: usize, B, F: FnMut(B, T) -> B>(mut it: ArrIter<T, N>, init: B, mut f: F) -> B {
    let mut acc = init;
    while it.i < it.j {
        let v = at(&it.a, it.i);
        it.i += 1;
        acc = f(acc, v);
    }
    acc
}

/// stands in for `core::char::CaseMappingIter` (what `char::to_uppercase()` / `to_lowercase()` wrap)
pub struct CaseIter(ArrIter<char, 3>);

/// `core::char::CaseMappingIter::new`: the up-to-three characters of a case mapping, trailing NULs dropped
pub fn case_mapping_iter_new(chars: [char; 3]) -> CaseIter {
    let mut it = array_into_iter(chars);
    if at(&chars, 2) == '\0' {
        arr_iter_next_back(&mut it);
        if at(&chars, 1) == '\0' {
            arr_iter_next_back(&mut it);
        }
    }
    CaseIter(it)
}

/// `<core::array::IntoIter<T, N> as DoubleEndedIterator>::rfold`
pub fn arr_iter_rfold<T: Copy, const N: usize, B, F: FnMut(B, T) -> B>(mut it: ArrIter<T, N>, init: B, mut f: F) -> B {
    let mut acc = init;
    while it.i < it.j {
        it.j -= 1;
        let v = at(&it.a, it.j);
        acc = f(acc, v);
    }
    acc
}

/// `<core::array::IntoIter<T, N> as Iterator>::nth`
pub fn arr_iter_nth<T: Copy, const N: usize>(it: &mut ArrIter<T, N>, n: usize) -> Option<T> {
    if n >= it.j - it.i {
        it.i = it.j;
        None
    } else {
        it.i += n;
        let v = at(&it.a, it.i);
        it.i += 1;
        Some(v)
    }
}

/// stands in for `core::char::ToUppercase` / `ToLowercase` (a wrapper around the case-mapping iterator)
pub struct CaseWrap(CaseIter);

/// `<core::char::ToUppercase as Iterator>::next` (and `ToLowercase`)
pub fn case_next(it: &mut CaseWrap) -> Option<char> {
    arr_iter_next(&mut it.0 .0)
}

/// `<core::char::ToUppercase as DoubleEndedIterator>::next_back`
pub fn case_next_back(it: &mut CaseWrap) -> Option<char> {
    arr_iter_next_back(&mut it.0 .0)
}

/// `<core::char::ToUppercase as Iterator>::size_hint`
pub fn case_size_hint(it: &CaseWrap) -> (usize, Option<usize>) {
    arr_iter_size_hint(&it.0 .0)
}

/// `<core::char::ToUppercase as ExactSizeIterator>::len`
pub fn case_len(it: &CaseWrap) -> usize {
    arr_iter_len(&it.0 .0)
}

/// `<core::char::ToUppercase as Iterator>::count`
pub fn case_count(it: CaseWrap) -> usize {
    arr_iter_count(it.0 .0)
}

/// `<core::char::ToUppercase as Iterator>::last`
pub fn case_last(it: CaseWrap) -> Option<char> {
    arr_iter_last(it.0 .0)
}

/// `<core::char::ToUppercase as Iterator>::fold`
pub fn case_fold<B, F: FnMut(B, char) -> B>(it: CaseWrap, init: B, f: F) -> B {
    arr_iter_fold(it.0 .0, init, f)
}

/// stands in for `core::str::Chars<'a>` { iter: slice::Iter<'a, u8> }
pub struct CharsShim<'a> {
    iter: SliceIter<'a, u8>,
}

/// `core::str::<impl str>::chars`
pub fn str_chars<'a>(s: &'a str) -> CharsShim<'a> {
    CharsShim { iter: slice_iter(s.as_bytes()) }
}

/// stands in for `core::iter::Copied<I>` { it: I }
pub struct CopiedShim<I> {
    it: I,
}

/// stands in for `core::str::Bytes<'a>`(Copied<slice::Iter<'a, u8>>)
pub struct BytesShim<'a>(CopiedShim<SliceIter<'a, u8>>);

/// `core::str::<impl str>::bytes`
pub fn str_bytes<'a>(s: &'a str) -> BytesShim<'a> {
    BytesShim(CopiedShim { it: slice_iter(s.as_bytes()) })
}

/// stands in for `core::str::CharIndices<'a>` { front_offset: usize, iter: Chars<'a> }
pub struct CharIndicesShim<'a> {
    front_offset: usize,
    iter: CharsShim<'a>,
}

/// `core::str::<impl str>::char_indices`
pub fn str_char_indices<'a>(s: &'a str) -> CharIndicesShim<'a> {
    CharIndicesShim { front_offset: 0, iter: str_chars(s) }
}

/// `<core::slice::Iter<'_, T> as ExactSizeIterator>::is_empty`
pub fn iter_is_empty<'a, T>(it: &SliceIter<'a, T>) -> bool {
    it.i == it.j
}

/// `<core::array::IntoIter<T, N> as ExactSizeIterator>::is_empty`
pub fn arr_iter_is_empty<T: Copy, const N: usize>(it: &ArrIter<T, N>) -> bool {
    it.i == it.j
}

/// one UTF-8 scalar from the byte iterator (the text of a `&str` is valid UTF-8, so continuation bytes are there);
/// mirrors `core::str::validations::next_code_point`
fn decode_next<'a>(it: &mut SliceIter<'a, u8>) -> Option<u32> {
    let x = *iter_next(it)?;
    if x < 128 {
        return Some(x as u32);
    }
    let init = (x & (0x7F >> 2)) as u32;
    let y = match iter_next(it) { Some(b) => *b, None => 0 };
    let mut ch = (init << 6) | (y & 0x3F) as u32;
    if x >= 0xE0 {
        let z = match iter_next(it) { Some(b) => *b, None => 0 };
        let y_z = (((y & 0x3F) as u32) << 6) | (z & 0x3F) as u32;
        ch = (init << 12) | y_z;
        if x >= 0xF0 {
            let w = match iter_next(it) { Some(b) => *b, None => 0 };
            ch = ((init & 7) << 18) | (y_z << 6) | (w & 0x3F) as u32;
        }
    }
    Some(ch)
}

/// `<core::str::Chars<'a> as Iterator>::nth` (core's version skips ahead over raw chunks; same result)
pub fn chars_nth<'a>(it: &mut CharsShim<'a>, n: usize) -> Option<char> {
    let mut k = 0usize;
    while k < n {
        decode_next(&mut it.iter)?;
        k += 1;
    }
    match decode_next(&mut it.iter) {
        Some(c) => char::from_u32(c),
        None => None,
    }
}

/// `<core::str::Chars<'a> as Iterator>::advance_by` (what the default `nth` / `skip` call)
pub fn chars_advance_by<'a>(it: &mut CharsShim<'a>, n: usize) -> Result<(), core::num::NonZero<usize>> {
    let mut rem = n;
    while rem > 0 {
        if decode_next(&mut it.iter).is_none() {
            break;
        }
        rem -= 1;
    }
    match core::num::NonZero::new(rem) {
        None => Ok(()),
        Some(r) => Err(r),
    }
}

/// `<core::str::Chars<'a> as Iterator>::count`
pub fn chars_count<'a>(mut it: CharsShim<'a>) -> usize {
    let mut n = 0usize;
    while decode_next(&mut it.iter).is_some() {
        n += 1;
    }
    n
}

/// `Iterator::any` on `core::array::IntoIter<T, N>` (the provided method goes through the raw `try_fold`)
pub fn arr_iter_any<T: Copy, const N: usize, P: FnMut(T) -> bool>(it: &mut ArrIter<T, N>, mut p: P) -> bool {
    while it.i < it.j {
        let v = at(&it.a, it.i);
        it.i += 1;
        if p(v) {
            return true;
        }
    }
    false
}

/// `Iterator::all` on `core::array::IntoIter<T, N>`
pub fn arr_iter_all<T: Copy, const N: usize, P: FnMut(T) -> bool>(it: &mut ArrIter<T, N>, mut p: P) -> bool {
    while it.i < it.j {
        let v = at(&it.a, it.i);
        it.i += 1;
        if !p(v) {
            return false;
        }
    }
    true
}

/// `Iterator::find` on `core::array::IntoIter<T, N>`
pub fn arr_iter_find<T: Copy, const N: usize, P: FnMut(&T) -> bool>(it: &mut ArrIter<T, N>, mut p: P) -> Option<T> {
    while it.i < it.j {
        let v = at(&it.a, it.i);
        it.i += 1;
        if p(&v) {
            return Some(v);
        }
    }
    None
}

/// `Iterator::find_map` on `core::array::IntoIter<T, N>`
pub fn arr_iter_find_map<T: Copy, const N: usize, B, F: FnMut(T) -> Option<B>>(it: &mut ArrIter<T, N>, mut f: F) -> Option<B> {
    while it.i < it.j {
        let v = at(&it.a, it.i);
        it.i += 1;
        if let Some(b) = f(v) {
            return Some(b);
        }
    }
    None
}

/// `Iterator::position` on `core::array::IntoIter<T, N>`
pub fn arr_iter_position<T: Copy, const N: usize, P: FnMut(T) -> bool>(it: &mut ArrIter<T, N>, mut p: P) -> Option<usize> {
    let mut k = 0usize;
    while it.i < it.j {
        let v = at(&it.a, it.i);
        it.i += 1;
        if p(v) {
            return Some(k);
        }
        k += 1;
    }
    None
}

/// stands in for `core::slice::Windows<'a, T>`
pub struct WindowsShim<'a, T> {
    s: &'a [T],
    n: usize,
}

/// `core::slice::<impl [T]>::windows`
pub fn slice_windows<'a, T>(s: &'a [T], n: usize) -> WindowsShim<'a, T> {
    assert!(n != 0, "window size must be non-zero");
    WindowsShim { s, n }
}

/// `<core::slice::Windows<'a, T> as Iterator>::next`
pub fn windows_next<'a, T>(it: &mut WindowsShim<'a, T>) -> Option<&'a [T]> {
    if it.n > it.s.len() {
        None
    } else {
        let r = it.s.split_at(it.n).0;
        it.s = it.s.split_at(1).1;
        Some(r)
    }
}

/// stands in for `core::slice::Chunks<'a, T>`
pub struct ChunksShim<'a, T> {
    s: &'a [T],
    n: usize,
}

/// `core::slice::<impl [T]>::chunks`
pub fn slice_chunks<'a, T>(s: &'a [T], n: usize) -> ChunksShim<'a, T> {
    assert!(n != 0, "chunk size must be non-zero");
    ChunksShim { s, n }
}

/// `<core::slice::Chunks<'a, T> as Iterator>::next`
pub fn chunks_next<'a, T>(it: &mut ChunksShim<'a, T>) -> Option<&'a [T]> {
    if it.s.is_empty() {
        None
    } else {
        let k = if it.n < it.s.len() { it.n } else { it.s.len() };
        let (r, rest) = it.s.split_at(k);
        it.s = rest;
        Some(r)
    }
}

/// stands in for `core::slice::ChunksExact<'a, T>`
pub struct ChunksExactShim<'a, T> {
    s: &'a [T],
    rem: &'a [T],
    n: usize,
}

/// `core::slice::<impl [T]>::chunks_exact`
pub fn slice_chunks_exact<'a, T>(s: &'a [T], n: usize) -> ChunksExactShim<'a, T> {
    assert!(n != 0, "chunk size must be non-zero");
    let full = s.len() - s.len() % n;
    let (body, rem) = s.split_at(full);
    ChunksExactShim { s: body, rem, n }
}

/// `<core::slice::ChunksExact<'a, T> as Iterator>::next`
pub fn chunks_exact_next<'a, T>(it: &mut ChunksExactShim<'a, T>) -> Option<&'a [T]> {
    if it.s.len() < it.n {
        None
    } else {
        let (r, rest) = it.s.split_at(it.n);
        it.s = rest;
        Some(r)
    }
}

/// `core::slice::ChunksExact::<'a, T>::remainder`
pub fn chunks_exact_remainder<'a, T>(it: &ChunksExactShim<'a, T>) -> &'a [T] {
    it.rem
}
